"""C15 — point-defect insertion (atomman/defect/point.py): vacancy, interstitial, substitutional,
dumbbell and the dispatcher `point`.

Tie: translator + correspondence.  `translate()` compiles the five functions of point.py (ast, statement by statement) into
lean/Atomman/Generated/PointSource.lean over the source-level primitives of the model; Proofs/C15_Source.lean proves each
generated function equal to the hand model.  Short histories of insertions are run on the real atomman (rebuilt from /repo's
working tree) and on the compiled Lean model driver (`drv_c15`, stateful: it holds the current system)
with the same exact rational inputs; replies (full system dumps or the refusal class) are compared.
Search: the clauses of the property are evaluated on the real code with an independent Fraction oracle.
"""
from __future__ import annotations

import ast
import copy
import itertools
import math
import random
from fractions import Fraction

from .. import common as cm

PROP = 'C15'
THEOREMS = [
    'C15.vacancy_spec', 'C15.interstitial_spec', 'C15.substitutional_spec', 'C15.dumbbell_spec', 'C15.same_cell',
    'C15.old_id_present', 'C15.old_id_correct', 'C15.interstitial_old', 'C15.substitutional_old', 'C15.dumbbell_old',
    'C15.old_id_composes', 'C15.old_id_composes_fresh',
    'C15.site_of_image', 'C15.pos_eq_index_selection', 'C15.pos_eq_index_cartesian', 'C15.pos_eq_index_relative',
    'C15.index_normalisation', 'C15.index_negative',
    'C15.refuse_absent_site', 'C15.refuse_ambiguous_site', 'C15.refuse_occupied_interstitial', 'C15.refuse_same_type',
    'C15.refuse_index_out_of_range', 'C15.refuse_both_or_neither', 'C15.refusals_propagate',
    'C15.point_dispatch', 'C15.input_unchanged_partial',
    'C15.atol_resolution', 'C15.point_atol_passthrough', 'C15.within_iff', 'C15.within_tie', 'C15.within_zero_tol',
    'C15.within_mono', 'C15.zero_tol_offsite', 'C15.symbols_masses_kept',
    'C15.resolve_pos_iff_unique', 'C15.interstitial_ok_iff_free',
    'C15.guardAtype_ok', 'C15.atol_none_is_default', 'C15.refuse_bad_atype',
    'C15.dvect_scale', 'C15.within_scale', 'C15.search_scale_invariant',
    # checked source tie: Generated/PointSource.lean (regenerated from point.py) = the hand model
    'C15.gen_signatures_eq_model', 'C15.gen_dflt_eq_model', 'C15.gen_raises_eq_model',
    'C15.gen_vacancy_site_eq_model', 'C15.gen_substitutional_site_eq_model', 'C15.gen_dumbbell_site_eq_model',
    'C15.gen_vacancy_eq_model', 'C15.gen_interstitial_eq_model', 'C15.gen_substitutional_eq_model',
    'C15.gen_dumbbell_eq_model', 'C15.gen_point_eq_model',
    # completeness of the refusals (iff), index forms, tolerance test = numpy's isclose formula
    'C15.resolve_index_iff', 'C15.refuse_index_iff', 'C15.resolve_index_indep', 'C15.vacancy_ok_iff',
    'C15.substitutional_ok_iff', 'C15.dumbbell_ok_iff', 'C15.guardAtype_ok_iff', 'C15.pointC_dispatch',
    'C15.within_iff_isclose', 'C15.index_forms_same_result',
    # keywords: requested values / defaults, unknown keys ignored, order irrelevant
    'C15.zerosLike_spec', 'C15.unknown_keyword_ignored', 'C15.keyword_order_irrelevant',
    'C15.interstitial_last', 'C15.substitutional_last', 'C15.dumbbell_last',
    # histories
    'C15.count_change', 'C15.run_count', 'C15.run_same_cell', 'C15.interstitial_vacancy_roundtrip',
    # end to end, about the functions as written in point.py (Generated/PointSource.lean)
    'C15.source_vacancy_is_op', 'C15.source_interstitial_is_op', 'C15.source_substitutional_is_op',
    'C15.source_dumbbell_is_op', 'C15.source_point_is_op', 'C15.source_vacancy_ok_iff',
    'C15.source_interstitial_ok_iff', 'C15.source_substitutional_ok_iff', 'C15.source_dumbbell_ok_iff',
    'C15.op_clauses', 'C15.source_point_clauses',
    # the per-property loop does not depend on the order of the properties; index objects that are not integers
    'C15.loop_branches_commute', 'C15.float_index_class', 'C15.float_index_range_agrees', 'C15.float_index_refused',
]
PARTIAL = {
    'the input system is untouched': 'input_unchanged_partial is `rfl` (the model is a pure function, so there is nothing to '
    'prove in Lean); the clause is decided on the implementation only: snapshot of arrays and instance dictionaries, memory walk, '
    'repeat-and-scribble probe, same-object sequences (correspondence / oracle), not by a theorem',
    'periodic image beyond the adjacent cells': 'pos_eq_index_selection is proved for a position that is the atom '
    'shifted by n in {-1,0,1}^3 cell vectors along periodic directions, which is exactly the candidate set of '
    'dvect_c; a position two or more cells away is refused by the code (model and implementation agree) - also in a '
    'strongly sheared cell where such a translation (e.g. b - 2a) is SHORTER than a cell edge, i.e. the geometrically '
    'nearest image is then not found (observed: vects [[4,0,0],[10,4,0],[0,0,4]], pos = atom - 2a + b, |b - 2a| = 4.47: '
    'refused). The minimum-image range of dvect is C02\'s subject',
}
RULE = ('random systems: 1-8 atoms on a 1/8 grid of box-relative coordinates (sometimes up to a cell outside the box, a hair '
        '2^-7 / 2^-9 off faces, an atom exactly at the cell origin) in cubic / orthorhombic / tilted / general triclinic / '
        'STRONGLY SHEARED non-reduced (tilts 1.25-2.75 edges) / flat (one edge 1/4 .. 1) dyadic cells and 3-4-5-rotated cells '
        '(off the binary grid), in any setting (Cartesian axes permuted and mirrored, cell vectors relabelled: every sign '
        'pattern, left-handed), origin zero / small / far away (+-2^10..2^14), any pbc, the whole geometry scaled by 2^k with k in '
        '+-{10,14,17,20,24,27,33,40,100,300,480}; 1-3 atom types with gaps, symbols shorter/equal/longer than natypes, per-type '
        'masses (absent / partial / with missing entries), extra properties of float/int/bool/fixed-width-string dtype and '
        'per-atom shapes (), (1,), (1,1), (2,), (3,), (3,3), (2,2,2), named normally or by substrings of the reserved keys '
        "('p','os','o','old','id','type',...) or by the generators' own parameter names ('scale','atol','ptd_id','db_vect',"
        "'system','ptd_type': never passable through **kwargs), with or without an existing old_id (before or after the other "
        'properties), sometimes a close pair of atoms; histories of 1-4 and 5/7/10 insertions; each insertion: any of the four '
        'generators, directly or through point() (keywords or the documented positional order, ptd_type omitted for its '
        'default), site by index (every value in [-n-2, n+1]; Python int, numpy int8/int32/int64/intp) / Cartesian pos / '
        'box-relative pos / both / neither, pos = atom position + optional lattice translation (adjacent cells, also along '
        'non-periodic directions, and beyond: components up to +-2) + an offset chosen INDEPENDENTLY of the tolerance (none, '
        'along one axis, along a face diagonal (3,4,0), along a body diagonal (1,2,2)/(2,3,6)/(1,4,8); exact length 2^-12 .. 1 '
        'times the scale), the all-zero position of an atom at the origin, and a tolerance chosen around that offset: None '
        '(default), 0, 1e-12, exactly the offset (tie), offset -/+ 2^-12, one ulp below / above, half, double, negative, 100 '
        '(ambiguous), 1.25 x distance to another atom (ambiguous), as float / int / numpy.float64 / numpy.float32 / '
        'numpy.int64 (explicit tolerances scale with 2^k, the default does not); working units: angstrom (default), nm, pm, '
        'um, SI, eV->J (reset around the call); the FORM of pos / db_vect: float64 array, list, tuple, float32 array, '
        'int list / int64 / int32 array (integer values), read-only array, strided view, (1,3) row, list of mixed '
        'int / float / numpy.float32 / numpy.float64 scalars; scale as bool / int / numpy.bool_; kwargs any subset of atype '
        '(1-4, and 0 / -1: refused) / old_id (fresh, 0, an id already present) / the extra properties (arrays, lists, tuples, '
        "nested lists, Python / numpy scalars; a quarter of them all-zero / False / '') / an unknown key; db_vect zero; "
        'dispatcher assertion combinations and an invalid ptd_type; non-integer index objects (2.0, 1.5, -0.5, numpy.float64, '
        "'1'). A systematic sweep runs every tolerance candidate for every generator x offset kind x (scale 2^k) x units on "
        'independent requests. Same-object sequences: 3-9 requests to ONE input object with in-place edits of it in between '
        '(atom moved / two atoms swapped / one atom put where another was / pbc / atype / property value / box origin), the '
        'same request often repeated after the edit. Repeat probe (15% of accepted requests): the identical request again, '
        'its result overwritten in place, a third call. Large systems (oracle only): truncated fcc supercells in random atom '
        'order on a dyadic grid, orthorhombic / integer-sheared box, dyadic origin, any pbc, 3 types and 3 extra properties, '
        'two extra atoms 2^-8 apart with indices in different 65536-blocks; 70306 and 140610 atoms every run plus sizes '
        '2^j-1, 2^j, 2^j+1 (j = 10..17); targets 0, 65535, 65536, 65537, 131071..131073, last, other 2^j+-1; each generator '
        'selected by index (k, k-N, numpy.int64, via point) and by position (array, list, periodic image, box-relative, via '
        'point, atol=0), interstitial on occupied / free sites, absent / ambiguous / resolved sites; whole-array bitwise '
        'comparison against slices of the construction data. distinct = distinct (system line, op line, units); non-trivial = the '
        'insertion is accepted or refused for a reason other than the argument-combination checks')
ASSUMPTIONS = [
    'IEEE double arithmetic of numpy/Cython is exact on the binary-grid inputs generated (scale-free test: with g the finest bit '
    'of any value, every value < 2^40 g and every cell-sized quantity < 2^21 g, so sums and sums of squares are exact): site '
    'selection and positions are compared exactly there; off the grid (rotated cells, box-relative input in a cell whose inverse '
    'is not dyadic) the new positions are compared to 1e-12 of the length scale and cases whose distance is within 1e-9 '
    '(relative) of atol, or an exact hit judged with a zero / negative tolerance, are exempt',
    'np.linalg.norm / np.isclose(d, 0, atol) decide d == 0 or d <= atol; modelled on squares (d2 = 0 or (0 <= atol and d2 <= atol^2)); '
    'on the binary grid a distance whose square is a perfect dyadic square is returned exactly by sqrt, so the comparison is exact '
    'also at |d| = atol and one ulp from it; squares stay in the double range for |k| <= 480',
    'the default tolerance uc.set_in_units(0.01, "angstrom") is 0.01 x (1 angstrom in the working length unit); the model takes it '
    'as a parameter (driver command dflt), the oracle computes it as an exact rational independently of atomman.unitconvert',
    'numpy fancy indexing arr[index] and deepcopy copy the selected rows (modelled by gather)',
    'kwargs values are given in the dtype and per-atom shape of the property, in any container form (numpy casting of the '
    'assignment view[prop][-1] = value is not modelled); strings travel as integer codes (0 = the empty string)',
    'a (1,3) position is taken like a (3,) one (what the code does; the documentation says "array-like")',
    'statement pins of the translator (call shapes matched exactly on the AST and mapped to a model primitive; their SEMANTICS is '
    'tied by the correspondence run): np.where(np.isclose(np.linalg.norm(np.atleast_2d(system.dvect(pos, system.atoms.pos)), '
    'axis=1), 0.0, atol=atol)) -> siteMatches; System(box=deepcopy(system.box), pbc=deepcopy(system.pbc), '
    'atoms=deepcopy(system.atoms[index]), symbols=system.symbols, masses=system.masses) -> sliced; np.asarray(x, dtype=float) -> x; '
    'np.dot(v, system.box.vects) -> M3.vecMul; box.position_relative_to_cartesian -> Box.relToCart; return d_system -> fixSym '
    '(what the caller reads through the padding symbols / masses getters); try: index.pop(ptd_id) except: raise -> its body',
    'the per-property loop runs each branch once per property; that its iterations commute is proved for the model primitives '
    '(loop_branches_commute); that atoms_prop() lists every property exactly once is numpy/dict behaviour',
    'gen_dumbbell_eq_model / gen_point_eq_model hold for systems whose atom types are all >= 1 (ValidTypes): Atoms.natypes refuses '
    'anything else, so no System can violate it',
    'sqrt is exact where the harness compares exactly; with an exact distance r the model test on squares IS numpy isclose formula '
    '(within_iff_isclose, any rtol)',
]
TRUSTED = ['numpy indexing/assignment in the implementation run', 'shared Lean model of dvect_c (Atomman/Dvect.lean, tied to the '
           'Cython source by C02\'s correspondence and again here through site selection)',
           'the translator of this module (python ast -> Lean text); a mistranslation would have to be matched by the same mistake '
           'in the hand model to go unnoticed, and the correspondence run compares the hand model with the real code']

RESERVED = ('atype', 'pos', 'old_id')
DEFAULT_ATOL = 0.01


# ----------------------------------------------------------------------------------------
# translator: atomman/defect/point.py  ->  lean/Atomman/Generated/PointSource.lean
# ----------------------------------------------------------------------------------------
#
# Every function of point.py is re-read with `ast` on each check and compiled, statement by statement, into a Lean
# definition over the source-level primitives of Atomman/C15.lean (siteMatches, sliced, setLastAtype, ...).  What is
# taken from the source: signatures and defaults, the default-tolerance literal, every branch condition (operators,
# operands, constants) and the order of the branches, which variable is narrowed / reassigned where, the index-list
# operations in order, the keyword -> property routing of the per-property loop (first matching branch, else branch
# instantiated for the remaining properties), `kwargs.pop` keys and defaults, the [-1] / [-2] targets, the closing guard,
# the keyword routing of the dispatcher's calls (a keyword that is not handed on becomes the callee's default).
# Proofs/C15_Source.lean proves each generated function equal to the hand model (`gen_..._eq_model`).
# Anything outside the subset raises TranslationError (the check then reports the tie as broken and runs the search).

GENERATED = ['PointSource']
POINT_FILE = 'atomman/defect/point.py'
GEN_FUNCS = ('vacancy', 'interstitial', 'substitutional', 'dumbbell', 'point')
_BASE_TYPES = {'pos': 'V3', 'db_vect': 'V3', 'ptd_id': 'Int', 'scale': 'Bool', 'atol': 'K', 'atype': 'Int',
               'ptd_type': 'Str', 'system': 'Sys'}
_LEAN_TYPES = {'V3': 'V3 K', 'OptV3': 'Option (V3 K)', 'Int': 'Int', 'OptInt': 'Option Int', 'Bool': 'Bool', 'K': 'K',
               'OptK': 'Option K', 'Str': 'String', 'Kw': 'Kw K', 'Sys': 'Sys K', 'Nat': 'Nat'}


def _TE(msg, node=None):
    from ..translate import TranslationError
    where = ''
    if node is not None:
        try:
            where = f' [line {getattr(node, "lineno", "?")}: {ast.unparse(node)[:90]}]'
        except Exception:
            pass
    return TranslationError(msg + where)


def _adump(n):
    return ast.dump(n)


def _pe(src):
    return ast.dump(ast.parse(src, mode='eval').body)


def _tind(lines, n=2):
    return [' ' * n + l for l in lines]


def _lstr(s):
    return '"' + s.replace('\\', '\\\\').replace('"', '\\"') + '"'


class _Fn:
    """compiler of one function of point.py."""

    def __init__(self, node, sigs, ptypes):
        self.node = node
        self.name = node.name
        self.sigs = sigs            # name -> [(param, default-as-written | '' | '**')]
        self.ptypes = ptypes        # name -> {param: type} of the functions compiled so far
        self.dflt = None            # (num, den, unit)
        self.notes = []
        self.kwname = node.args.kwarg.arg if node.args.kwarg else None
        self.nbind = 0
        self.aux = []

    # ---- parameters ------------------------------------------------------------------
    def _tested_none(self, name):
        for n in ast.walk(self.node):
            if isinstance(n, ast.Compare) and isinstance(n.left, ast.Name) and n.left.id == name \
                    and len(n.ops) == 1 and isinstance(n.ops[0], (ast.Is, ast.IsNot)) \
                    and isinstance(n.comparators[0], ast.Constant) and n.comparators[0].value is None:
                return True
        return False

    def params(self):
        out = []
        for p, d in self.sigs[self.name]:
            if p.startswith('**'):
                out.append((p[2:], 'Kw'))
                continue
            if p not in _BASE_TYPES:
                raise _TE(f'{self.name}: unknown parameter {p}')
            t = _BASE_TYPES[p]
            if d == 'None' and (self.name == 'point' or self._tested_none(p)):
                if t not in ('V3', 'Int', 'K'):
                    raise _TE(f'{self.name}: optional parameter {p} of type {t}')
                t = 'Opt' + t
            out.append((p, t))
        return out

    # ---- expressions -----------------------------------------------------------------
    def fresh(self, stem):
        self.nbind += 1
        return f'{stem}{self.nbind}'

    def asInt(self, lean, t, node):
        if t == 'Int':
            return lean
        if t == 'Nat':
            return f'(({lean} : Nat) : Int)'
        raise _TE(f'integer expected, got {t}', node)

    def ex(self, n, env):
        """-> (lean, type, binds); binds = [(var, Except-valued lean)] to be matched before the expression."""
        if isinstance(n, ast.Constant):
            v = n.value
            if isinstance(v, bool):
                return ('true' if v else 'false'), 'Bool', []
            if isinstance(v, int):
                return f'({v} : Int)', 'Int', []
            if isinstance(v, str):
                return _lstr(v), 'Str', []
            raise _TE('unsupported constant', n)
        if isinstance(n, ast.Name):
            if n.id not in env:
                raise _TE(f'name {n.id} is not defined on every path here', n)
            return env[n.id][0], env[n.id][1], []
        if isinstance(n, ast.UnaryOp) and isinstance(n.op, ast.USub) and isinstance(n.operand, ast.Constant) \
                and isinstance(n.operand.value, int) and not isinstance(n.operand.value, bool):
            return f'(-{n.operand.value} : Int)', 'Int', []
        if isinstance(n, ast.UnaryOp) and isinstance(n.op, ast.Not):
            a, t, b = self.prop(n.operand, env)
            return f'¬ ({a})', 'Prop', b
        if isinstance(n, ast.BoolOp):
            parts, binds = [], []
            for v in n.values:
                a, t, b = self.prop(v, env)
                parts.append(f'({a})')
                binds += b
            return (' ∧ ' if isinstance(n.op, ast.And) else ' ∨ ').join(parts), 'Prop', binds
        if isinstance(n, ast.Compare):
            if len(n.ops) != 1:
                raise _TE('chained comparison', n)
            op, l, r = n.ops[0], n.left, n.comparators[0]
            if isinstance(op, (ast.Is, ast.IsNot)) and isinstance(r, ast.Constant) and r.value is None:
                a, t, b = self.ex(l, env)
                if not t.startswith('Opt'):
                    raise _TE(f'`is None` test of a value of type {t}', n)
                return f'{a}.{"isNone" if isinstance(op, ast.Is) else "isSome"} = true', 'Prop', b
            if isinstance(op, (ast.In, ast.NotIn)) and isinstance(l, ast.Constant) and l.value == 'old_id' \
                    and isinstance(r, ast.Call) and not r.args and not r.keywords and isinstance(r.func, ast.Attribute) \
                    and r.func.attr == 'atoms_prop' and isinstance(r.func.value, ast.Name):
                a, t, b = self.ex(r.func.value, env)
                if t == 'Sys':
                    return f'hasOldId {a} = {"true" if isinstance(op, ast.In) else "false"}', 'Prop', b
            a, ta, ba = self.ex(l, env)
            c, tc, bc = self.ex(r, env)
            if ta == 'Str' and tc == 'Str' and isinstance(op, (ast.Eq, ast.NotEq)):
                return f'{a} {"=" if isinstance(op, ast.Eq) else "≠"} {c}', 'Prop', ba + bc
            sym = {ast.Lt: '<', ast.LtE: '≤', ast.Gt: '>', ast.GtE: '≥', ast.Eq: '=', ast.NotEq: '≠'}.get(type(op))
            if sym is None:
                raise _TE('unsupported comparison operator', n)
            return f'{self.asInt(a, ta, l)} {sym} {self.asInt(c, tc, r)}', 'Prop', ba + bc
        if isinstance(n, ast.BinOp) and isinstance(n.op, (ast.Add, ast.Sub)):
            a, ta, ba = self.ex(n.left, env)
            c, tc, bc = self.ex(n.right, env)
            s = '+' if isinstance(n.op, ast.Add) else '-'
            if ta == 'V3' and tc == 'V3':
                return f'({a} {s} {c})', 'V3', ba + bc
            return f'({self.asInt(a, ta, n.left)} {s} {self.asInt(c, tc, n.right)})', 'Int', ba + bc
        if isinstance(n, ast.Attribute):
            d = _adump(n)
            if d == _pe('system.natoms') and env.get('system', ('', ''))[1] == 'Sys':
                return '((system.atoms.length : Nat) : Int)', 'Int', []
            raise _TE('unsupported attribute', n)
        if isinstance(n, ast.Subscript):
            # hits[0][0], hits[0]
            if isinstance(n.value, ast.Subscript) and isinstance(n.value.value, ast.Name) \
                    and _adump(n.slice) == _pe('0') and _adump(n.value.slice) == _pe('0'):
                a, t, b = self.ex(n.value.value, env)
                if t == 'Hits':
                    return f'({a}.headD 0)', 'Nat', b
            if isinstance(n.value, ast.Name) and _adump(n.slice) == _pe('0'):
                a, t, b = self.ex(n.value, env)
                if t == 'Hits':
                    return a, 'HitList', b
            # system.atoms.atype[i]
            if _adump(n.value) == _pe('system.atoms.atype') and env.get('system', ('', ''))[1] == 'Sys':
                a, t, b = self.ex(n.slice, env)
                if t != 'Nat':
                    raise _TE('atype of an index that is not normalised on every path', n)
                v = self.fresh('t_site')
                return v, 'Int', b + [(v, f'atypeAt system {a}')]
            # d_system.atoms.atype[-1]
            if isinstance(n.value, ast.Attribute) and n.value.attr == 'atype' and isinstance(n.value.value, ast.Attribute) \
                    and n.value.value.attr == 'atoms' and isinstance(n.value.value.value, ast.Name) \
                    and _adump(n.slice) == _pe('-1'):
                a, t, b = self.ex(n.value.value.value, env)
                if t == 'Sys' and n.value.value.value.id != 'system':
                    v = self.fresh('t_last')
                    return v, 'Int', b + [(v, f'lastAtype {a}')]
            raise _TE('unsupported subscript', n)
        if isinstance(n, ast.Call):
            return self.call(n, env)
        raise _TE('unsupported expression', n)

    def prop(self, n, env):
        a, t, b = self.ex(n, env)
        if t == 'Prop':
            return a, t, b
        if t == 'Bool':
            return f'{a} = true', 'Prop', b
        raise _TE(f'condition of type {t}', n)

    def call(self, n, env):
        f = _adump(n.func)
        kw = {k.arg: k.value for k in n.keywords}
        nargs = len(n.args)

        def shape(npos, kws):
            return nargs == npos and sorted(kw) == sorted(kws)

        if f == _pe('len') and shape(1, []):
            a, t, b = self.ex(n.args[0], env)
            if t == 'Hits':       # np.where of a 1-d array: a 1-tuple
                return '(1 : Int)', 'Int', b
            if t == 'HitList':
                return f'((({a}).length : Nat) : Int)', 'Int', b
            if t == 'Kw':
                return f'((({a}).count : Nat) : Int)', 'Int', b
            raise _TE(f'len of {t}', n)
        if f == _pe('np.asarray') and shape(1, ['dtype']) and _adump(kw['dtype']) == _pe('float'):
            a, t, b = self.ex(n.args[0], env)
            if t != 'V3':
                raise _TE(f'np.asarray of {t}', n)
            return a, t, b
        if f == _pe('deepcopy') and shape(1, []):
            return self.ex(n.args[0], env)
        if f == _pe('system.box.position_relative_to_cartesian') and shape(1, []):
            a, t, b = self.ex(n.args[0], env)
            if t != 'V3':
                raise _TE('position_relative_to_cartesian of a non-vector', n)
            return f'(system.box.relToCart {a})', 'V3', b
        if f == _pe('np.dot') and shape(2, []) and _adump(n.args[1]) == _pe('system.box.vects'):
            a, t, b = self.ex(n.args[0], env)
            if t != 'V3':
                raise _TE('np.dot of a non-vector', n)
            return f'(M3.vecMul {a} system.box.vects)', 'V3', b
        if f == _pe('np.linalg.norm') and shape(1, ['axis']) and _adump(kw['axis']) == _pe('1'):
            inner = n.args[0]
            if isinstance(inner, ast.Call) and _adump(inner.func) == _pe('np.atleast_2d') and len(inner.args) == 1 \
                    and not inner.keywords:
                dv = inner.args[0]
                if isinstance(dv, ast.Call) and _adump(dv.func) == _pe('system.dvect') and len(dv.args) == 2 \
                        and not dv.keywords and _adump(dv.args[1]) == _pe('system.atoms.pos'):
                    a, t, b = self.ex(dv.args[0], env)
                    if t == 'V3':
                        return a, 'Dist', b
            raise _TE('distance computation not of the form norm(atleast_2d(system.dvect(pos, system.atoms.pos)), axis=1)', n)
        if f == _pe('np.isclose') and shape(2, ['atol']) and isinstance(n.args[1], ast.Constant) \
                and type(n.args[1].value) in (int, float) and n.args[1].value == 0:
            a, t, b = self.ex(n.args[0], env)
            c, tc, bc = self.ex(kw['atol'], env)
            if t == 'Dist' and tc == 'K':
                return f'{a} {c}', 'Close', b + bc
            raise _TE('np.isclose operands', n)
        if f == _pe('np.where') and shape(1, []):
            a, t, b = self.ex(n.args[0], env)
            if t == 'Close':
                return f'(siteMatches system {a})', 'Hits', b
            raise _TE('np.where of something else than np.isclose(dist, 0.0, atol=atol)', n)
        if f == _pe('uc.set_in_units') and shape(2, []) and isinstance(n.args[0], ast.Constant) \
                and isinstance(n.args[1], ast.Constant) and isinstance(n.args[1].value, str) \
                and type(n.args[0].value) in (int, float):
            fr_ = Fraction(str(n.args[0].value))
            lit = (fr_.numerator, fr_.denominator, n.args[1].value)
            if self.dflt is not None and self.dflt != lit:
                raise _TE('two different default tolerances in one function', n)
            self.dflt = lit
            return 'dflt', 'K', []
        if f == _pe('list') and shape(1, []) and _adump(n.args[0]) == _pe('range(system.natoms)'):
            return '(List.range system.atoms.length)', 'ListNat', []
        if f == _pe('System'):
            want = {'box': 'deepcopy(system.box)', 'pbc': 'deepcopy(system.pbc)', 'symbols': 'system.symbols',
                    'masses': 'system.masses'}
            if nargs == 0 and sorted(kw) == sorted(list(want) + ['atoms']) \
                    and all(_adump(kw[k]) == _pe(v) for k, v in want.items()):
                at = kw['atoms']
                if isinstance(at, ast.Call) and _adump(at.func) == _pe('deepcopy') and len(at.args) == 1 \
                        and isinstance(at.args[0], ast.Subscript) and _adump(at.args[0].value) == _pe('system.atoms'):
                    a, t, b = self.ex(at.args[0].slice, env)
                    if t == 'ListNat':
                        v = self.fresh('d_new')
                        return v, 'Sys', b + [(v, f'sliced system {a}')]
            raise _TE('System(...) not of the form System(box=deepcopy(system.box), pbc=deepcopy(system.pbc), '
                      'atoms=deepcopy(system.atoms[index]), symbols=system.symbols, masses=system.masses)', n)
        raise _TE('unsupported call', n)

    # ---- statements (continuation-passing) --------------------------------------------
    def wrap_binds(self, binds, lines):
        for v, e in reversed(binds):
            lines = [f'(match {e} with', '| .error e => .error e', f'| .ok {v} =>'] + _tind(lines) + [')']
        return lines

    @staticmethod
    def _is_none_test(t):
        return isinstance(t, ast.Compare) and len(t.ops) == 1 and isinstance(t.ops[0], (ast.Is, ast.IsNot)) \
            and isinstance(t.left, ast.Name) and isinstance(t.comparators[0], ast.Constant) \
            and t.comparators[0].value is None

    def block(self, stmts, env, k):
        """lines of a Lean term of type Except Err _ for `stmts` followed by the continuation k(env)."""
        if not stmts:
            return k(env)
        s, rest = stmts[0], stmts[1:]
        cont = lambda e: self.block(rest, e, k)
        if isinstance(s, ast.Pass) or (isinstance(s, ast.Expr) and isinstance(s.value, ast.Constant)):
            return cont(env)
        if isinstance(s, ast.Raise):
            return self.raise_(s)
        if isinstance(s, ast.Assert):
            a, t, b = self.prop(s.test, env)
            return self.wrap_binds(b, [f'(if ¬ ({a}) then .error .assert else'] + _tind(cont(env)) + [')'])
        if isinstance(s, ast.Return):
            return self.ret(s, env)
        if isinstance(s, ast.Try):
            if s.orelse or s.finalbody or not s.handlers or not all(
                    len(h.body) == 1 and isinstance(h.body[0], ast.Raise) for h in s.handlers):
                raise _TE('unsupported try statement', s)
            self.notes.append(f'{self.name}: try/except around `{ast.unparse(s.body[0])[:40]}` only re-raises '
                              '(non-integer index objects; outside the model)')
            return self.block(list(s.body) + rest, env, k)
        if isinstance(s, ast.Assign) and len(s.targets) == 1 and isinstance(s.targets[0], ast.Name):
            a, t, b = self.ex(s.value, env)
            name = s.targets[0].id
            e2 = dict(env)
            if t in ('Dist', 'Close'):
                e2[name] = (a, t)
                return self.wrap_binds(b, cont(e2))
            if t in ('Prop', 'HitList'):
                raise _TE(f'assignment of a value of kind {t}', s)
            e2[name] = (name, t)
            return self.wrap_binds(b, [f'let {name} := {a}'] + cont(e2))
        if isinstance(s, ast.Assign) and len(s.targets) == 1 and isinstance(s.targets[0], ast.Attribute):
            tg = s.targets[0]
            if tg.attr == 'old_id' and isinstance(tg.value, ast.Attribute) and tg.value.attr == 'atoms' \
                    and isinstance(tg.value.value, ast.Name):
                d, td, _ = self.ex(tg.value.value, env)
                a, t, b = self.ex(s.value, env)
                if td == 'Sys' and d != 'system' and t == 'ListNat':
                    return self.wrap_binds(b, [f'let {d} := setOldColumn {d} {a}'] + cont(env))
            raise _TE('unsupported attribute assignment', s)
        if isinstance(s, ast.AugAssign) and isinstance(s.target, ast.Name) and isinstance(s.op, (ast.Add, ast.Sub)):
            name = s.target.id
            a, t, b = self.ex(ast.BinOp(left=ast.Name(id=name, ctx=ast.Load()), op=s.op, right=s.value), env)
            e2 = dict(env)
            e2[name] = (name, t)
            return self.wrap_binds(b, [f'let {name} := {a}'] + cont(e2))
        if isinstance(s, ast.Expr) and isinstance(s.value, ast.Call) and isinstance(s.value.func, ast.Attribute) \
                and isinstance(s.value.func.value, ast.Name) and len(s.value.args) == 1 and not s.value.keywords:
            lst, meth = s.value.func.value.id, s.value.func.attr
            l, tl, _ = self.ex(s.value.func.value, env)
            a, t, b = self.ex(s.value.args[0], env)
            if tl == 'ListNat' and meth in ('pop', 'append'):
                if t == 'Int' and isinstance(s.value.args[0], ast.Constant) and s.value.args[0].value >= 0:
                    a, t = str(s.value.args[0].value), 'Nat'
                if t != 'Nat':
                    raise _TE(f'index-list {meth} with an index that is not normalised on every path', s)
                new = f'{l}.eraseIdx {a}' if meth == 'pop' else f'{l} ++ [{a}]'
                return self.wrap_binds(b, [f'let {lst} := {new}'] + cont(env))
            raise _TE('unsupported call statement', s)
        if isinstance(s, ast.For):
            return self.loop(s, env, cont)
        if isinstance(s, ast.If):
            return self.if_(s, rest, env, k)
        raise _TE('unsupported statement', s)

    def raise_(self, s):
        cls = None
        if isinstance(s.exc, ast.Call) and isinstance(s.exc.func, ast.Name):
            cls = s.exc.func.id
        if cls != 'ValueError':
            raise _TE('raise of something else than ValueError on a modelled path', s)
        return ['.error .value']

    def branches(self, s, env):
        """[(lean pattern / condition pieces, body, env)] of an if statement (elif chains stay nested)."""
        if self._is_none_test(s.test):
            name = s.test.left.id
            lean, t = env[name]
            if not t.startswith('Opt'):
                raise _TE(f'`is None` test of {name}, which is not optional here', s)
            e_some = dict(env)
            e_some[name] = (name, t[3:])
            e_none = dict(env)
            is_none = isinstance(s.test.ops[0], ast.Is)
            some_body, none_body = (s.orelse, s.body) if is_none else (s.body, s.orelse)
            return ('match', lean, name), [(some_body, e_some), (none_body, e_none)]
        a, t, b = self.prop(s.test, env)
        return ('if', a, b), [(s.body, dict(env)), (s.orelse, dict(env))]

    def emit_if(self, head, parts):
        if head[0] == 'match':
            return [f'(match {head[1]} with', f'| some {head[2]} =>'] + _tind(parts[0]) + ['| none =>'] + _tind(parts[1]) + [')']
        return self.wrap_binds(head[2], [f'(if {head[1]} then'] + _tind(parts[0]) + ['else'] + _tind(parts[1]) + [')'])

    def if_(self, s, rest, env, k):
        head, brs = self.branches(s, env)
        # pass 1: which branches fall through, with which environments
        falls = []
        for body, e in brs:
            got = []
            self_nb = self.nbind
            self.block(list(body), e, lambda ee: (got.append(ee), ['⟦fall⟧'])[1])
            self.nbind = self_nb
            falls.append(got)
        nfall = sum(1 for g in falls if g)
        cont = lambda e: self.block(rest, e, k)
        if nfall <= 1 or not rest:
            return self.emit_if(head, [self.block(list(body), e, cont) for body, e in brs])
        # `if x is None: x = default`  ->  narrowing let
        if head[0] == 'match' and isinstance(s.test.ops[0], ast.Is) and not s.orelse and len(s.body) == 1 \
                and isinstance(s.body[0], ast.Assign) and len(s.body[0].targets) == 1 \
                and isinstance(s.body[0].targets[0], ast.Name) and s.body[0].targets[0].id == s.test.left.id:
            name = head[2]
            a, t, b = self.ex(s.body[0].value, brs[1][1])
            if b or 'Opt' + t != env[name][1]:
                raise _TE('default assignment of another type', s)
            e2 = dict(env)
            e2[name] = (name, t)
            return [f'let {name} := (match {head[1]} with | none => {a} | some {name} => {name})'] + cont(e2)
        # `if c: x = f(x)`  ->  let x := if c then f x else x
        if head[0] == 'if' and not head[2] and not s.orelse and len(s.body) == 1:
            got = []
            nb = self.nbind
            ls = self.block(list(s.body), dict(env), lambda ee: (got.append(ee), ['⟦k⟧'])[1])
            if len(ls) == 2 and ls[1] == '⟦k⟧' and ls[0].startswith('let ') and ' := ' in ls[0] and len(got) == 1:
                name, val = ls[0][4:].split(' := ', 1)
                if name in env and got[0].get(name) == env[name] and env[name][0] == name \
                        and all(got[0].get(q) == env[q] for q in env):
                    return [f'let {name} := (if {head[1]} then {val} else {name})'] + cont(env)
            self.nbind = nb
        # value mode: the statement computes the variables that every falling branch (re)defines
        allenv = [e for g in falls for e in g]
        names = [n for n in allenv[0] if all(n in e for e in allenv) and any(e[n] != env.get(n) for e in allenv)]
        res, e_after = [], dict(env)
        for n in list(env):
            if any(e.get(n) != env[n] for e in allenv):
                del e_after[n]
        for n in names:
            ts = {e[n][1] for e in allenv}
            if ts <= {'Nat', 'Int'}:
                res.append((n, 'Nat'))
        if len(res) != 1:
            raise _TE('if statement whose branches do not agree on exactly one (re)defined integer variable', s)
        rn, rt = res[0]

        def kval(e):
            lean, t = e[rn]
            return [f'.ok {lean}' if t == 'Nat' else f'.ok (Int.toNat {lean})']
        parts = [self.block(list(body), e, kval) for body, e in brs]
        e_after[rn] = (rn, rt)
        val = self.emit_if(head, parts)
        # the block becomes an auxiliary definition `<function>_<variable>` over the variables in scope
        tys = dict(_LEAN_TYPES, ListNat='List Nat', Hits='List Nat')
        ps = [(n, lt) for n, (lean, lt) in env.items() if lt in tys and lean == n]
        aux = f'{self.name}_{rn}'
        if aux in [a[0] for a in self.aux]:
            raise _TE('two blocks computing the same variable', s)
        self.aux.append((aux, [f'def {aux} ' + ' '.join(f'({n} : {tys[lt]})' for n, lt in ps) + ' : Except Err Nat :=']
                         + _tind(val)))
        return [f'(match {aux} ' + ' '.join(n for n, _ in ps) + ' with', '| .error e => .error e', f'| .ok {rn} =>'] \
            + _tind(cont(e_after)) + [')']

    # ---- the per-property loop --------------------------------------------------------
    def loop(self, s, env, cont):
        if not (isinstance(s.target, ast.Name) and isinstance(s.iter, ast.Call) and not s.iter.args and not s.iter.keywords
                and isinstance(s.iter.func, ast.Attribute) and s.iter.func.attr == 'atoms_prop'
                and isinstance(s.iter.func.value, ast.Name) and not s.orelse):
            raise _TE('unsupported loop', s)
        d, td, _ = self.ex(s.iter.func.value, env)
        if td != 'Sys' or d == 'system':
            raise _TE('loop over the properties of something else than the new system', s)
        pv = s.target.id
        if len(s.body) != 1 or not isinstance(s.body[0], ast.If):
            raise _TE('loop body is not one if / elif chain', s)
        chain, node, other = [], s.body[0], []
        while True:
            t = node.test
            if not (isinstance(t, ast.Compare) and len(t.ops) == 1 and isinstance(t.ops[0], ast.Eq)
                    and isinstance(t.left, ast.Name) and t.left.id == pv and isinstance(t.comparators[0], ast.Constant)
                    and isinstance(t.comparators[0].value, str)):
                raise _TE(f'loop branch condition is not `{pv} == <name>`', t)
            key = t.comparators[0].value
            if key not in RESERVED:
                raise _TE(f'loop branch for the non-reserved property {key}', t)
            if key in [c[0] for c in chain]:
                raise _TE('duplicate loop branch', t)
            chain.append((key, node.body))
            if len(node.orelse) == 1 and isinstance(node.orelse[0], ast.If):
                node = node.orelse[0]
                continue
            other = node.orelse
            break
        slots = [(key, body, False) for key, body in chain]
        if other:
            slots += [(key, other, True) for key in RESERVED if key not in [c[0] for c in chain]] + [(None, other, True)]
        lines = []
        for key, body, generic in slots:
            for st in body:
                lines += self.slot_stmt(st, d, pv, key, env)
        return lines + cont(env)

    def slot_stmt(self, st, d, pv, key, env):
        """one statement of a loop branch taken for property `key` (None = every extra property)."""
        if isinstance(st, ast.Pass):
            return []
        if isinstance(st, ast.Assign) and len(st.targets) == 1:
            tgt, val, aug = st.targets[0], st.value, None
        elif isinstance(st, ast.AugAssign) and isinstance(st.op, (ast.Add, ast.Sub)):
            tgt, val, aug = st.target, st.value, ('+' if isinstance(st.op, ast.Add) else '-')
        else:
            raise _TE('unsupported statement in a loop branch', st)
        if not (isinstance(tgt, ast.Subscript) and _adump(tgt.slice) in (_pe('-1'), _pe('-2'))):
            raise _TE('loop branch assigns to something else than the last / last but one atom', st)
        last = _adump(tgt.slice) == _pe('-1')
        base = tgt.value
        tkey = '?'
        if isinstance(base, ast.Attribute) and isinstance(base.value, ast.Attribute) and base.value.attr == 'atoms' \
                and isinstance(base.value.value, ast.Name) and base.value.value.id == d and base.attr in RESERVED:
            tkey = base.attr
        elif isinstance(base, ast.Subscript) and _adump(base.value) == _pe(f'{d}.atoms.view') \
                and isinstance(base.slice, ast.Name) and base.slice.id == pv:
            tkey = key
        else:
            raise _TE('unsupported assignment target in a loop branch', st)
        if tkey != key:
            raise _TE(f'loop branch for {key} assigns to {tkey}', st)
        cur = 'cur'
        rhs = self.slot_rhs(val, d, pv, key, env)
        if aug is not None:
            if key != 'pos':
                raise _TE('augmented assignment to a property other than pos', st)
            rhs = f'({cur} {aug} {rhs})'
        if key == 'pos':
            return [f'let {d} := {"setLastPos" if last else "setLast2Pos"} {d} (fun {cur} => {rhs})']
        if not last:
            raise _TE('assignment to the last but one atom of a property other than pos', st)
        if key == 'atype':
            return [f'let {d} := setLastAtype {d} (fun {cur} => {rhs})']
        if key == 'old_id':
            return [f'let {d} := setLastOld {d} (fun col {cur} => {rhs})']
        return [f'let {d} := setLastExtras {d} {self.kwname} {rhs}']

    def slot_rhs(self, n, d, pv, key, env):
        """value assigned in a loop branch; `cur` = the current value of that entry, `col` = the old_id column."""
        def is_cur(x):
            if isinstance(x, ast.Subscript) and _adump(x.slice) == _pe('-1'):
                b = x.value
                if isinstance(b, ast.Subscript) and _adump(b.value) == _pe(f'{d}.atoms.view') \
                        and isinstance(b.slice, ast.Name) and b.slice.id == pv:
                    return True
                if key is not None and _adump(b) == _pe(f'{d}.atoms.{key}'):
                    return True
            return False

        def val(x):
            if is_cur(x):
                return 'cur'
            if key == 'old_id' and isinstance(x, ast.BinOp) and isinstance(x.op, ast.Add) \
                    and _adump(x.left) == _pe(f'{d}.atoms.old_id.max()') and _adump(x.right) == _pe('1'):
                return '(maxD col + 1)'
            if key in ('atype', 'old_id'):
                a, t, b = self.ex(x, env)
                if t == 'Int' and not b:
                    return a
            if key == 'pos':
                a, t, b = self.ex(x, env)
                if t == 'V3' and not b:
                    return a
            raise _TE(f'unsupported value for property {key}', x)

        if isinstance(n, ast.Call) and isinstance(n.func, ast.Attribute) and n.func.attr == 'pop' \
                and isinstance(n.func.value, ast.Name) and n.func.value.id == self.kwname and len(n.args) == 2 \
                and not n.keywords:
            k0, dfl = n.args
            if isinstance(k0, ast.Name) and k0.id == pv:
                kk = key
            elif isinstance(k0, ast.Constant) and isinstance(k0.value, str):
                kk = k0.value
                if kk != key:
                    raise _TE(f'loop branch for {key} pops the keyword {kk}', n)
            else:
                raise _TE('unsupported kwargs.pop key', n)
            if kk == 'atype':
                return f'({self.kwname}.atype.getD {val(dfl)})'
            if kk == 'old_id':
                return f'({self.kwname}.oldId.getD {val(dfl)})'
            if kk is None:
                if is_cur(dfl):
                    return 'id'
                if isinstance(dfl, ast.Call) and _adump(dfl.func) == _pe('np.zeros_like') and len(dfl.args) == 1 \
                        and not dfl.keywords and is_cur(dfl.args[0]):
                    return 'zerosLike'
                raise _TE('unsupported default of an extra property', n)
            raise _TE(f'the keyword {kk} cannot be routed to the model', n)
        if key is None:
            raise _TE('extra properties assigned without kwargs.pop', n)
        return val(n)

    # ---- return -----------------------------------------------------------------------
    def ret(self, s, env):
        v = s.value
        if isinstance(v, ast.Name):
            a, t, _ = self.ex(v, env)
            if t == 'Sys' and a != 'system':
                return [f'.ok (fixSym {a})']
            raise _TE('return of something else than the new system', s)
        if isinstance(v, ast.Call) and isinstance(v.func, ast.Name) and v.func.id in self.ptypes:
            callee = v.func.id
            sig = self.sigs[callee]
            ptypes = self.ptypes[callee]
            given = {}
            names = [p for p, _ in sig if not p.startswith('**')]
            for i, a in enumerate(v.args):
                if isinstance(a, ast.Starred) or i >= len(names):
                    raise _TE('unsupported positional arguments', s)
                given[names[i]] = a
            star = False
            for kw in v.keywords:
                if kw.arg is None:
                    if not (isinstance(kw.value, ast.Name) and kw.value.id == self.kwname):
                        raise _TE('unsupported ** argument', s)
                    star = True
                    continue
                if kw.arg in given or kw.arg not in names:
                    raise _TE(f'keyword {kw.arg} does not fit {callee}', s)
                given[kw.arg] = kw.value
            callee_kw = any(p.startswith('**') for p, _ in sig)
            if star and not callee_kw:
                raise _TE(f'**kwargs handed to {callee}, which takes none', s)
            args, wraps, stripped = ['dflt'], [], []
            for p, d in sig:
                if p.startswith('**'):
                    kwv = env[self.kwname][0] if star else '{}'
                    for f_ in stripped:
                        kwv = f'{{ {kwv} with {f_} := none }}'
                    args.append(kwv if kwv in ('{}',) or ' ' not in kwv else f'({kwv})')
                    continue
                want = ptypes[p]
                if p in given:
                    a, t, b = self.ex(given[p], env)
                    if b:
                        raise _TE('unsupported argument', s)
                    if t == want:
                        args.append(a)
                    elif t == 'Opt' + want:
                        wraps.append(a)
                        args.append(a)
                    elif 'Opt' + t == want:
                        args.append(f'(some {a})')
                    else:
                        raise _TE(f'argument {p} of type {t}, {callee} takes {want}', s)
                    continue
                # not handed on: a named parameter can still be bound from **kwargs, else the callee's default
                field = {'atype': 'atype', 'old_id': 'oldId'}.get(p)
                if d == '':
                    raise _TE(f'required argument {p} of {callee} not given', s)
                dl = {'None': 'none', 'False': 'false', 'True': 'true'}.get(d)
                if dl is None:
                    try:
                        dl = f'({int(d)} : Int)'
                    except ValueError:
                        raise _TE(f'default {d} of {callee}.{p}', s)
                if (dl == 'none') != want.startswith('Opt'):
                    raise _TE(f'default {d} of {callee}.{p} does not fit its use', s)
                if star and field is not None:
                    args.append(f'({env[self.kwname][0]}.{field}.getD {dl})')
                    stripped.append(field)
                elif star and p in ('pos',):
                    raise _TE(f'{p} could arrive through **kwargs', s)
                else:
                    args.append(dl)
            lines = [f'{callee} ' + ' '.join(args)]
            for a in reversed(wraps):
                lines = [f'(match {a} with', '| none => .error .value', f'| some {a} =>'] + _tind(lines) + [')']
            return lines
        raise _TE('unsupported return value', s)

    # ---- whole function ---------------------------------------------------------------
    def compile(self):
        ps = self.params()
        env = {p: (p, t) for p, t in ps}
        body = list(self.node.body)
        if body and isinstance(body[0], ast.Expr) and isinstance(body[0].value, ast.Constant):
            body = body[1:]

        def fell(e):
            raise _TE(f'{self.name}: a path reaches the end of the function without return / raise')
        lines = self.block(body, env, fell)
        sig = ' '.join(f'({p} : {_LEAN_TYPES[t]})' for p, t in ps)
        return [f'def {self.name} (dflt : K) {sig} : Except Err (Sys K) :='] + _tind(lines), dict(ps)


def _signature(fn):
    a = fn.args
    if a.posonlyargs or a.kwonlyargs or a.vararg:
        raise _TE(f'{fn.name}: unsupported kind of parameter')
    defaults = [None] * (len(a.args) - len(a.defaults)) + list(a.defaults)
    out = [(p.arg, '' if d is None else ast.unparse(d)) for p, d in zip(a.args, defaults)]
    if a.kwarg is not None:
        out.append(('**' + a.kwarg.arg, ''))
    return out


def translate():
    src = cm.source(POINT_FILE)
    tree = ast.parse(src)
    fns = {n.name: n for n in tree.body if isinstance(n, ast.FunctionDef)}
    missing = [f for f in GEN_FUNCS if f not in fns]
    if missing:
        raise _TE(f'functions missing from {POINT_FILE}: {missing}')
    extra = sorted(set(fns) - set(GEN_FUNCS))
    helpers = [n for n in tree.body if not isinstance(n, (ast.FunctionDef, ast.Import, ast.ImportFrom))
               and not (isinstance(n, ast.Expr) and isinstance(n.value, ast.Constant))
               and not (isinstance(n, ast.Assign) and _adump(n.targets[0]) == ast.dump(ast.Name(id='__all__', ctx=ast.Store())))]
    if extra or helpers:
        raise _TE(f'{POINT_FILE} has module-level code the translator does not know: functions {extra}, '
                  f'{[ast.unparse(h)[:60] for h in helpers]}')
    for f in GEN_FUNCS:
        if fns[f].decorator_list:
            raise _TE(f'{f}: decorated')
    sigs = {f: _signature(fns[f]) for f in GEN_FUNCS}
    ptypes, defs, dflts, notes, raises = {}, [], [], [], []
    for f in GEN_FUNCS:
        c = _Fn(fns[f], sigs, ptypes)
        lines, pt = c.compile()
        ptypes[f] = pt
        for an, al in c.aux:
            defs.append((an, al))
        defs.append((f, lines))
        notes += c.notes
        if f != 'point':
            if c.dflt is None:
                raise _TE(f'{f}: no default tolerance found')
            dflts.append((f,) + c.dflt)
        cls = []
        for n in ast.walk(fns[f]):
            if isinstance(n, ast.Assert):
                cls.append((n.lineno, 'AssertionError', ast.unparse(n.msg) if n.msg else ''))
            if isinstance(n, ast.Raise):
                ok = isinstance(n.exc, ast.Call) and isinstance(n.exc.func, ast.Name)
                cls.append((n.lineno, n.exc.func.id if ok else '?',
                            ast.unparse(n.exc.args[0]) if ok and n.exc.args else ''))
        raises.append((f, sorted(cls)))
    order = ['point', 'vacancy', 'interstitial', 'substitutional', 'dumbbell']
    A = []
    A.append(f'/- GENERATED by harness/props/c15.py (translate) from {POINT_FILE} — do not edit.')
    A.append('   Every function is the statement-by-statement compilation of the CURRENT source into the source-level')
    A.append('   primitives of `Atomman/C15.lean`; `Proofs/C15_Source.lean` proves each one equal to the hand model')
    A.append('   (`gen_…_eq_model`). -/')
    A.append('import Atomman.C15')
    A.append('')
    A.append('namespace Atomman.Generated.PointSource')
    A.append('open Atomman Atomman.C15')
    A.append('set_option linter.unusedVariables false')
    A.append('')
    A.append('/-- signatures as written: (function, [(parameter, default; "" = required)]). -/')
    A.append('def signatures : List (String × List (String × String)) :=')
    A.append('  [' + ',\n   '.join('(' + _lstr(f) + ', [' + ', '.join(f'({_lstr(p)}, {_lstr(d)})' for p, d in sigs[f]) + '])'
                                  for f in order) + ']')
    A.append('/-- the literal and unit of `uc.set_in_units(…)` that replaces `atol=None`, per function. -/')
    A.append('def dfltLiterals : List (String × Nat × Nat × String) :=')
    A.append('  [' + ', '.join(f'({_lstr(f)}, {a}, {b}, {_lstr(u)})' for f, a, b, u in dflts) + ']')
    A.append('/-- the exception class of every `raise` / `assert`, in source order. -/')
    A.append('def raiseClasses : List (String × List String) :=')
    A.append('  [' + ',\n   '.join('(' + _lstr(f) + ', [' + ', '.join(_lstr(c[1]) for c in dict(raises)[f]) + '])'
                                  for f in order) + ']')
    A.append('/-- their messages (documentation only). -/')
    A.append('def raiseMessages : List (String × List String) :=')
    A.append('  [' + ',\n   '.join('(' + _lstr(f) + ', [' + ', '.join(_lstr(c[2]) for c in dict(raises)[f]) + '])'
                                  for f in order) + ']')
    A.append('')
    A.append('section')
    A.append('variable {K : Type} [Add K] [Sub K] [Mul K] [Zero K] [IntCast K] [LT K] [DecidableLT K] [DecidableEq K]')
    A.append('')
    for f, lines in defs:
        A.append(f'/-- `{f}` of point.py, line {fns[f].lineno}. -/' if f in fns else
                 f'/-- the if / elif / else statement of `{f.split("_")[0]}` that computes `{f.split("_", 1)[1]}`. -/')
        A += lines
        A.append('')
    A.append('end')
    for nt in notes:
        A.append('-- note: ' + nt)
    A.append('end Atomman.Generated.PointSource')
    return {'PointSource': '\n'.join(A) + '\n'}


# ----------------------------------------------------------------------------------------
# system descriptions (plain data) <-> atomman.System
# ----------------------------------------------------------------------------------------

def _np():
    import numpy as np
    return np


def _F(x):
    return Fraction(x) if not isinstance(x, bool) else Fraction(int(x))


def _is_dyadic(x, bits=12, mag=256):
    f = Fraction(float(x))
    return (f.denominator & (f.denominator - 1)) == 0 and f.denominator <= (1 << bits) and abs(f) < mag


def _det(v):
    return (v[0][0] * (v[1][1] * v[2][2] - v[1][2] * v[2][1])
            - v[0][1] * (v[1][0] * v[2][2] - v[1][2] * v[2][0])
            + v[0][2] * (v[1][0] * v[2][1] - v[1][1] * v[2][0]))


def _inv(v):
    """exact inverse of a 3x3 Fraction matrix."""
    d = _det(v)
    c = [[0] * 3 for _ in range(3)]
    for i in range(3):
        for j in range(3):
            m = [[v[r][s] for s in range(3) if s != j] for r in range(3) if r != i]
            c[i][j] = (-1) ** (i + j) * (m[0][0] * m[1][1] - m[0][1] * m[1][0])
    return [[c[j][i] / d for j in range(3)] for i in range(3)]


def _vecmat(s, v):
    return [sum(s[i] * v[i][j] for i in range(3)) for j in range(3)]


def _lowbit_exp(x):
    """exponent e of the lowest set bit of a non-zero dyadic rational x (x = odd * 2^e)."""
    x = Fraction(x)
    n, d = abs(x.numerator), x.denominator
    return (n & -n).bit_length() - 1 - (d.bit_length() - 1)


def _is_pow2(n):
    return n > 0 and (n & (n - 1)) == 0


def _fewbits(x, bits=24):
    """x is a double with at most `bits` significant bits (scale-free `dyadic with few bits`)."""
    f = Fraction(float(x))
    if f == 0:
        return True
    if not _is_pow2(f.denominator):
        return False
    n = abs(f.numerator)
    n >>= (n & -n).bit_length() - 1
    return n.bit_length() <= bits


SCALE_EXPONENTS = [-480, -300, -100, -40, -33, -27, -24, -20, -17, -14, -10, 10, 20, 40, 100, 300, 480]


def _signed_perm(rng):
    """a random signed permutation matrix (an exact orthogonal map: axis permutation + mirror)."""
    perm = [0, 1, 2]
    rng.shuffle(perm)
    return [[(rng.choice([-1, 1]) if j == perm[i] else 0) for j in range(3)] for i in range(3)]


def _matmul(a, b):
    return [[sum(a[i][k] * b[k][j] for k in range(3)) for j in range(3)] for i in range(3)]


def _gen_box(rng):
    kind = rng.choice(['cubic', 'ortho', 'tilted', 'tilted', 'triclinic', 'sheared', 'sheared', 'flat', 'rotated'])
    if kind == 'cubic':
        a = rng.choice([2.0, 4.0, 8.0])
        v = [[a, 0, 0], [0, a, 0], [0, 0, a]]
    elif kind == 'ortho':
        v = [[rng.choice([2.0, 4.0, 8.0]), 0, 0], [0, rng.choice([2.0, 4.0, 8.0]), 0], [0, 0, rng.choice([4.0, 8.0])]]
    elif kind == 'tilted':
        # power-of-two diagonal: the inverse is dyadic, box-relative input is exact
        v = [[rng.choice([4.0, 8.0]), 0, 0],
             [cm.dyadic(rng, -2, 2, 2), rng.choice([4.0, 8.0]), 0],
             [cm.dyadic(rng, -2, 2, 2), cm.dyadic(rng, -2, 2, 2), rng.choice([4.0, 8.0])]]
    elif kind == 'sheared':
        # strongly sheared, NOT reduced: tilts of 1.25 .. 2.75 edge lengths, so that lattice combinations
        # such as b - 2a are shorter than b and the nearest image of a point need not be an adjacent one
        a, b, c = rng.choice([2.0, 4.0]), rng.choice([2.0, 4.0]), rng.choice([2.0, 4.0])

        def tilt(edge):
            return rng.choice([-1, 1]) * edge * rng.choice([1.25, 1.5, 2.0, 2.25, 2.5, 2.75]) if rng.random() < 0.75 else 0.0
        v = [[a, 0, 0], [tilt(a), b, 0], [tilt(a), tilt(b), c]]
    elif kind == 'flat':
        e = [rng.choice([4.0, 8.0]), rng.choice([4.0, 8.0]), rng.choice([0.25, 0.5, 1.0])]
        rng.shuffle(e)
        v = [[e[0], 0, 0], [cm.dyadic(rng, -1, 1, 2) if rng.random() < 0.4 else 0.0, e[1], 0], [0, 0, e[2]]]
    elif kind == 'rotated':
        # a 3-4-5 rotation of an orthorhombic / tilted cell: entries in fifths, OFF the dyadic grid
        base = [[rng.choice([4.0, 8.0]), 0, 0], [cm.dyadic(rng, -2, 2, 2), rng.choice([4.0, 8.0]), 0], [0, 0, rng.choice([4.0, 8.0])]]
        c5, s5 = Fraction(3, 5), Fraction(4, 5)
        ax = rng.randrange(3)
        i, j = [(1, 2), (0, 2), (0, 1)][ax]
        R = [[Fraction(int(p == q)) for q in range(3)] for p in range(3)]
        R[i][i], R[i][j], R[j][i], R[j][j] = c5, -s5, s5, c5
        v = [[float(x) for x in r] for r in _matmul([[Fraction(x) for x in r] for r in base], R)]
    else:
        while True:
            v = [[cm.dyadic(rng, -1, 1, 2) + (6.0 if i == j else 0.0) + (cm.dyadic(rng, -1, 1, 1) if i == j else 0.0)
                  for j in range(3)] for i in range(3)]
            if abs(_det([[Fraction(x) for x in r] for r in v])) >= 64:
                break
        if rng.random() < 0.3:            # left-handed
            v[0], v[1] = v[1], v[0]
    if kind != 'rotated' and rng.random() < 0.3:
        # the same lattice in another setting: Cartesian axes permuted / mirrored (exact), cell vectors relabelled —
        # not lower-triangular any more, every sign pattern of the diagonal, left-handed for odd parity
        v = _matmul(v, _signed_perm(rng))
        if rng.random() < 0.5:
            rng.shuffle(v)
    v = [[float(x) + 0.0 for x in r] for r in v]
    r = rng.random()
    if r < 0.3:
        origin = [0.0, 0.0, 0.0]
    elif r < 0.9:
        origin = [cm.dyadic(rng, -4, 4, 2) for _ in range(3)]
    else:
        # a cell far from the coordinate origin: relative tolerances hidden in position comparisons show here
        origin = [float(rng.choice([-1, 1]) * rng.choice([1024, 4096, 16384]) + cm.dyadic(rng, -4, 4, 2)) for _ in range(3)]
    return kind, v, origin


# (default name, dtype, per-atom shape): scalars of every kind, vectors, tensors, rank 3, the degenerate
# shapes (1,) and (1,1), fixed-width strings
PROP_POOL = [('charge', 'float', ()), ('tag', 'int', ()), ('flag', 'bool', ()), ('vel', 'float', (3,)),
             ('stress', 'float', (3, 3)), ('cube', 'int', (2, 2, 2)), ('one', 'float', (1,)), ('oneone', 'int', (1, 1)),
             ('label', 'str', ()), ('names', 'str', (2,))]
# names that are substrings / prefixes of the reserved keys, and names of the generators' own parameters
# (a property called like a parameter can never be given through **kwargs: it keeps its default)
TRICKY_NAMES = ['p', 'o', 's', 'os', 'po', 'a', 't', 'type', 'atyp', 'old', 'id', 'old_id2', 'posn', 'ol',
                'scale', 'atol', 'ptd_id', 'db_vect', 'ptd_type', 'system']
PARAM_NAMES = ('system', 'ptd_type', 'pos', 'ptd_id', 'db_vect', 'scale', 'atol', 'atype')
STR_POOL = ['', 'a', 'Al', 'xy', 'Cu1', 'vac', '0', '0.0']


def _str_code(x):
    """strings travel as integers on the wire ('' is 0: the zero value of a string array)."""
    x = str(x)
    return STR_POOL.index(x) if x in STR_POOL else 1000 + sum(ord(c) * (i + 1) for i, c in enumerate(x))


def _rand_value(rng, dtype, shape, zero=False):
    n = 1
    for s in shape:
        n *= s
    if dtype == 'float':
        flat = [0.0 if zero else cm.dyadic(rng, -4, 4, 3) for _ in range(n)]
    elif dtype == 'int':
        flat = [0 if zero else rng.randint(-9, 9) for _ in range(n)]
    elif dtype == 'str':
        flat = [0 if zero else rng.randrange(6) for _ in range(n)]        # codes of STR_POOL
    else:
        flat = [False if zero else rng.random() < 0.5 for _ in range(n)]
    return flat


def _gen_system(rng, natoms=None, k=None):
    kind, vects, origin = _gen_box(rng)
    n = natoms if natoms is not None else rng.choice([1, 2, 2, 3, 3, 3, 4, 4, 5, 6, 8])
    V = [[Fraction(x) for x in r] for r in vects]
    O = [Fraction(x) for x in origin]
    outside = rng.random() < 0.2          # atoms outside the cell (up to a cell below / above)
    hair = rng.random() < 0.15            # atoms a hair off faces / edges
    rels = set()
    while len(rels) < n:
        r = [Fraction(rng.randint(-8, 15) if outside else rng.randint(0, 7), 8) for _ in range(3)]
        if hair and rng.random() < 0.5:
            j = rng.randrange(3)
            r[j] = Fraction(rng.choice([0, 1])) + rng.choice([-1, 1]) * Fraction(1, 2 ** rng.choice([7, 9]))
        rels.add(tuple(r))
    rels = sorted(rels)
    rng.shuffle(rels)
    if rng.random() < 0.15:
        rels[0] = (Fraction(0), Fraction(0), Fraction(0))      # an atom at the cell origin: box-relative pos [0,0,0]
    pos = [[float(c + o) for c, o in zip(_vecmat(list(r), V), O)] for r in rels]
    if n >= 2 and rng.random() < 0.2:
        # a close pair: atom 1 sits 1/32 away from atom 0 (ambiguous for atol >= 1/16 ... )
        pos[1] = [pos[0][0] + 0.03125, pos[0][1], pos[0][2]]
    ntypes = rng.choice([1, 2, 2, 3])
    atype = [rng.randint(1, ntypes) for _ in range(n)]
    if rng.random() < 0.2:
        atype = [t + 1 if t >= 2 else t for t in atype]     # a gap in the types used
    names = ['Al', 'Cu', 'Ni', 'Fe', 'Si', 'Ge']
    symbols = names[:rng.choice([0, 1, max(atype), max(atype), max(atype) + 1])]
    props = {}
    tricky = list(TRICKY_NAMES)
    rng.shuffle(tricky)
    for name, dtype, shape in PROP_POOL:
        if rng.random() < 0.3:
            if rng.random() < 0.3:
                name = tricky.pop()
            props[name] = {'dtype': dtype, 'shape': list(shape),
                           'data': [_rand_value(rng, dtype, shape) for _ in range(n)]}
    old = None
    old_first = False
    if rng.random() < 0.3:
        old = rng.sample(range(0, 40), n)
        old_first = rng.random() < 0.5
    # per-type masses: absent, or one (possibly missing) value for each of the first types
    masses = None
    ntyp = max(len(symbols), max(atype))
    if rng.random() < 0.45:
        masses = [None if rng.random() < 0.2 else cm.dyadic(rng, 1, 200, 2) for _ in range(rng.randint(1, ntyp))]
    # the whole geometry scaled by an exact power of two (cells in metres, in light-years): absolute
    # tolerances hidden in the code show only away from the angstrom scale
    if k is None:
        k = rng.choice(SCALE_EXPONENTS) if rng.random() < 0.12 else 0
    if k:
        f = 2.0 ** k
        vects = [[x * f for x in r] for r in vects]
        origin = [x * f for x in origin]
        pos = [[x * f for x in r] for r in pos]
    return {'cell': kind, 'k': k, 'vects': vects, 'origin': origin, 'pbc': [rng.random() < 0.7 for _ in range(3)],
            'symbols': symbols, 'masses': masses, 'atype': atype, 'pos': pos, 'props': props, 'old_id': old,
            'old_first': old_first}


_DT = {'float': float, 'int': int, 'bool': bool, 'str': '<U3'}


def _mk_system(d):
    np = _np()
    import atomman as am
    n = len(d['atype'])
    kw = {}
    if d.get('old_id') is not None and d.get('old_first'):
        kw['old_id'] = np.array(d['old_id'], dtype=int)
    for name, p in d['props'].items():
        data = p['data']
        if p['dtype'] == 'str':
            data = [[STR_POOL[c] if isinstance(c, int) and c < len(STR_POOL) else str(c) for c in row] for row in data]
        kw[name] = np.array(data, dtype=_DT[p['dtype']]).reshape((n,) + tuple(p['shape']))
    if d.get('old_id') is not None and not d.get('old_first'):
        kw['old_id'] = np.array(d['old_id'], dtype=int)
    box = am.Box(vects=np.array(d['vects'], dtype=float), origin=np.array(d['origin'], dtype=float))
    atoms = am.Atoms(atype=np.array(d['atype'], dtype=int), pos=np.array(d['pos'], dtype=float), **kw)
    masses = d.get('masses')
    return am.System(atoms=atoms, box=box, pbc=tuple(d['pbc']), symbols=list(d['symbols']),
                     masses=None if masses is None else list(masses))


def _dtname(a):
    return {'f': 'float', 'b': 'bool', 'U': 'str', 'S': 'str'}.get(a.dtype.kind, 'int')


def _keys(system):
    return [k for k in system.atoms_prop() if k not in RESERVED]


def _snapshot(system):
    """everything observable of a System, as plain data."""
    out = {'vects': system.box.vects.tolist(), 'origin': system.box.origin.tolist(),
           'pbc': [bool(b) for b in system.pbc], 'symbols': list(system.symbols), 'masses': list(system.masses),
           'keys': list(system.atoms_prop()),
           # nothing may be left behind on the objects either (memoised lookups, flags)
           'attrs': [sorted(vars(system)), sorted(vars(system.atoms)), sorted(vars(system.box))]}
    for k in system.atoms_prop():
        a = system.atoms.view[k]
        out['p:' + k] = (str(a.dtype), list(a.shape), a.ravel().tolist())
    return out


def _num(a):
    """numeric view of a per-atom value (strings as their codes)."""
    np = _np()
    a = np.asarray(a)
    if a.dtype.kind in 'US':
        return np.array([_str_code(x) for x in a.ravel().tolist()], dtype=float).reshape(a.shape)
    return a


def _dump(system):
    """same serialisation as the driver's `dumpSys`."""
    np = _np()
    keys = _keys(system)
    widths = [int(np.prod(system.atoms.view[k].shape[1:], dtype=int)) for k in keys]
    hasold = 'old_id' in system.atoms_prop()
    parts = [cm.frs(system.box.vects), cm.frs(system.box.origin)] + ['1' if b else '0' for b in system.pbc]
    parts += [str(len(system.symbols)), str(len(system.masses))]
    for m in system.masses:
        parts += ['0 0'] if m is None else ['1 ' + cm.fr(float(m))]
    parts += [str(len(keys))]
    for k, w in zip(keys, widths):
        parts += [k, str(w)]
    parts += ['1' if hasold else '0', str(system.natoms)]
    v = system.atoms.view
    for i in range(system.natoms):
        parts.append(str(int(v['atype'][i])))
        parts.append(cm.frs(v['pos'][i]))
        for k, w in zip(keys, widths):
            if w:
                parts.append(cm.frs(_num(v[k][i])))
        if hasold:
            parts.append(str(int(v['old_id'][i])))
    return ' '.join(parts)


def _parse_dump(text):
    """dump -> dict (Fractions)."""
    t = text.split()
    it = iter(t)

    def nx():
        return next(it)
    box = [Fraction(nx()) for _ in range(12)]
    pbc = [nx() for _ in range(3)]
    nsym = int(nx())
    nm = int(nx())
    masses = [(nx(), Fraction(nx())) for _ in range(nm)]
    nk = int(nx())
    keys = [(nx(), int(nx())) for _ in range(nk)]
    hasold = nx() == '1'
    n = int(nx())
    atoms = []
    for _ in range(n):
        at = int(nx())
        pos = [Fraction(nx()) for _ in range(3)]
        props = [[Fraction(nx()) for _ in range(w)] for _, w in keys]
        old = int(nx()) if hasold else None
        atoms.append((at, pos, props, old))
    rest = list(it)
    if rest:
        raise ValueError('trailing tokens in dump')
    return {'box': box, 'pbc': pbc, 'nsym': nsym, 'masses': masses, 'keys': keys, 'hasold': hasold, 'atoms': atoms}


def _same_dump(impl_text, model_text, loose_last):
    """exact equality, or (for box-relative input in a non-dyadic cell) positions of the last
    `loose_last` atoms within 1e-12 relative."""
    if impl_text == model_text:
        return True
    if not loose_last:
        return False
    try:
        a, b = _parse_dump(impl_text), _parse_dump(model_text)
    except Exception:
        return False
    if {k: v for k, v in a.items() if k != 'atoms'} != {k: v for k, v in b.items() if k != 'atoms'}:
        return False
    if len(a['atoms']) != len(b['atoms']):
        return False
    n = len(a['atoms'])
    L = max([abs(v) for v in a['box'][:9]] + [Fraction(0)]) or Fraction(1)
    for j, (x, y) in enumerate(zip(a['atoms'], b['atoms'])):
        if (x[0], x[2], x[3]) != (y[0], y[2], y[3]):
            return False
        if x[1] != y[1]:
            if j < n - loose_last:
                return False
            if any(abs(p - q) > Fraction(1, 10 ** 12) * (L + abs(q)) for p, q in zip(x[1], y[1])):
                return False
    return True


# ----------------------------------------------------------------------------------------
# insertions (plain data) -> calls / wire lines
# ----------------------------------------------------------------------------------------

FN_TYPE = {'vacancy': 'v', 'interstitial': 'i', 'substitutional': 's', 'dumbbell': 'db'}


def _gen_kwargs(rng, system, fn):
    np = _np()
    kw = {}
    if fn == 'vacancy':
        return kw
    if rng.random() < 0.55:
        kw['atype'] = rng.randint(1, 4)
        if rng.random() < 0.08:
            kw['atype'] = rng.choice([0, 0, -1])             # atom types start at 1: refused
    if rng.random() < 0.15:
        # also 0 (falsy but a perfectly good id) and an id some atom already has
        kw['old_id'] = rng.choice([rng.randint(50, 99), rng.randint(50, 99), 0, rng.randint(0, 9)])
    for k in _keys(system):
        if k in PARAM_NAMES:
            continue                                          # cannot be passed through **kwargs
        if rng.random() < 0.4:
            a = system.atoms.view[k]
            dtype = _dtname(a)
            # falsy-but-valid values (0, 0.0, False, '') are requested as often as any other
            kw[k] = {'dtype': dtype, 'shape': list(a.shape[1:]),
                     'flat': _rand_value(rng, dtype, a.shape[1:], zero=rng.random() < 0.25),
                     'style': rng.choice(['array', 'array', 'list', 'tuple', 'nested'])}
    if rng.random() < 0.1:
        kw['bogus'] = {'dtype': 'float', 'shape': [], 'flat': [3.5]}
    return kw


# offset directions with an exact integer length: single axes, face diagonals (3,4,0)->5, body
# diagonals (1,2,2)->3, (2,3,6)->7, (1,4,8)->9 — so |offset| is a dyadic number and `|d| <= atol`
# is decided exactly at the boundary
OFF_DIRS = [((1, 0, 0), 1), ((0, 1, 0), 1), ((0, 0, 1), 1), ((3, 4, 0), 5), ((0, 3, 4), 5), ((4, 0, 3), 5),
            ((1, 2, 2), 3), ((2, 2, 1), 3), ((2, 3, 6), 7), ((6, 2, 3), 7), ((1, 4, 8), 9)]
EPS12 = Fraction(1, 4096)
ATOL_TYPES = ('float', 'int', 'np.float64', 'np.float32', 'np.int64')


def _gen_offset(rng, kinds=('on', 'axis', 'diag2', 'diag3')):
    """(offset (Fractions), its exact length, label) in units of the cell's length scale.  The length is
    independent of the tolerance: from 2^-12 (far inside the default 0.01) over 2^-7 / 2^-6 (the two
    sides of the default) to 1/2."""
    kind = rng.choice(kinds)
    if kind == 'on':
        return [Fraction(0)] * 3, Fraction(0), 'on-site'
    pool = [d for d in OFF_DIRS if {'axis': d[1] == 1, 'diag2': d[1] == 5, 'diag3': d[1] in (3, 7, 9)}[kind]]
    d, nrm = rng.choice(pool)
    u = Fraction(1, 2 ** rng.choice([12, 11, 10, 10, 9, 9, 8, 8, 7, 7, 6, 6, 5, 4, 3, 2, 1]))
    while nrm * u > 1:
        u /= 2
    off = [Fraction(c * rng.choice([-1, 1])) * u for c in d]
    return off, nrm * u, kind


def _pow2(k):
    return Fraction(2) ** k


def _atol_candidates(m, k=0):
    """tolerances around an offset of exact length `m` (None = default): [(value, label)].  `m` is in
    working units already; `k` is the power-of-two scale of the cell (the explicit candidates scale with it,
    the default does not)."""
    f = float(_pow2(k))
    if m == 0:
        return [(None, 'default'), (0, 'zero'), (1e-12 * f, 'tiny'), (0.0625 * f, 'above'), (1.0 * f, 'above'),
                (-0.125 * f, 'negative'), (100.0 * f, 'huge')]
    import math
    eps = EPS12 * _pow2(k)
    return [(None, 'default'), (0, 'zero'), (1e-12 * f, 'tiny'), (float(m), 'tie'), (float(m - eps), 'just-below'),
            (float(m + eps), 'just-above'), (math.nextafter(float(m), 0.0), 'ulp-below'),
            (math.nextafter(float(m), math.inf), 'ulp-above'), (float(m) * (1 - 2.0 ** -20), 'ppm-below'),
            (float(m / 2), 'below'), (float(2 * m), 'above'), (float(-m), 'negative'), (100.0 * f, 'huge')]


def _atol_types(v):
    """the Python/numpy types an explicit tolerance of value `v` can be given in without changing it."""
    np = _np()
    out = ['float', 'np.float64']
    if float(v) == int(v) and abs(v) < 2 ** 62:
        out += ['int', 'np.int64']
    with np.errstate(all='ignore'):
        if float(np.float32(v)) == float(v):
            out.append('np.float32')
    return out


def _gen_atol(rng, m, k=0):
    """(value or None, type tag, label) for an offset of exact length m."""
    cands = _atol_candidates(m, k)
    v, label = rng.choice(cands + [cands[0]] * 3)          # the default keeps ~1/3 of the cases
    if v is None:
        return None, 'float', label
    return v, rng.choice(_atol_types(v)), label


def _atol_obj(op):
    """the tolerance object handed to the implementation."""
    np = _np()
    v = op['atol']
    if v is None:
        return None
    t = op.get('atol_type', 'float')
    return {'float': lambda: float(v), 'int': lambda: int(v), 'np.float64': lambda: np.float64(v),
            'np.float32': lambda: np.float32(v), 'np.int64': lambda: np.int64(int(v))}[t]()


# working units the implementation may run under (atomman.unitconvert.reset_units): the documented default
# tolerance is 0.01 ANGSTROM, i.e. 0.01 * (1 angstrom in the working length unit)
UNITS = {'nm': ({'length': 'nm', 'mass': 'amu', 'energy': 'eV', 'charge': 'e'}, Fraction(1, 10)),
         'pm': ({'length': 'pm'}, Fraction(100)),
         'SI': ({'length': 'm', 'mass': 'kg', 'energy': 'J', 'charge': 'C'}, Fraction(1, 10 ** 10)),
         'um-J': ({'length': 'um', 'energy': 'J'}, Fraction(1, 10 ** 4)),
         'eV-only': ({'length': 'angstrom', 'energy': 'J'}, Fraction(1))}
DEFAULT_UNITS = {'length': 'angstrom', 'mass': 'amu', 'energy': 'eV', 'charge': 'e'}


def _default_atol_frac(op):
    u = op.get('units')
    return Fraction(1, 100) * UNITS[u][1] if u else Fraction(DEFAULT_ATOL)


def _atol_frac(op):
    """the effective tolerance the documentation promises: the default only for None."""
    return _default_atol_frac(op) if op['atol'] is None else Fraction(float(op['atol']))


def _pos_arg(V, O, cart, scale):
    """the `pos` argument (floats) for an exact Cartesian position; box-relative if `scale`."""
    if scale:
        return [float(x) for x in _vecmat([c - o for c, o in zip(cart, O)], _inv(V))]
    return [float(x) for x in cart]


def _rel_exact(V, O, cart):
    rel = _vecmat([c - o for c, o in zip(cart, O)], _inv(V))
    return all(Fraction(float(x)) == x and _is_dyadic(x) for x in rel)


def _f32ok(vals):
    np = _np()
    with np.errstate(all='ignore'):
        return all(float(np.float32(x)) == float(x) for x in vals)


def _gen_styles(rng, op):
    """the FORM in which the arguments are handed over (values unchanged)."""
    if op['pos'] is not None:
        pool = ['array'] * 6 + ['list', 'tuple', 'readonly', 'noncontig', 'row', 'mixed']
        if _f32ok(op['pos']):
            pool += ['float32', 'float32']
        if all(float(x) == int(x) and abs(x) < 2 ** 40 for x in op['pos']):
            pool += ['intlist', 'intarray'] + (['int32array'] if all(abs(x) < 2 ** 31 for x in op['pos']) else [])
        op['posstyle'] = rng.choice(pool)
    if op['db_vect'] is not None:
        pool = ['array'] * 4 + ['list', 'tuple', 'readonly', 'noncontig', 'mixed']
        if _f32ok(op['db_vect']):
            pool += ['float32', 'float32']
        if all(float(x) == int(x) and abs(x) < 2 ** 40 for x in op['db_vect']):
            pool += ['intlist', 'intarray']
        op['dbstyle'] = rng.choice(pool)
    op['scalestyle'] = rng.choice(['bool'] * 5 + ['int', 'npbool'])
    if op['ptd_id'] is not None and rng.random() < 0.25:
        op['ptd_np'] = rng.choice(['int64', 'int32', 'int8', 'intp'])
    if rng.random() < 0.06:
        op['units'] = rng.choice(sorted(UNITS))


def _gen_op(rng, system, k=0):
    """one insertion request derived from the current state of `system` (plain data).  `k`: the cell is
    scaled by 2^k — offsets, explicit tolerances and Cartesian vectors scale with it."""
    n = system.natoms
    F = _pow2(k)
    V = [[Fraction(x) for x in r] for r in system.box.vects.tolist()]
    O = [Fraction(x) for x in system.box.origin.tolist()]
    fn = rng.choice(['vacancy', 'vacancy', 'interstitial', 'interstitial', 'substitutional', 'substitutional',
                     'dumbbell', 'dumbbell'])
    op = {'fn': fn, 'via': rng.choice(['direct', 'point']), 'ptd_type': FN_TYPE[fn], 'pos': None, 'ptd_id': None,
          'db_vect': None, 'scale': rng.random() < 0.4, 'atol': None, 'atol_type': 'float',
          'kw': _gen_kwargs(rng, system, fn), 'positional': rng.random() < 0.15, 'note': []}
    # without a position the tolerance is irrelevant: any value must be accepted and ignored
    op['atol'], op['atol_type'], _ = _gen_atol(rng, Fraction(0), k)
    targets = []

    def site_pos(i):
        base = [Fraction(x) for x in system.atoms.pos[i].tolist()]
        targets.append(i)
        shift = [0, 0, 0]
        r = rng.random()
        if r < 0.35:
            shift = [rng.choice([-1, 0, 1]) for _ in range(3)]
            op['note'].append('image')
        elif r < 0.42:
            # a lattice translation beyond the adjacent cells (in a sheared cell it can be the SHORTEST one)
            while max(abs(c) for c in shift) < 2:
                shift = [rng.choice([-2, -1, 0, 0, 1, 2]) for _ in range(3)]
            op['note'].append('image2')
        base = [b + s for b, s in zip(base, _vecmat(shift, V))]
        off, m, label = _gen_offset(rng)
        off, m = [c * F for c in off], m * F
        op['note'].append('offset:' + label)
        op['atol'], op['atol_type'], tl = _gen_atol(rng, m, k)
        op['note'].append('atol:' + tl)
        if n >= 2 and rng.random() < 0.12:
            # ambiguous on purpose: a tolerance that also reaches another atom
            j = rng.choice([q for q in range(n) if q != i])
            st = {'pbc': [bool(b) for b in system.pbc], 'vects': V}
            d = float(_d2(st, [Fraction(x) for x in system.atoms.pos[i].tolist()],
                          [Fraction(x) for x in system.atoms.pos[j].tolist()])) ** 0.5
            if d > 0:
                op['atol'], op['atol_type'] = 1.25 * d + float(m), rng.choice(['float', 'np.float64'])
                op['note'].append('ambiguous')
        cart = [b + o for b, o in zip(base, off)]
        return _pos_arg(V, O, cart, op['scale'])

    if fn == 'interstitial':
        r = rng.random()
        if r < 0.4:
            op['pos'] = site_pos(rng.randrange(n))
            op['note'].append('near-atom')
        else:
            rel = [Fraction(rng.randint(-4, 36), 32) for _ in range(3)]
            if rng.random() < 0.06:
                rel = [Fraction(0)] * 3                       # the cell origin itself (free or occupied)
            if op['scale']:
                op['pos'] = [float(x) for x in rel]
            else:
                op['pos'] = [float(c + o) for c, o in zip(_vecmat(rel, V), O)]
    else:
        mode = rng.choice(['idx'] * 7 + ['pos'] * 10 + ['both', 'neither'])
        if mode in ('idx', 'both'):
            op['ptd_id'] = rng.randint(-n - 2, n + 1)
            if -n <= op['ptd_id'] < n:
                targets.append(op['ptd_id'] % n)
        if mode in ('pos', 'both'):
            corner = [i for i in range(n) if all(Fraction(x) == o for x, o in zip(system.atoms.pos[i].tolist(), O))]
            if corner and rng.random() < 0.5:
                # the atom at the cell origin asked for as box-relative [0, 0, 0] (Cartesian too when the origin is
                # the coordinate origin): an all-zero position is a position, not a missing argument
                targets.append(corner[0])
                op['scale'] = True if any(O) else rng.random() < 0.5
                op['pos'] = [0.0, 0.0, 0.0]
                op['atol'], op['atol_type'], tl = _gen_atol(rng, Fraction(0), k)
                op['note'] += ['zero-pos', 'offset:on-site', 'atol:' + tl]
            else:
                op['pos'] = site_pos(rng.randrange(n))
        if fn == 'substitutional' and targets and rng.random() < 0.7 and op['kw'].get('atype', 1) >= 1:
            # mostly a real substitution (a type the atom does not have); the rest exercises the refusal
            cur = int(system.atoms.atype[targets[0]])
            op['kw']['atype'] = rng.choice([t for t in (1, 2, 3, 4) if t != cur])
    if fn == 'dumbbell':
        if op['scale']:
            op['db_vect'] = [cm.dyadic(rng, -0.25, 0.25, 5) for _ in range(3)]
        else:
            op['db_vect'] = [cm.dyadic(rng, -1, 1, 3) for _ in range(3)]
            if rng.random() < 0.15:
                op['db_vect'] = [float(rng.randint(-1, 1)) for _ in range(3)]
            op['db_vect'] = [float(Fraction(x) * F) for x in op['db_vect']]
        if rng.random() < 0.08:
            op['db_vect'] = [0.0, 0.0, 0.0]              # falsy but valid: two atoms on the site
    if op['via'] == 'point' and fn == 'vacancy' and rng.random() < 0.25:
        op['omit_type'] = True                           # ptd_type defaults to 'v'
    if op['via'] == 'point' and rng.random() < 0.14:
        bad = rng.choice(['v+db', 'v+kw', 'i+ptd', 'i+db', 's+db', 'badtype', 'badtype'])
        op['note'].append('dispatch:' + bad)
        if bad == 'v+db' and fn == 'vacancy':
            op['db_vect'] = [0.25, 0.0, 0.0]
        elif bad == 'v+kw' and fn == 'vacancy':
            op['kw'] = {'atype': 2}
        elif bad == 'i+ptd' and fn == 'interstitial':
            op['ptd_id'] = 0
        elif bad == 'i+db' and fn == 'interstitial':
            op['db_vect'] = [0.25, 0.0, 0.0]
        elif bad == 's+db' and fn == 'substitutional':
            op['db_vect'] = [0.25, 0.0, 0.0]
        elif bad == 'badtype':
            op['ptd_type'] = rng.choice(['x', 'vac', '', FN_TYPE[fn].upper(), FN_TYPE[fn].upper(), FN_TYPE[fn] * 2,
                                         {'v': 'vacancy', 'i': 'interstitial', 's': 'substitutional', 'db': 'dumbbell'}[FN_TYPE[fn]]])
            op.pop('omit_type', None)
    _gen_styles(rng, op)
    return op


def _sweep_ops(rng, system, noffsets, k=0):
    """The tolerance dimension, systematically, on ONE system (each op is an independent request):
    every generator, direct and through point(), the site seen directly and through a periodic image,
    offsets on-site / along one axis / along face and body diagonals, and for each offset EVERY
    tolerance candidate (None, 0, 1e-12, just below / exactly / just above the offset, half, double,
    negative, huge) in a random admissible type."""
    n = system.natoms
    F = _pow2(k)
    V = [[Fraction(x) for x in r] for r in system.box.vects.tolist()]
    O = [Fraction(x) for x in system.box.origin.tolist()]
    pbc = [bool(b) for b in system.pbc]
    ops = []
    for fn in ('vacancy', 'interstitial', 'substitutional', 'dumbbell'):
        offs = [_gen_offset(rng, kinds=(kd,)) for kd in ('on', 'axis', 'diag2', 'diag3')]
        rng.shuffle(offs)
        for off, m, label in offs[:noffsets] if noffsets < 4 else offs:
            off, m = [c * F for c in off], m * F
            i = rng.randrange(n)
            base = [Fraction(x) for x in system.atoms.pos[i].tolist()]
            shift = [rng.choice([-1, 0, 1]) if pb else 0 for pb in pbc] if rng.random() < 0.5 else [0, 0, 0]
            cart = [b + s + o for b, s, o in zip(base, _vecmat(shift, V), off)]
            scale = rng.random() < 0.4 and _rel_exact(V, O, cart)
            units = rng.choice(sorted(UNITS)) if rng.random() < 0.15 else None
            for v, tl in _atol_candidates(m, k):
                op = {'fn': fn, 'via': rng.choice(['direct', 'point']), 'ptd_type': FN_TYPE[fn],
                      'pos': _pos_arg(V, O, cart, scale), 'ptd_id': None, 'db_vect': None, 'scale': scale, 'atol': v,
                      'atol_type': 'float' if v is None else rng.choice(_atol_types(v)), 'kw': {},
                      'positional': rng.random() < 0.15,
                      'note': ['sweep', 'offset:' + label, 'atol:' + tl] + (['image'] if any(shift) else [])}
                if units:
                    op['units'] = units
                if fn == 'substitutional':
                    op['kw']['atype'] = rng.choice([t for t in (1, 2, 3, 4) if t != int(system.atoms.atype[i])])
                if fn == 'dumbbell':
                    op['db_vect'] = [float(Fraction(x) * F) for x in (0.125, -0.25, 0.0)]
                    if scale:
                        op['db_vect'] = [0.03125, 0.0, -0.0625]
                ops.append(op)
    return ops


def _kw_values(op):
    np = _np()
    out = {}
    for k, v in op['kw'].items():
        if k in ('atype', 'old_id'):
            out[k] = int(v)
        else:
            flat = [STR_POOL[c] for c in v['flat']] if v['dtype'] == 'str' else v['flat']
            arr = np.array(flat, dtype=_DT[v['dtype']]).reshape(tuple(v['shape']))
            style = v.get('style', 'array')
            if not v['shape']:
                out[k] = arr[()] if style == 'nested' else arr[()].item()        # numpy scalar / Python scalar
            elif style in ('list', 'nested'):
                out[k] = arr.tolist()
            elif style == 'tuple':
                out[k] = tuple(arr.tolist()) if arr.ndim == 1 else arr.tolist()
            else:
                out[k] = arr
    return out


def _styled(vals, style, rng_seed=0):
    """hand a 3-vector over in the requested form (same numbers)."""
    np = _np()
    if vals is None:
        return None
    if style == 'list':
        return [float(x) for x in vals]
    if style == 'tuple':
        return tuple(float(x) for x in vals)
    if style == 'intlist':
        return [int(x) for x in vals]
    if style == 'intarray':
        return np.array([int(x) for x in vals])
    if style == 'int32array':
        return np.array([int(x) for x in vals], dtype=np.int32)
    if style == 'float32':
        return np.array(vals, dtype=np.float32)
    if style == 'readonly':
        a = np.array(vals, dtype=float)
        a.setflags(write=False)
        return a
    if style == 'noncontig':
        big = np.full((3, 4), 7.25)
        big[:, 1] = vals
        return big[:, 1]                                   # a strided view
    if style == 'row':
        return np.array([vals], dtype=float)               # shape (1, 3)
    if style == 'mixed':
        # Python float, Python int / numpy.float32 where the value allows, numpy.float64 — in one list
        out = []
        for j, x in enumerate(vals):
            x = float(x)
            if j == 0 and x == int(x) and abs(x) < 2 ** 40:
                out.append(int(x))
            elif j == 1 and _f32ok([x]):
                out.append(np.float32(x))
            elif j == 2:
                out.append(np.float64(x))
            else:
                out.append(x)
        return out
    return np.array(vals, dtype=float)


def _set_units(name):
    import atomman.unitconvert as uc
    uc.reset_units(**(UNITS[name][0] if name else DEFAULT_UNITS))


def _call(op, system):
    """run the insertion on the real code; returns ('ok', System, argument objects) or ('err', class, message)."""
    np = _np()
    import atomman.defect as D
    kw = _kw_values(op)
    pos = _styled(op['pos'], op.get('posstyle', 'array'))
    dbstyle = op.get('dbstyle', 'array')
    if dbstyle in ('intlist', 'intarray') and op['db_vect'] is not None and \
            not all(float(x) == int(x) for x in op['db_vect']):
        dbstyle = 'list'
    db = _styled(op['db_vect'], dbstyle)
    args_before = (copy.deepcopy(pos), copy.deepcopy(db), copy.deepcopy(kw))
    atol = _atol_obj(op)
    ptd = op['ptd_id']
    if ptd is not None and op.get('ptd_np'):
        t = op['ptd_np'] if isinstance(op['ptd_np'], str) else 'int64'
        if t == 'int8' and not -128 <= ptd < 128:
            t = 'int64'
        ptd = getattr(np, t)(ptd)
    if ptd is not None and op.get('ptd_float') is not None:
        ptd = op['ptd_float']                              # a non-integer index object: must be refused
        if op.get('ptd_float_np'):
            ptd = np.float64(ptd)
    sc = {'int': int, 'npbool': np.bool_}.get(op.get('scalestyle', 'bool'), bool)(op['scale'])
    units = op.get('units')
    try:
        if units:
            _set_units(units)
        if op.get('positional'):
            # the documented parameter order is part of the interface
            if op['via'] == 'point':
                r = D.point(system, op['ptd_type'], pos, ptd, db, sc, atol, **kw)
            elif op['fn'] == 'vacancy':
                r = D.vacancy(system, pos, ptd, sc, atol)
            elif op['fn'] == 'interstitial':
                r = D.interstitial(system, pos, sc, atol, **kw)
            elif op['fn'] == 'substitutional':
                if 'atype' in kw:
                    kw2 = {k: v for k, v in kw.items() if k != 'atype'}
                    r = D.substitutional(system, pos, ptd, kw['atype'], sc, atol, **kw2)
                else:
                    r = D.substitutional(system, pos, ptd, scale=sc, atol=atol, **kw)
            else:
                r = D.dumbbell(system, pos, ptd, db, sc, atol, **kw)
        elif op['via'] == 'point':
            if op.get('omit_type') and op['ptd_type'] == 'v':
                r = D.point(system, pos=pos, ptd_id=ptd, db_vect=db, scale=sc, atol=atol, **kw)
            else:
                r = D.point(system, op['ptd_type'], pos=pos, ptd_id=ptd, db_vect=db, scale=sc, atol=atol, **kw)
        elif op['fn'] == 'vacancy':
            r = D.vacancy(system, pos=pos, ptd_id=ptd, scale=sc, atol=atol)
        elif op['fn'] == 'interstitial':
            r = D.interstitial(system, pos, scale=sc, atol=atol, **kw)
        elif op['fn'] == 'substitutional':
            r = D.substitutional(system, pos=pos, ptd_id=ptd, scale=sc, atol=atol, **kw)
        else:
            r = D.dumbbell(system, pos=pos, ptd_id=ptd, db_vect=db, scale=sc, atol=atol, **kw)
        if not _same_args(args_before, (pos, db, kw)):
            return ('err', 'other', 'ArgumentMutated: the pos / db_vect / property-value objects of the caller were modified')
        return ('ok', r, (pos, db, kw))
    except ValueError as e:
        return ('err', 'value', f'{type(e).__name__}: {e}')
    except AssertionError as e:
        return ('err', 'assert', f'{type(e).__name__}: {e}')
    except TypeError as e:
        return ('err', 'type', f'{type(e).__name__}: {e}')
    except IndexError as e:
        return ('err', 'index', f'{type(e).__name__}: {e}')
    except Exception as e:  # noqa
        return ('err', 'other', f'{type(e).__name__}: {e}')
    finally:
        if units:
            _set_units(None)


def _same_args(a, b):
    np = _np()

    def eq(x, y):
        if isinstance(x, dict):
            return set(x) == set(y) and all(eq(x[k], y[k]) for k in x)
        if x is None or y is None:
            return x is None and y is None
        return np.array_equal(np.asarray(x), np.asarray(y))
    return all(eq(x, y) for x, y in zip(a, b))


def _v3(x):
    return '0 0 0 0' if x is None else '1 ' + cm.frs(x)


def _op_line(op):
    name = ('point:' + op['ptd_type']) if op['via'] == 'point' else op['fn']
    kw = op['kw']
    parts = ['op', name, _v3(op['pos']), '0 0' if op['ptd_id'] is None else f"1 {op['ptd_id']}", _v3(op['db_vect']),
             '1' if op['scale'] else '0', '0 0' if op['atol'] is None else '1 ' + cm.fr(float(op['atol'])),
             f"1 {kw['atype']}" if 'atype' in kw else '0 0', f"1 {kw['old_id']}" if 'old_id' in kw else '0 0']
    extra = [(k, v) for k, v in kw.items() if k not in ('atype', 'old_id')]
    parts.append(str(len(extra)))
    for k, v in extra:
        parts += [k, str(len(v['flat'])), ' '.join(cm.fr(x) for x in v['flat'])]
    return ' '.join(p for p in parts if p != '')


# ----------------------------------------------------------------------------------------
# independent oracle (Fractions): what the property text asks of one insertion
# ----------------------------------------------------------------------------------------

def _state(system):
    """exact plain-data view of a System."""
    v = system.atoms.view
    keys = _keys(system)
    rows = []
    for i in range(system.natoms):
        rows.append({'atype': int(v['atype'][i]), 'pos': [Fraction(x) for x in v['pos'][i].tolist()],
                     'props': {k: [_F(x) for x in _num(v[k][i]).ravel().tolist()] for k in keys},
                     'old': int(v['old_id'][i]) if 'old_id' in v else None})
    return {'vects': [[Fraction(x) for x in r] for r in system.box.vects.tolist()],
            'origin': [Fraction(x) for x in system.box.origin.tolist()],
            'pbc': [bool(b) for b in system.pbc], 'symbols': list(system.symbols),
            'masses': [None if m is None else Fraction(float(m)) for m in system.masses], 'keys': keys,
            'dtypes': {k: (v[k].dtype.kind, list(v[k].shape[1:])) for k in system.atoms_prop()},
            'hasold': 'old_id' in v, 'rows': rows}


def _d2(st, p, q):
    """squared periodic distance: the minimum over the adjacent images along periodic directions."""
    d = [b - a for a, b in zip(p, q)]
    best = None
    for sh in itertools.product(*[((-1, 0, 1) if pb else (0,)) for pb in st['pbc']]):
        t = [x + y for x, y in zip(d, _vecmat(list(sh), st['vects']))]
        m = sum(x * x for x in t)
        if best is None or m < best:
            best = m
    return best


def _cart(st, op):
    p = [Fraction(float(x)) for x in op['pos']]
    if op['scale']:
        return [a + b for a, b in zip(_vecmat(p, st['vects']), st['origin'])]
    return p


def _lscale(st):
    """the length scale of the cell (largest |component| of the cell vectors)."""
    return max(abs(float(x)) for r in st['vects'] for x in r) or 1.0


def _sites(st, cart, atol):
    """(matching indices, flags) — flags name what would make IEEE evaluation differ from exact
    arithmetic: 'near-tol' a non-zero distance within 1e-9 (relative) of |atol|; 'near-zero' a non-zero
    distance below 1e-9 of the cell's length scale; 'zero-small-tol' an exact hit judged with a tolerance
    below that."""
    at = Fraction(atol)
    L = _lscale(st)
    hits, flags = [], set()
    for i, r in enumerate(st['rows']):
        m = _d2(st, cart, r['pos'])
        if m == 0 or (at >= 0 and m <= at * at):
            hits.append(i)
        dm = _fsqrt(m)
        if m > 0 and abs(dm - abs(float(at))) <= 1e-9 * max(dm, abs(float(at))):
            # a distance that is itself a dyadic number (d2 a perfect square) is computed exactly by
            # sqrt: the comparison with ANY tolerance, one ulp away included, is then exact
            flags.add('near-tol-exact-root' if _exact_root(m) else 'near-tol')
        if 0 < dm < 1e-9 * L:
            flags.add('near-zero')
        if m == 0 and (at < 0 or abs(float(at)) < 1e-9 * L):
            flags.add('zero-small-tol')
    return hits, flags


def _fsqrt(m):
    """float square root of a non-negative Fraction of any magnitude."""
    import math
    m = Fraction(m)
    if m == 0:
        return 0.0
    try:
        return math.sqrt(float(m))
    except OverflowError:
        pass
    # scale by an even power of two into range
    e = (m.numerator.bit_length() - m.denominator.bit_length()) // 2 * 2
    return math.sqrt(float(m / Fraction(2) ** e)) * 2.0 ** (e // 2)


def _exact_root(m):
    """d2 is the square of a dyadic number with at most 26 significant bits (sqrt returns it exactly)."""
    import math
    a, b = m.numerator, m.denominator
    ra, rb = math.isqrt(a), math.isqrt(b)
    if ra * ra != a or rb * rb != b or not _is_pow2(rb):
        return False
    return _fewbits(Fraction(ra, rb), 26)


def _geometry_exact(st, op):
    """cell, atoms and the requested position / vector lie on a common binary grid fine enough that numpy's
    and Cython's double arithmetic on them is exact — scale-free: with g = 2^e the finest bit used by any
    value, every value is below 2^40 g (sums) and every cell-sized quantity (cell vectors, atom positions
    and the requested position relative to the origin, the dumbbell vector) below 2^21 g (squares)."""
    O = st['origin']
    cell = [x for r in st['vects'] for x in r] + [x - o for r in st['rows'] for x, o in zip(r['pos'], O)]
    extra = []
    if op['pos'] is not None:
        p = [Fraction(float(x)) for x in op['pos']]
        if op['scale']:
            if not all(_is_dyadic(x) for x in p):
                return False
            cart = [a + b for a, b in zip(_vecmat(p, st['vects']), O)]
        else:
            cart = p
        cell += [c - o for c, o in zip(cart, O)]
        extra += cart
    if op['db_vect'] is not None:
        d = [Fraction(float(x)) for x in op['db_vect']]
        if op['scale']:
            if not all(_is_dyadic(x) for x in d):
                return False
            d = _vecmat(d, st['vects'])
        cell += d
    allv = cell + list(O) + extra + [x for r in st['rows'] for x in r['pos']]
    nz = [x for x in allv if x != 0]
    if not nz:
        return True
    if not all(_is_pow2(x.denominator) or x.denominator == 1 for x in nz):
        return False
    e = min(_lowbit_exp(x) for x in nz)
    g = Fraction(2) ** e
    return all(abs(x) < g * 2 ** 40 for x in allv) and all(abs(x) < g * 2 ** 21 for x in cell)


def _loose(st, op):
    """number of trailing (defect) atoms whose position the implementation computes with rounding:
    box-relative input in a cell off the dyadic grid, or +-db_vect added to an off-grid position."""
    if _geometry_exact(st, op):
        return 0
    if op['fn'] == 'dumbbell':
        return 2
    if op['fn'] == 'interstitial' and op['scale']:
        return 1
    return 0


def _undecidable(st, op, flags):
    """is the site search of this request within rounding of a discontinuity?  On the dyadic grid only
    a NON-dyadic tolerance within 1e-9 of a distance is (a dyadic one — the tie — is decided exactly)."""
    if _geometry_exact(st, op):
        return 'near-tol' in flags and not (op['atol'] is not None and _fewbits(op['atol'], 24))
    return bool(flags)          # off the grid every flag (also near-tol-exact-root) is a possible rounding flip


def _expected(st, op):
    """('err', class, reason) | ('ok', expected rows, info) | ('skip', why).  Written from the property
    text / docstrings: structural (slices), no index lists."""
    n = len(st['rows'])
    atol = _atol_frac(op)
    kw = op['kw']
    fn = op['fn']
    if op['via'] == 'point':
        t = op['ptd_type']
        if t not in ('v', 'i', 's', 'db'):
            return ('err', 'value', 'invalid ptd_type')
        if t == 'v' and (op['db_vect'] is not None or kw):
            return ('err', 'assert', 'vacancy takes no db_vect / properties')
        if t == 'i' and (op['ptd_id'] is not None or op['db_vect'] is not None):
            return ('err', 'assert', 'interstitial takes no ptd_id / db_vect')
        if t == 's' and op['db_vect'] is not None:
            return ('err', 'assert', 'substitutional takes no db_vect')
    if fn != 'vacancy' and kw.get('atype') is not None and kw['atype'] < 1:
        # whatever else is asked: there is no system with such an atom (Atoms: 'atype values < 1 not allowed')
        return ('err', 'value', f'atom types start at 1, atype={kw["atype"]} requested')
    if op.get('ptd_float') is not None and op['pos'] is None and fn != 'interstitial':
        return ('err', ('type', 'index'), f'ptd_id={op["ptd_float"]!r} is not an integer')
    if fn == 'interstitial':
        cart = _cart(st, op)
        hits, flags = _sites(st, cart, atol)
        if _undecidable(st, op, flags):
            return ('skip', 'borderline distance')
        if hits:
            return ('err', 'value', f'interstitial site occupied by atom(s) {hits} within atol={float(atol)!r}')
        site = None
    else:
        if op['pos'] is not None and op['ptd_id'] is not None:
            return ('err', 'value', 'both pos and ptd_id')
        if op['pos'] is None and op['ptd_id'] is None:
            return ('err', 'value', 'neither pos nor ptd_id')
        if op['pos'] is not None:
            cart = _cart(st, op)
            hits, flags = _sites(st, cart, atol)
            if _undecidable(st, op, flags):
                return ('skip', 'borderline distance')
            if len(hits) == 0:
                return ('err', 'value', f'no atom within atol={float(atol)!r} of pos')
            if len(hits) > 1:
                return ('err', 'value', f'ambiguous site: atoms {hits} within atol={float(atol)!r}')
            site = hits[0]
        else:
            i = op['ptd_id']
            if not (-n <= i < n):
                return ('err', 'value', 'index out of range')
            site = i % n
    rows = [dict(r, orig=j) for j, r in enumerate(st['rows'])]

    def oldval(r):
        return r['old'] if st['hasold'] else r['orig']

    def requested(r, default_zero=False):
        props = {}
        for k in st['keys']:
            if k in kw:
                props[k] = [_F(x) for x in kw[k]['flat']]
            elif default_zero:
                props[k] = [Fraction(0)] * len(r['props'][k])
            else:
                props[k] = list(r['props'][k])
        return props
    if fn == 'vacancy':
        if n == 1:
            return ('err', 'value', 'removing the only atom leaves no system')
        out = rows[:site] + rows[site + 1:]
        exp = [dict(atype=r['atype'], pos=r['pos'], props=r['props'], old=oldval(r), orig=r['orig']) for r in out]
        return ('ok', exp, {'site': site, 'ndefect': 0})
    others = rows if fn == 'interstitial' else rows[:site] + rows[site + 1:]
    exp = [dict(atype=r['atype'], pos=r['pos'], props=r['props'], old=oldval(r), orig=r['orig']) for r in others]
    allold = [oldval(r) for r in rows]
    if fn == 'interstitial':
        exp.append(dict(atype=kw.get('atype', 1), pos=cart, props=requested(rows[0], True),
                        old=kw.get('old_id', max(allold) + 1), orig=None))
        return ('ok', exp, {'site': None, 'ndefect': 1})
    a = rows[site]
    if fn == 'substitutional':
        t = kw.get('atype', 1)
        if a['atype'] == t:
            return ('err', 'value', 'atom already has the requested type')
        exp.append(dict(atype=t, pos=a['pos'], props=requested(a), old=kw.get('old_id', oldval(a)),
                        orig=None if 'old_id' in kw else a['orig']))
        return ('ok', exp, {'site': site, 'ndefect': 1})
    db = [Fraction(float(x)) for x in op['db_vect']]
    if op['scale']:
        db = _vecmat(db, st['vects'])        # a vector: no origin
    exp.append(dict(atype=a['atype'], pos=[p - d for p, d in zip(a['pos'], db)], props=a['props'], old=oldval(a),
                    orig=a['orig']))
    exp.append(dict(atype=kw.get('atype', a['atype']), pos=[p + d for p, d in zip(a['pos'], db)], props=requested(a),
                    old=kw.get('old_id', max(allold) + 1), orig=None))
    return ('ok', exp, {'site': site, 'ndefect': 2})


def _check_result(st, op, exp, info, res, before, after, system, result, args=None):
    """clauses of the property on one accepted insertion; returns list of (key, message)."""
    np = _np()
    bad = []
    fn = op['fn']
    n = len(st['rows'])
    want_n = {'vacancy': n - 1, 'interstitial': n + 1, 'substitutional': n, 'dumbbell': n + 1}[fn]
    if len(res['rows']) != want_n:
        bad.append((fn + ':count', f'{fn}: {n} atoms -> {len(res["rows"])}, documented change gives {want_n}'))
        return bad
    if res['vects'] != st['vects'] or res['origin'] != st['origin'] or res['pbc'] != st['pbc']:
        bad.append((fn + ':cell', f'{fn}: the cell (vects/origin/pbc) of the result differs from the input'))
    if list(res['symbols'][:len(st['symbols'])]) != list(st['symbols']) or \
            any(s is not None for s in res['symbols'][len(st['symbols']):]):
        bad.append((fn + ':symbols', f'{fn}: symbols {st["symbols"]} -> {res["symbols"]}'))
    if list(res['masses'][:len(st['masses'])]) != list(st['masses']) or \
            any(m is not None for m in res['masses'][len(st['masses']):]) or len(res['masses']) != len(res['symbols']):
        bad.append((fn + ':masses', f'{fn}: per-type masses {[None if m is None else float(m) for m in st["masses"]]} -> '
                    f'{[None if m is None else float(m) for m in res["masses"]]} (symbols {res["symbols"]})'))
    if res['keys'] != st['keys']:
        bad.append((fn + ':keys', f'{fn}: property keys {st["keys"]} -> {res["keys"]}'))
        return bad
    if not res['hasold']:
        bad.append((fn + ':old_id-missing', f'{fn}: result has no old_id property'))
        return bad
    for k, dt in res['dtypes'].items():
        want_dt = st['dtypes'].get(k, ('i', []) if k == 'old_id' else None)
        if want_dt is not None and (dt[0] != want_dt[0] or dt[1] != want_dt[1]) and not (k == 'old_id' and dt[0] in 'iu'):
            bad.append((fn + ':dtype', f'{fn}: property {k} changed its dtype kind / per-atom shape {want_dt} -> {dt}'))
    nd = info['ndefect']
    loose = _loose(st, op) > 0
    L = Fraction(_lscale(st))
    for j, (e, g) in enumerate(zip(exp, res['rows'])):
        role = 'other' if j < len(exp) - nd else 'defect'
        if e['atype'] != g['atype']:
            bad.append((f'{fn}:{role}-atype', f'{fn}: atom {j} ({role}) atype {g["atype"]}, expected {e["atype"]}'))
        if e['pos'] != g['pos']:
            tol_ok = loose and role == 'defect' and all(
                abs(p - q) <= Fraction(1, 10 ** 12) * (L + abs(q)) for p, q in zip(g['pos'], e['pos']))
            if not tol_ok:
                bad.append((f'{fn}:{role}-pos', f'{fn}: atom {j} ({role}) pos {[float(x) for x in g["pos"]]}, '
                            f'expected {[float(x) for x in e["pos"]]}'))
        if e['props'] != g['props']:
            bad.append((f'{fn}:{role}-props', f'{fn}: atom {j} ({role}) properties '
                        f'{ {k: [float(x) for x in v] for k, v in g["props"].items()} }, expected '
                        f'{ {k: [float(x) for x in v] for k, v in e["props"].items()} }'))
        if e['old'] != g['old']:
            bad.append((f'{fn}:{role}-old_id', f'{fn}: atom {j} ({role}) old_id {g["old"]}, expected {e["old"]}'
                        + ('' if st['hasold'] else f' (its index in the input)')))
    if before != after:
        bad.append((fn + ':input-mutated', f'{fn}: the input system was modified: '
                    f'{[k for k in before if before[k] != after.get(k)]}'))
    if result is not None:
        if result.box is system.box or result.atoms is system.atoms:
            bad.append((fn + ':aliasing', f'{fn}: result shares its Box/Atoms object with the input'))
        bad += [(fn + ':aliasing', f'{fn}: {m}') for m in _shared(_arrays(result, 'result'), _arrays(system, 'input'))]
        if args is not None:
            bad += [(fn + ':aliasing', f'{fn}: {m}') for m in _shared(_arrays(result, 'result'), _arg_arrays(args))]
    return bad


def _arrays(system, who):
    """every ndarray reachable from a System through its public surface and its instance dictionaries."""
    np = _np()
    out = {}
    for k in system.atoms_prop():
        out[f'{who}.atoms.{k}'] = system.atoms.view[k]
    out[f'{who}.pbc'] = system.pbc
    out[f'{who}.box.vects'] = system.box.vects
    out[f'{who}.box.origin'] = system.box.origin
    for owner, name in ((system, 'System'), (system.atoms, 'Atoms'), (system.box, 'Box')):
        for k, v in vars(owner).items():
            if isinstance(v, np.ndarray):
                out[f'{who}.{name}.{k}'] = v
    return out


def _arg_arrays(args):
    np = _np()
    pos, db, kw = args
    out = {}
    if isinstance(pos, np.ndarray):
        out['argument pos'] = pos
    if isinstance(db, np.ndarray):
        out['argument db_vect'] = db
    for k, v in (kw or {}).items():
        if isinstance(v, np.ndarray):
            out['argument ' + k] = v
    return out


def _shared(a, b):
    np = _np()
    return [f'{ka} shares memory with {kb}' for ka, va in a.items() for kb, vb in b.items()
            if va.size and vb.size and np.shares_memory(va, vb)]


def _scribble(system):
    """overwrite every array of a (discarded) result in place."""
    np = _np()
    for name, a in _arrays(system, 'r').items():
        try:
            if not a.flags.writeable:
                continue
            if a.dtype.kind == 'b':
                a[...] = ~a
            elif a.dtype.kind in 'US':
                a[...] = 'zz'
            elif a.dtype.kind in 'iu':
                a[...] = a + 17
            else:
                a[...] = a * 3 + 1.5
        except Exception:
            pass


def _oracle_step(system, op, probe=False):
    """run one insertion on the real code and judge it. Returns (status, result-or-None, findings, exp).
    `probe`: also repeat the identical call and write into its result (fresh outputs, no hidden state)."""
    st = _state(system)
    before = _snapshot(system)
    out = _call(op, system)
    after = _snapshot(system)
    exp = _expected(st, op)
    findings = []
    fn = op['fn']
    if before != after:
        findings.append((fn + ':input-mutated', f'{fn}: the input system was modified by the call: '
                         f'{[k for k in before if before[k] != after.get(k)] + [k for k in after if k not in before]}'))
    if exp[0] == 'skip':
        return ('skip', out[1] if out[0] == 'ok' else None, findings, exp)
    if exp[0] == 'err':
        if out[0] == 'ok':
            findings.append((f'{fn}:not-refused', f'{fn} accepted a request that must be refused ({exp[2]})'))
            return ('bad', out[1], findings, exp)
        if out[1] != exp[1] and not (isinstance(exp[1], tuple) and out[1] in exp[1]):
            findings.append((f'{fn}:refusal-class', f'{fn} refused with {out[2]} where {exp[1]} ({exp[2]}) is documented'))
        return ('refused', None, findings, exp)
    if out[0] == 'err':
        findings.append((f'{fn}:refused-valid', f'{fn} refused a valid request (site {exp[2]["site"]}): {out[2]}'))
        return ('bad', None, findings, exp)
    try:
        res = _state(out[1])
    except Exception as e:  # noqa
        findings.append((f'{fn}:result-unusable', f'{fn} returned a system that cannot be read: {type(e).__name__}: {e}'))
        return ('bad', None, findings, exp)
    findings += _check_result(st, op, exp[1], exp[2], res, before, after, system, out[1], out[2])
    if probe and not findings:
        findings += _probe_repeat(system, op, out[1], before)
    return ('ok' if not findings else 'bad', out[1], findings, exp)


def _probe_repeat(system, op, first, before):
    """the identical request again on the same input object: the same system, in fresh arrays; writing
    into one result changes neither the input, nor the other result, nor what a third call returns."""
    fn = op['fn']
    bad = []
    snap1 = _snapshot(first)
    out2 = _call(op, system)
    if out2[0] != 'ok':
        return [(fn + ':not-repeatable', f'{fn}: the identical request on the same input is refused the second time ({out2[2]})')]
    if _snapshot(out2[1]) != snap1:
        bad.append((fn + ':not-repeatable', f'{fn}: the identical request on the same input gives a different system the second time'))
    bad += [(fn + ':aliasing', f'{fn}: two results of the same request: {m}')
            for m in _shared(_arrays(out2[1], 'second'), _arrays(first, 'first'))]
    _scribble(out2[1])
    if _snapshot(system) != before:
        bad.append((fn + ':aliasing', f'{fn}: writing into the arrays of a result changed the input system'))
    if _snapshot(first) != snap1:
        bad.append((fn + ':aliasing', f'{fn}: writing into the arrays of one result changed another result'))
    out3 = _call(op, system)
    if out3[0] != 'ok' or _snapshot(out3[1]) != snap1:
        bad.append((fn + ':not-repeatable', f'{fn}: after writing into an earlier result the identical request gives a different outcome'))
    return bad


def _sys_desc_of(system):
    """plain-data description (replayable) of a live System."""
    np = _np()
    d = {'vects': system.box.vects.tolist(), 'origin': system.box.origin.tolist(), 'pbc': [bool(b) for b in system.pbc],
         'symbols': list(system.symbols), 'masses': [None if m is None else float(m) for m in system.masses],
         'atype': [int(x) for x in system.atoms.atype], 'pos': system.atoms.pos.tolist(),
         'props': {}, 'old_id': None, 'old_first': False}
    for k in system.atoms_prop():
        a = system.atoms.view[k]
        if k == 'old_id':
            d['old_id'] = [int(x) for x in a]
            d['old_first'] = list(system.atoms_prop()).index('old_id') == 2 and len(system.atoms_prop()) > 3
        elif k not in RESERVED:
            dt = _dtname(a)
            d['props'][k] = {'dtype': dt, 'shape': list(a.shape[1:]),
                             'data': (_num(a).astype(int) if dt == 'str' else a).reshape(len(a), -1).tolist()}
    return d


# ----------------------------------------------------------------------------------------
# correspondence
# ----------------------------------------------------------------------------------------

def _nontrivial(op, out):
    return not any(s.startswith('dispatch:') for s in op['note']) and \
        not (op['pos'] is None and op['ptd_id'] is None and op['fn'] != 'interstitial') and \
        not (op['pos'] is not None and op['ptd_id'] is not None)


def _safe_dump(system):
    try:
        return 'ok ' + _dump(system)
    except Exception as e:  # noqa  (e.g. a result carrying atom type 0: `symbols` raises)
        return f'unreadable-result:{type(e).__name__}'


def _corr_op(ctx, system, desc, hist, op, it, sline, lines, checks, dist, label='corr'):
    """queue one insertion for the model and run it on the implementation."""
    st = _state(system)
    before = _snapshot(system)
    out = _call(op, system)
    after = _snapshot(system)
    exp = _expected(st, op)
    line = _op_line(op)
    if op.get('units'):
        # the working length unit is part of the request: the model's default tolerance follows it
        d = _default_atol_frac(op)
        lines.append(f'dflt {d.numerator}/{d.denominator}')
        checks.append(('aux', None, None, None, None, it))
    lines.append(line)
    want = _safe_dump(out[1]) if out[0] == 'ok' else 'err:' + out[1]
    loose = _loose(st, op)
    exempt = exp[0] == 'skip'
    checks.append(('op', desc, list(hist), want, (loose, exempt, before != after, out[:2] + (out[2] if out[0] == 'err' else None,)), it))
    if op.get('units'):
        lines.append('dflt')
        checks.append(('aux', None, None, None, None, it))
    kind = op['fn'] + ('/point' if op['via'] == 'point' else '') + ':' + ('ok' if out[0] == 'ok' else out[1])
    dist[kind] = dist.get(kind, 0) + 1
    tl = [x for x in op['note'] if x.startswith('atol:')]
    if tl and op['pos'] is not None:
        key = tl[0] + '/' + (op.get('atol_type', 'float') if op['atol'] is not None else 'None')
        dist[key] = dist.get(key, 0) + 1
    for dim in ('posstyle', 'dbstyle', 'scalestyle', 'units', 'ptd_np'):
        if op.get(dim) and not (dim == 'posstyle' and op['pos'] is None) and not (dim == 'dbstyle' and op['db_vect'] is None):
            key = f'{dim}:{op[dim]}'
            dist[key] = dist.get(key, 0) + 1
    ctx.stats.case(label + ':' + kind, (sline, line, op.get('units')), nontrivial=_nontrivial(op, out),
                   sample={'system': {k: desc.get(k) for k in ('cell', 'k', 'vects', 'origin', 'pbc', 'atype')},
                           'op': {k: v for k, v in op.items() if k != 'kw'}, 'kwargs': sorted(op['kw']),
                           'outcome': out[0] if out[0] == 'ok' else out[1]})
    return out, loose


EDIT_KINDS = ('move', 'swap', 'onto', 'pbc', 'atype', 'prop', 'origin')


def _gen_edit(rng, system, k=0):
    """an in-place change of the INPUT object between two requests (what a user script does)."""
    n = system.natoms
    F = float(_pow2(k))
    kind = rng.choice(EDIT_KINDS)
    e = {'edit': kind}
    if kind == 'move':
        e.update(i=rng.randrange(n), d=[float(Fraction(cm.dyadic(rng, -2, 2, 3)) * Fraction(F)) for _ in range(3)])
    elif kind in ('swap', 'onto'):
        if n < 2:
            return _gen_edit(rng, system, k)
        i, j = rng.sample(range(n), 2)
        e.update(i=i, j=j)
    elif kind == 'pbc':
        e.update(pbc=[rng.random() < 0.5 for _ in range(3)])
    elif kind == 'atype':
        e.update(i=rng.randrange(n), t=rng.randint(1, 3))
    elif kind == 'prop':
        keys = [q for q in _keys(system) if system.atoms.view[q].dtype.kind in 'fi']
        if not keys:
            return _gen_edit(rng, system, k)
        e.update(i=rng.randrange(n), key=rng.choice(keys), add=rng.randint(1, 5))
    elif kind == 'origin':
        e.update(d=[float(Fraction(cm.dyadic(rng, -2, 2, 2)) * Fraction(F)) for _ in range(3)])
    return e


def _apply_edit(system, e):
    np = _np()
    kind = e['edit']
    pos = system.atoms.pos
    if kind == 'move':
        pos[e['i']] = pos[e['i']] + np.array(e['d'])
    elif kind == 'swap':
        a, b = pos[e['i']].copy(), pos[e['j']].copy()
        pos[e['i']], pos[e['j']] = b, a
    elif kind == 'onto':
        # atom j takes the place of atom i, atom i goes one cell diagonal further
        a = pos[e['i']].copy()
        pos[e['i']] = a + 0.5 * (system.box.avect + system.box.bvect + system.box.cvect) + (pos[e['j']] - a) * 0.25
        pos[e['j']] = a
    elif kind == 'pbc':
        system.pbc = e['pbc']
    elif kind == 'atype':
        system.atoms.atype[e['i']] = e['t']
    elif kind == 'prop':
        v = system.atoms.view[e['key']]
        v[e['i']] = v[e['i']] + e['add']
    elif kind == 'origin':
        system.box_set(vects=system.box.vects, origin=system.box.origin + np.array(e['d']))


def _float_index_corr(ctx, rng):
    """an index OBJECT that is not of integer type (2.0, 1.5, -0.5, numpy.float64): the class of the refusal, model
    (`fidx`: ValueError out of range, else TypeError / IndexError at its first use) vs implementation; every value
    around the range ends, directly and through point(), also together with pos."""
    for it in range(ctx.n(10, 60)):
        desc = _gen_system(rng, natoms=rng.choice([1, 2, 3, 4, 6]))
        system = _mk_system(desc)
        n = system.natoms
        sline = 'sys ' + _dump(system)
        got = ctx.driver.ask(sline)
        if not got.startswith('ok'):
            ctx.disagree('sys-roundtrip', f'driver did not read the system back: {got[:120]}',
                         {'op': 'history', 'system': desc, 'ops': []})
            continue
        cands = [float(i) for i in range(-n - 1, n + 2)] + [i + 0.5 for i in range(-n - 2, n + 1)] + \
                [n - 0.25, -n - 0.25, -0.0]
        for fn in ('vacancy', 'substitutional', 'dumbbell'):
            for q in rng.sample(cands, min(len(cands), 4)):
                via = rng.choice(['direct', 'point'])
                pos = [float(x) for x in system.atoms.pos[rng.randrange(n)]] if rng.random() < 0.15 else None
                op = {'fn': fn, 'via': via, 'ptd_type': FN_TYPE[fn], 'pos': pos, 'ptd_id': 0, 'ptd_float': q,
                      'db_vect': [0.25, 0.0, 0.0] if fn == 'dumbbell' else None, 'scale': False, 'atol': None,
                      'kw': {'atype': 4} if fn == 'substitutional' else {}, 'note': ['float-index']}
                if rng.random() < 0.3:
                    op['ptd_float_np'] = True
                out = _call(op, system)
                impl = 'ok' if out[0] == 'ok' else 'err:' + out[1]
                name = fn if via == 'direct' else 'point:' + FN_TYPE[fn]
                pp = ('1 ' + ' '.join(cm.fr(x) for x in pos)) if pos is not None else '0 0 0 0'
                line = f'fidx {name} {pp} {1 if fn == "dumbbell" else 0} {0 if fn == "substitutional" else 1} {cm.fr(q)}'
                model = ctx.driver.ask(line)
                ctx.stats.case(f'corr-float-index:{fn}{"/point" if via == "point" else ""}:{impl}', (sline, line),
                               nontrivial=True, sample={'natoms': n, 'fn': fn, 'via': via, 'index': q,
                                                        'with_pos': pos is not None, 'outcome': impl})
                if impl != model:
                    ctx.disagree(fn + ':float-index',
                                 f'{fn} ({via}) with the non-integer index object ptd_id={q!r}'
                                 f'{" (numpy.float64)" if op.get("ptd_float_np") else ""}'
                                 f'{" and pos" if pos is not None else ""} on {n} atoms: implementation '
                                 f'{impl if out[0] == "ok" else impl + " [" + str(out[2])[:80] + "]"} != model {model}',
                                 {'op': 'history', 'system': desc, 'ops': [op]})


def correspond(ctx):
    rng = ctx.rng
    nsys = ctx.n(600, 6000)
    lines, checks = [], []
    dist = {}
    for it in range(nsys):
        desc = _gen_system(rng)
        system = _mk_system(desc)
        sline = 'sys ' + _dump(system)
        lines.append(sline)
        checks.append(('sys', desc, None, 'ok ' + _dump(system), None, it))
        nops = rng.choice([1, 2, 3, 4] * 4 + [5, 7, 10])
        hist = []
        for q in range(nops):
            op = _gen_op(rng, system, desc['k'])
            hist.append(op)
            out, loose = _corr_op(ctx, system, desc, hist, op, it, sline, lines, checks, dist)
            if out[0] == 'ok':
                if not _safe_dump(out[1]).startswith('ok '):
                    break              # an unusable result (reported by the comparison): the history ends here
                system = out[1]
                if loose:
                    # positions computed in floating point from inexact box-relative input: hand the
                    # implementation's rounded state to the driver so that later steps start equal
                    lines.append('sys ' + _dump(system))
                    checks.append(('sys', desc, None, 'ok ' + _dump(system), None, it))
    # the tolerance dimension, systematically: independent requests on one system each
    it = nsys
    for q in range(ctx.n(10, 80)):
        desc = _gen_system(rng, natoms=rng.choice([1, 2, 3, 4, 5, 6]), k=_sweep_k(rng))
        system = _mk_system(desc)
        sline = 'sys ' + _dump(system)
        for op in _sweep_ops(rng, system, ctx.n(2, 4), desc['k']):
            it += 1
            lines.append(sline)
            checks.append(('sys', desc, None, 'ok ' + _dump(system), None, it))
            _corr_op(ctx, system, desc, [op], op, it, sline, lines, checks, dist, label='corr-sweep')
    # requests on ONE input object with in-place edits of it in between: the model gets the object's
    # current content each time, so anything remembered from an earlier call shows as a difference
    for q in range(ctx.n(60, 600)):
        it += 1
        desc = _gen_system(rng, natoms=rng.choice([2, 3, 4, 5, 6]))
        system = _mk_system(desc)
        script = []
        op = None
        for step in range(rng.choice([3, 4, 5, 6])):
            if op is None or rng.random() < 0.4:
                op = _gen_op(rng, system, desc['k'])
            script.append(op)
            sline = 'sys ' + _dump(system)
            lines.append(sline)
            checks.append(('sys', desc, None, 'ok ' + _dump(system), None, it))
            _corr_op(ctx, system, desc, list(script), op, it, sline, lines, checks, dist, label='corr-same-object')
            e = _gen_edit(rng, system, desc['k'])
            script.append(e)
            _apply_edit(system, e)
    outs = ctx.driver.ask_many(lines)
    ctx.extra['correspondence_outcomes'] = dist
    _float_index_corr(ctx, rng)
    dead = set()
    nex = 0
    for (kind, desc, hist, want, aux, it), got in zip(checks, outs):
        if it in dead or kind == 'aux':
            continue
        if kind == 'sys':
            if got != want:
                dead.add(it)
                ctx.disagree('sys-roundtrip', f'driver did not read the system back: {got[:120]}',
                             {'op': 'history', 'system': desc, 'ops': []})
            continue
        loose, exempt, mutated, out = aux
        op = hist[-1]
        rp = {'op': 'script' if any('edit' in h for h in hist) else 'history', 'system': desc, 'ops': hist}
        if mutated:
            ctx.disagree(op['fn'] + ':input-mutated', f'{op["fn"]} modified its input system (the model is functional)', rp)
        if exempt:
            nex += 1
            dead.add(it)          # states may have diverged legitimately: stop comparing this history
            continue
        same = (got == want) if not got.startswith('ok ') or not want.startswith('ok ') else \
            _same_dump(want[3:], got[3:], loose)
        if not same:
            dead.add(it)
            what = f'{op["fn"]} ({"point" if op["via"] == "point" else "direct"}; notes {op["note"]}' \
                   f'{"; units " + op["units"] if op.get("units") else ""}): implementation ' \
                   f'{_brief(want, out)} != model {_brief(got, None)}'
            ctx.disagree(op['fn'] + ':' + ('outcome' if (got[:3] != want[:3]) else 'system'), what,
                         dict(rp, impl=want[:400], model=got[:400]))
    ctx.extra['correspondence_exempt_borderline'] = nex


def _sweep_k(rng):
    return rng.choice(SCALE_EXPONENTS) if rng.random() < 0.35 else 0


def _brief(text, out):
    if text.startswith('ok '):
        return 'accepted: ' + text[3:][:160] + ('…' if len(text) > 163 else '')
    return text + (f' [{out[2]}]' if out is not None and out[0] == 'err' else '')


# ----------------------------------------------------------------------------------------
# search: the property's clauses on the real code
# ----------------------------------------------------------------------------------------

def _equal_results(a, b, loose=0, L=1.0):
    """identical systems; with `loose` the positions of the last `loose` atoms to 1e-12 of the length scale
    (off the binary grid `rel . vects` in floating point and the exactly converted vector differ by rounding)."""
    def norm(sn):
        # the WIDTH of an integer property is not part of the result (old_id of a one-atom system takes the
        # width of a numpy index object): compare integer columns by kind
        return {k: (('int',) + tuple(v[1:]) if k.startswith('p:') and v[0].startswith(('int', 'uint')) else v)
                for k, v in sn.items()}
    sa, sb = norm(_snapshot(a)), norm(_snapshot(b))
    if sa == sb:
        return True
    if not loose or {k: v for k, v in sa.items() if k != 'p:pos'} != {k: v for k, v in sb.items() if k != 'p:pos'}:
        return False
    pa, pb = sa['p:pos'], sb['p:pos']
    if pa[:2] != pb[:2]:
        return False
    n = len(pa[2])
    for j, (x, y) in enumerate(zip(pa[2], pb[2])):
        if x != y and (j < n - 3 * loose or abs(x - y) > 1e-12 * (L + abs(y))):
            return False
    return True


def _selection_equivalence(ctx, system, op, exp, result, desc, hist):
    """pos (Cartesian, box-relative, through an adjacent periodic image) == index selection."""
    if op['fn'] == 'interstitial' or exp[0] != 'ok' or result is None:
        return
    site = exp[2]['site']
    st = _state(system)
    n = len(st['rows'])
    atol = _atol_frac(op)
    base = st['rows'][site]['pos']
    variants = []
    # by index, positive and negative
    variants.append(('index', dict(op, pos=None, ptd_id=site)))
    variants.append(('negative index', dict(op, pos=None, ptd_id=site - n)))
    # unique at its own position?  (no other atom within atol of it, in the oracle's exact arithmetic)
    hits, flags = _sites(st, base, atol)
    if hits == [site] and not _undecidable(st, dict(op, pos=[float(x) for x in base]), flags):
        variants.append(('Cartesian pos', dict(op, pos=[float(x) for x in base], ptd_id=None, scale=False,
                                               db_vect=_db_as(op, st, False), dbstyle='array')))
        shift = [ctx.rng.choice([-1, 0, 1]) if pb else 0 for pb in st['pbc']]
        img = [b + s for b, s in zip(base, _vecmat(shift, st['vects']))]
        variants.append((f'Cartesian pos through image {shift}', dict(op, pos=[float(x) for x in img], ptd_id=None,
                                                                     scale=False, db_vect=_db_as(op, st, False),
                                                                     dbstyle='array')))
        inv = _inv(st['vects'])
        rel = _vecmat([c - o for c, o in zip(img, st['origin'])], inv)
        if all(Fraction(float(x)) == x for x in rel) and all(Fraction(float(x)) == x for x in _db_rel(op, st, inv)):
            variants.append((f'box-relative pos through image {shift}',
                             dict(op, pos=[float(x) for x in rel], ptd_id=None, scale=True, dbstyle='array',
                                  db_vect=[float(x) for x in _db_rel(op, st, inv)] if op['db_vect'] is not None else None)))
    for name, v in variants:
        v = dict(v, note=[])
        if v['pos'] is not None:
            # judge the variant's own (rounded) position: off the binary grid an image is not an exact hit
            vh, vf = _sites(st, _cart(st, v), atol)
            if vh != [site] or _undecidable(st, v, vf):
                continue
        styles = ['array']
        if 'index' not in name:
            more = ['readonly', 'noncontig', 'row', 'mixed'] + (['float32'] if _f32ok(v['pos']) else [])
            styles = ['array', 'list', 'tuple'] + ctx.rng.sample(more, 2)
        for style in styles:
            v['posstyle'] = style
            out = _call(v, system)
            ctx.stats.case('oracle:selection:' + name.split(' through')[0], (repr(desc), repr(hist), name, style))
            if out[0] != 'ok':
                ctx.violate(f'{op["fn"]}:selection-refused',
                            f'{op["fn"]}: atom {site} selected by {name} ({style}) is refused ({out[2]}) although the same '
                            f'site is accepted when selected as in the original request',
                            {'op': 'history', 'system': desc, 'ops': hist[:-1] + [op], 'variant': v, 'how': name})
            elif not _equal_results(out[1], result, max(_loose(st, v), _loose(st, op)), _lscale(st)):
                ctx.violate(f'{op["fn"]}:selection-differs',
                            f'{op["fn"]}: selecting atom {site} by {name} ({style}) gives a different system than the original request',
                            {'op': 'history', 'system': desc, 'ops': hist[:-1] + [op], 'variant': v, 'how': name})


def _db_as(op, st, scale):
    """db_vect of the op expressed for scale=False (Cartesian)."""
    if op['db_vect'] is None:
        return None
    db = [Fraction(float(x)) for x in op['db_vect']]
    if op['scale']:
        db = _vecmat(db, st['vects'])
    return [float(x) for x in db]


def _db_rel(op, st, inv):
    if op['db_vect'] is None:
        return [Fraction(0)] * 3
    db = [Fraction(float(x)) for x in op['db_vect']]
    if not op['scale']:
        db = _vecmat(db, inv)
    return db


def _run_history(ctx, desc, ops, label, gen=None, nops=0, rng=None, same_object=False):
    """judge a history on the real code (ops given, or generated step by step with `gen`).  Entries with an
    'edit' key change the current input object in place.  `same_object`: every request goes to the SAME
    input object (results are judged and dropped) — with edits in between this is the stale-memo probe."""
    system = _mk_system(desc)
    first_hasold = desc.get('old_id') is not None
    prov = list(range(system.natoms))          # index in the first system of every current atom (None: created)
    hist = []
    k = 0
    rkind = 'script' if same_object else 'history'
    while True:
        if gen is not None:
            if k >= nops:
                break
            op = gen(system)
        else:
            if k >= len(ops):
                break
            op = ops[k]
        k += 1
        hist.append(op)
        if 'edit' in op:
            _apply_edit(system, op)
            prov = [None] * system.natoms
            continue
        probe = rng is not None and rng.random() < 0.15
        status, result, findings, exp = _oracle_step(system, op, probe=probe or label == 'replay')
        ctx.stats.case(f'oracle:{label}:{op["fn"]}:{status}', (repr(desc), repr(hist)),
                       nontrivial=status != 'skip',
                       sample={'first_system': {q: desc[q] for q in ('vects', 'origin', 'pbc', 'atype')},
                               'history': [o.get('fn', 'edit:' + str(o.get('edit'))) for o in hist],
                               'last': {q: v for q, v in op.items() if q != 'kw'}, 'status': status})
        for key, msg in findings:
            ctx.violate(key, msg + f' [history of {len(hist)} step(s), {label}]',
                        {'op': rkind, 'system': desc, 'ops': list(hist)})
        if status == 'ok' and gen is not None and not same_object:
            _selection_equivalence(ctx, system, op, exp, result, desc, hist)
        if result is None or same_object:
            continue                       # refused: the system stays as it was
        if exp[0] == 'ok' and len(exp[1]) == result.natoms:
            prov = [None if e['orig'] is None else prov[e['orig']] for e in exp[1]]
            # composition: old_id of a survivor is its index in the first system
            if not first_hasold and 'old_id' in result.atoms_prop():
                for j, p in enumerate(prov):
                    if p is not None and int(result.atoms.old_id[j]) != p:
                        ctx.violate(f'{op["fn"]}:old_id-composition',
                                    f'after {len(hist)} insertions atom {j} is atom {p} of the first system but has '
                                    f'old_id {int(result.atoms.old_id[j])}',
                                    {'op': 'history', 'system': desc, 'ops': list(hist)})
                        break
        else:
            prov = [None] * result.natoms      # exempt / misjudged step: provenance unknown from here on
        if not _safe_dump(result).startswith('ok '):
            break                              # an unusable result (already reported): nothing can follow it
        system = result
    return system


def _special_cases(ctx, rng):
    """inputs the random generator reaches rarely: integer-valued positions given as Python ints,
    one-atom systems, list/tuple positions, index objects that are not integers."""
    # integer-valued atom positions, requested with Python ints / an integer array
    for it in range(ctx.n(12, 60)):
        n = rng.choice([1, 2, 3, 4, 5])
        a = rng.choice([2.0, 4.0])
        cells = [(x, y, z) for x in range(int(a)) for y in range(int(a)) for z in range(int(a))]
        pts = rng.sample(cells, n)
        if it % 2 == 0:
            pts[0] = (0, 0, 0)
        desc = {'cell': 'cubic', 'k': 0, 'vects': [[a, 0, 0], [0, a, 0], [0, 0, a]], 'origin': [0.0, 0.0, 0.0],
                'pbc': [True, True, True], 'symbols': ['Al', 'Cu'], 'atype': [1 + (i % 2) for i in range(n)],
                'pos': [[float(c) for c in p] for p in pts], 'props': {}, 'old_id': None, 'old_first': False}
        for fn in ('vacancy', 'substitutional', 'dumbbell', 'interstitial'):
            i = 0 if it % 4 == 0 else rng.randrange(n)           # the atom at [0, 0, 0]: a falsy-looking position
            for style in ('intlist', 'intarray', 'int32array', 'list', 'mixed', 'float32'):
                if fn == 'interstitial':
                    free = [c for c in cells if c not in pts]
                    pos = list(rng.choice(free))
                    kw = {}
                else:
                    pos = list(pts[i])
                    kw = {'atype': 3} if fn == 'substitutional' else {}
                op = {'fn': fn, 'via': rng.choice(['direct', 'point']), 'ptd_type': FN_TYPE[fn], 'pos': [float(x) for x in pos],
                      'ptd_id': None, 'db_vect': [0.25, 0.0, 0.0] if fn == 'dumbbell' else None, 'scale': False, 'atol': None,
                      'kw': kw, 'note': ['integer-valued pos'], 'posstyle': style}
                _run_history(ctx, desc, [op], 'intpos-' + style)
    # one-atom systems: every generator, by index and by position
    for it in range(ctx.n(6, 40)):
        desc = _gen_system(rng, natoms=1)

        def gen(system, rng=rng, k=desc['k']):
            return _gen_op(rng, system, k)
        _run_history(ctx, desc, None, 'one-atom', gen=gen, nops=3, rng=rng)
    # an index that is not an integer (2.0, 1.5, numpy.float64, a string) is refused, never truncated
    for it in range(ctx.n(10, 60)):
        desc = _gen_system(rng, natoms=rng.choice([2, 3, 4, 5]))
        n = len(desc['atype'])
        for fn in ('vacancy', 'substitutional', 'dumbbell'):
            i = rng.randrange(n)
            for bad in (float(i), i + 0.5, -0.5, 'np.float64', str(i)):
                op = {'fn': fn, 'via': rng.choice(['direct', 'point']), 'ptd_type': FN_TYPE[fn], 'pos': None, 'ptd_id': i,
                      'ptd_float': bad, 'db_vect': [0.25, 0.0, 0.0] if fn == 'dumbbell' else None, 'scale': False,
                      'atol': None, 'kw': {'atype': 4} if fn == 'substitutional' else {}, 'note': ['non-integer ptd_id']}
                if bad == 'np.float64':
                    op['ptd_float'] = float(i)
                    op['ptd_float_np'] = True
                _run_history(ctx, desc, [op], 'float-index')


def _same_object_sequences(ctx, rng, broken):
    """several requests to ONE input object, the object edited in place in between (atoms moved / swapped,
    pbc, types, property values, the box origin): every outcome must be the one a fresh object with the
    same content gives — nothing may be remembered on the system, its Atoms / Box, or the module."""
    for q in range(ctx.n(60, 500) * (2 if broken else 1)):
        desc = _gen_system(rng, natoms=rng.choice([2, 3, 4, 5, 6]))
        state = {'op': None}

        def gen(system, rng=rng, k=desc['k'], state=state):
            # alternate request / edit; the request is often the SAME as before the edit
            if state['op'] is not None and state.get('edit_next'):
                state['edit_next'] = False
                return _gen_edit(rng, system, k)
            if state['op'] is None or rng.random() < 0.4:
                state['op'] = _gen_op(rng, system, k)
            state['edit_next'] = True
            return state['op']
        _run_history(ctx, desc, None, 'same-object', gen=gen, nops=rng.choice([5, 7, 9]), rng=rng, same_object=True)


# ----------------------------------------------------------------------------------------
# large systems: counts and thresholds (block-wise searches, packed keys, fast paths that switch on at a size)
# ----------------------------------------------------------------------------------------
# One synthetic crystal per size: a truncated, randomly ordered fcc supercell on a dyadic grid (lattice constant
# 4*2^e, every coordinate a multiple of a/2: differences and the dumbbell arithmetic are exact in doubles), in an
# orthorhombic or integer-sheared box with a dyadic origin, 3 types, a float, an int and a per-atom vector property,
# plus two EXTRA atoms 2^-8 apart (closer than the default tolerance) at an off-lattice hole, one with a small index
# and one with an index beyond 65536.  Every clause is decided exactly: "every other atom unchanged, in order" is a
# bitwise comparison of whole arrays against numpy slices of the construction data (no index lists), the rows that
# must change are computed with Fractions, refusals from the construction (which sites are occupied, by how many).
LARGE_MAIN = [70306, 140610]                     # 26x26x26x4 + 2 (the tester's demo size), 26x26x52x4 + 2
LARGE_EDGE = [1023, 1024, 1025, 2047, 2048, 2049, 4095, 4096, 4097, 8191, 8192, 8193, 16383, 16384, 16385, 32767, 32768,
              32769, 65535, 65536, 65537, 65538, 131071, 131072, 131073]
LARGE_FORMS = ('pos', 'list', 'image', 'scaled', 'point', 'negative', 'np-int', 'tight')
FCC = ((0, 0, 0), (1, 1, 0), (1, 0, 1), (0, 1, 1))      # in units of a/2
EXTRA_GAP = 2.0 ** -8


def _large_spec(rng, n):
    """plain data from which the system is rebuilt (replay)."""
    m = -(-(n - 2) // 4)
    nx = rng.choice([8, 13, 16, 26])
    ny = rng.choice([8, 13, 16, 26])
    nz = max(2, -(-m // (nx * ny)))
    return {'n': n, 'reps': [nx, ny, nz], 'perm': rng.randrange(1 << 30), 'e': rng.choice([-2, -1, 0, 0, 0, 1, 3]),
            'shear': [rng.choice([0, 0, 1, -2]) for _ in range(3)], 'origin': [rng.choice([0, 0, 1, -3, 10]) for _ in range(3)],
            'pbc': [rng.random() < 0.7 for _ in range(3)]}


def _large_build(spec):
    """-> (system, data): data holds the construction arrays (never handed to atomman)."""
    np = _np()
    import atomman as am
    n = spec['n']
    nx, ny, nz = spec['reps']
    a = math.ldexp(4.0, spec['e'])
    h = a / 2
    cells = np.stack(np.meshgrid(np.arange(nx), np.arange(ny), np.arange(nz), indexing='ij'), -1).reshape(-1, 3)
    sites = (2 * cells[:, None, :] + np.array(FCC)[None, :, :]).reshape(-1, 3)          # integer multiples of a/2
    order = np.random.RandomState(spec['perm']).permutation(len(sites))
    sites = sites[order][:n - 2]
    origin = np.array(spec['origin'], dtype=float) * (a / 4)
    sxy, sxz, syz = spec['shear']
    vects = np.array([[nx * a, 0.0, 0.0], [sxy * a, ny * a, 0.0], [sxz * a, syz * a, nz * a]])
    # the two extra atoms: at the tetrahedral hole (1/4,1/4,1/4)a of cell 0 and 2^-8 beside it
    rs = np.random.RandomState(spec['perm'] ^ 0x5bd1)
    i1 = int(rs.randint(2, min(n, 65536) - 2)) if n > 8 else 1
    lo = 65540 if n > 65560 else max(i1 + 2, n // 2 + 2)
    i2 = int(rs.randint(lo, n - 2)) if n - 2 > lo else n - 2
    while _is_edge_index(i1, n):
        i1 += 3
    while _is_edge_index(i2, n) or i2 == i1:
        i2 -= 3
    pos = np.empty((n, 3))
    lattice = np.ones(n, dtype=bool)
    lattice[[i1, i2]] = False
    pos[lattice] = origin + sites * h
    hole = origin + np.array([a / 4, a / 4, a / 4])
    pos[i1] = hole
    pos[i2] = hole + np.array([EXTRA_GAP, 0.0, 0.0])
    idx = np.arange(n)
    atype = (idx * 7 + idx // 5) % 3 + 1
    charge = (idx % 1000) * 0.25 - 50.0
    tag = (n - idx).astype(np.int64)
    vel = np.stack([(idx % 17) - 8.0, (idx % 5) * 0.5, -(idx % 3) * 1.0], 1)
    data = {'n': n, 'a': a, 'pos': pos.copy(), 'atype': atype.copy(), 'charge': charge.copy(), 'tag': tag.copy(),
            'vel': vel.copy(), 'vects': vects.copy(), 'origin': origin.copy(), 'pbc': list(spec['pbc']), 'i1': i1, 'i2': i2,
            'symbols': ('Al', 'Ni', 'Cu')}
    system = am.System(atoms=am.Atoms(atype=atype, pos=pos, charge=charge, tag=tag, vel=vel),
                       box=am.Box(vects=vects, origin=origin), pbc=list(spec['pbc']), symbols=['Al', 'Ni', 'Cu'])
    return system, data


def _is_edge_index(i, n):
    return i in (0, 1, n - 1, n - 2) or any(abs(i - (1 << j)) <= 1 for j in range(1, 20))


def _large_targets(rng, n, data, many):
    must = [0, n - 1] + [k for k in (65535, 65536, 65537, 131071, 131072, 131073) if k < n]
    edge = sorted({k for j in range(9, 18) for k in ((1 << j) - 1, 1 << j, (1 << j) + 1) if 1 < k < n - 1} - set(must))
    more = rng.sample(edge, min(len(edge), 3 if many else 2)) + [rng.randrange(n), rng.choice([1, n - 2])]
    out = []
    for k in must + more:
        if k not in out and k not in (data['i1'], data['i2']) and 0 <= k < n:
            out.append(k)
    return out


def _large_untouched(np, system, data):
    bad = []
    for key in ('pos', 'atype', 'charge', 'tag', 'vel'):
        got = system.atoms.view[key]
        if got.shape != data[key].shape or not np.array_equal(got, data[key]):
            bad.append(key)
    if not np.array_equal(system.box.vects, data['vects']) or not np.array_equal(system.box.origin, data['origin']):
        bad.append('box')
    if list(system.pbc) != data['pbc']:
        bad.append('pbc')
    if system.natoms != data['n'] or 'old_id' in system.atoms_prop():
        bad.append('atoms')
    return bad


def _large_expected(np, data, fn, k, kw, db=None, cart=None):
    """expected arrays of the result of the defect on atom k (interstitial: at `cart`), from the construction data."""
    n = data['n']
    keys = ('pos', 'atype', 'charge', 'tag', 'vel')
    if fn == 'interstitial':
        body = {q: data[q] for q in keys}
        old = np.arange(n)
    else:
        body = {q: np.concatenate([data[q][:k], data[q][k + 1:]]) for q in keys}
        old = np.concatenate([np.arange(k), np.arange(k + 1, n)])
    tail = {q: [] for q in keys}
    told = []
    if fn == 'interstitial':
        tail['pos'].append(np.array(cart, dtype=float))
        tail['atype'].append(kw.get('atype', 1))
        for q in ('charge', 'tag'):
            tail[q].append(kw.get(q, 0))
        tail['vel'].append(np.array(kw.get('vel', [0.0, 0.0, 0.0])))
        told.append(kw.get('old_id', n))
    elif fn == 'substitutional':
        tail['pos'].append(data['pos'][k])
        tail['atype'].append(kw['atype'])
        for q in ('charge', 'tag', 'vel'):
            tail[q].append(np.asarray(kw.get(q, data[q][k])))
        told.append(kw.get('old_id', k))
    elif fn == 'dumbbell':
        p = [Fraction(float(x)) for x in data['pos'][k]]
        d = [Fraction(float(x)) for x in db]
        tail['pos'] += [np.array([float(x - y) for x, y in zip(p, d)]), np.array([float(x + y) for x, y in zip(p, d)])]
        tail['atype'] += [data['atype'][k], kw.get('atype', data['atype'][k])]
        for q in ('charge', 'tag', 'vel'):
            tail[q] += [data[q][k], np.asarray(kw.get(q, data[q][k]))]
        told += [k, kw.get('old_id', n)]
    exp = {}
    for q in keys:
        exp[q] = np.concatenate([body[q], np.array(tail[q], dtype=data[q].dtype).reshape((len(told),) + data[q].shape[1:])]) \
            if told else body[q]
    exp['old_id'] = np.concatenate([old, np.array(told, dtype=np.int64)]) if told else old
    return exp


def _large_compare(np, data, fn, exp, result, loose_tail=0):
    """-> list of (key, message): the result against the expected arrays; `loose_tail`: the positions of that many last
    atoms were requested through box-relative numbers (rounded): compared to 1e-12 of the cell."""
    n = data['n']
    want_n = len(exp['old_id'])
    if result.natoms != want_n:
        return [(fn + ':count', f'{n} atoms -> {result.natoms}, documented change gives {want_n}')]
    bad = []
    if not np.array_equal(result.box.vects, data['vects']) or not np.array_equal(result.box.origin, data['origin']) \
            or list(result.pbc) != data['pbc']:
        bad.append((fn + ':cell', 'the cell (vects/origin/pbc) of the result differs from the input'))
    if tuple(result.symbols[:3]) != data['symbols']:
        bad.append((fn + ':symbols', f'symbols {data["symbols"]} -> {result.symbols}'))
    props = result.atoms_prop()
    if sorted(props) != sorted(['atype', 'pos', 'charge', 'tag', 'vel', 'old_id']):
        return bad + [(fn + ':keys', f'property keys of the result: {props}')]
    nd = {'vacancy': 0, 'interstitial': 1, 'substitutional': 1, 'dumbbell': 2}[fn]
    for q in ('old_id', 'atype', 'pos', 'charge', 'tag', 'vel'):
        got = np.asarray(result.atoms.view[q])
        if got.shape != exp[q].shape:
            bad.append((fn + ':dtype', f'property {q} has shape {got.shape}, expected {exp[q].shape}'))
            continue
        if q == 'old_id' and got.dtype.kind not in 'iu':
            bad.append((fn + ':dtype', f'old_id has dtype {got.dtype}'))
        same = got == exp[q]
        if q == 'pos' and loose_tail:
            tol = 1e-12 * float(np.abs(data['vects']).max())
            same = same.copy()
            same[-loose_tail:] |= np.abs(got[-loose_tail:] - exp[q][-loose_tail:]) <= tol
        if same.all():
            continue
        rows = np.nonzero(~same.reshape(len(same), -1).all(axis=1))[0]
        j = int(rows[0])
        role = 'defect' if j >= want_n - nd else 'other'
        name = {'old_id': 'old_id', 'atype': 'atype', 'pos': 'pos'}.get(q, 'props')
        bad.append((f'{fn}:{role}-{name}', f'{len(rows)} atom(s) differ in {q}; first: atom {j} of the result ({role}) has '
                    f'{q} = {got[j].tolist()}, expected {exp[q][j].tolist()}'
                    + (f' (last rows of old_id: {got[-3:].tolist()}, expected {exp[q][-3:].tolist()})' if q == 'old_id' else '')))
    return bad


def _large_site_args(np, data, k, form, cart=None):
    """how the caller names the site of atom k (or the free position `cart`): -> (kwargs, description) or None."""
    p = data['pos'][k].copy() if cart is None else np.array(cart, dtype=float)
    if form in ('pos', 'point', 'tight'):
        return {'pos': p}, 'its Cartesian position'
    if form == 'list':
        return {'pos': [float(x) for x in p]}, 'its Cartesian position (a list)'
    if form == 'image':
        dirs = [j for j in range(3) if data['pbc'][j]]
        if not dirs:
            return None
        j = dirs[(k + len(dirs) - 1) % len(dirs)]
        sgn = 1.0 if k % 2 else -1.0
        return {'pos': p + sgn * data['vects'][j]}, f'its periodic image one cell along {"-+"[k % 2]}{"abc"[j]}'
    if form == 'scaled':
        inv = _inv([[Fraction(float(x)) for x in row] for row in data['vects']])
        rel = _vecmat([Fraction(float(x)) - Fraction(float(o)) for x, o in zip(p, data['origin'])], inv)
        return {'pos': np.array([float(x) for x in rel]), 'scale': True}, 'its box-relative position (scale=True)'
    return None


def _large_call(fn, system, via_point, kwargs):
    """-> ('ok', result) | ('err', exception)"""
    from atomman import defect
    try:
        if via_point:
            return 'ok', defect.point(system, FN_TYPE[fn], **kwargs)
        return 'ok', getattr(defect, fn)(system, **kwargs)
    except Exception as e:  # noqa: an exception is an observation
        return 'err', e


def _large_case(ctx, np, system, data, spec, fn, k, form):
    """one request on the large system, judged; returns nothing, reports through ctx."""
    n, a = data['n'], data['a']
    rep = dict(spec, op='large', fn=fn, k=int(k), form=form)
    where = f'[{n} atoms, cell {spec["reps"]}, atom {k}' + (f' = {k - n}' if form == 'negative' else '') + ']'

    def report(key, msg):
        ctx.violate(key, f'{fn} {where}: {msg}', rep)
    # the request
    kw = {}
    db = None
    if fn == 'substitutional':
        kw = {'atype': int(data['atype'][k]) % 3 + 1}
        if k % 2:
            kw['charge'] = 7.75
    if fn == 'dumbbell':
        db = np.array([[0.25, 0.5, 0.0], [0.0, -0.125, 0.375], [0.5, 0.5, 0.5]][k % 3]) * (a / 4)
        if k % 2:
            kw = {'atype': int(data['atype'][k]) % 3 + 1, 'tag': -5}
    if fn == 'interstitial' and k % 2:
        kw = {'atype': 2, 'charge': -1.5, 'vel': [1.0, 2.0, 3.0]}
    args = dict(kw)
    if db is not None:
        args['db_vect'] = db.copy()
    if fn == 'interstitial':
        # occupied site (atom k sits there): refused, however the site is named; free site: accepted
        free = data['pos'][k] + np.array([a / 2, 0.0, 0.0])          # octahedral hole next to atom k
        for cart, occupied in ((None, True), (free, False)):
            named = _large_site_args(np, data, k, form if form in ('pos', 'list', 'image', 'scaled', 'point') else 'pos', cart)
            if named is None:
                continue
            status, out = _large_call(fn, system, form == 'point', dict(args, **named[0]))
            ctx.stats.case(f'oracle:large:{fn}:{"occupied" if occupied else "free"}', (repr(rep),), sample=rep)
            touched = _large_untouched(np, system, data)
            if touched:
                report(fn + ':input-mutated', f'the input system was modified: {touched}')
                return
            if occupied:
                if status == 'ok':
                    report(fn + ':accepts-occupied', f'an interstitial at {named[1]} of atom {k} (occupied) is accepted')
                elif not isinstance(out, ValueError):
                    report(fn + ':error-class', f'occupied site refused with {type(out).__name__}: {out}')
            elif status == 'err':
                report(fn + ':refuses-valid', f'a free site ({a / 2} beside atom {k}, nearest atom {a / 2} away) named by '
                       f'{named[1].replace("its ", "")} is refused: {type(out).__name__}: {out}')
            else:
                # the new atom sits where the caller asked for it (the image position when an image was named)
                asked = free if 'scale' in named[0] else np.array(named[0]['pos'], dtype=float)
                exp = _large_expected(np, data, fn, k, kw, cart=asked)
                for key, msg in _large_compare(np, data, fn, exp, out, 1 if form == 'scaled' else 0):
                    report(key, f'free site named by {named[1].replace("its ", "")}: {msg}')
        return
    # the reference: selection by index
    ctx.stats.case(f'oracle:large:{fn}:{form}', (repr(rep),), sample=rep)
    exp = _large_expected(np, data, fn, k, kw, db=db)
    byidx = {'negative': k - n, 'np-int': np.int64(k)}.get(form, k)
    refkey = (fn, int(k), form if form in ('negative', 'np-int', 'point') else 'index')
    if refkey not in data.setdefault('_ref_done', set()):
        data['_ref_done'].add(refkey)
        status, ref = _large_call(fn, system, form == 'point', dict(args, ptd_id=byidx))
        touched = _large_untouched(np, system, data)
        if touched:
            report(fn + ':input-mutated', f'the input system was modified (selection by index): {touched}')
            return
        if status == 'err':
            report(fn + ':refuses-valid', f'selection by index {byidx!r} is refused: {type(ref).__name__}: {ref}')
            return
        for key, msg in _large_compare(np, data, fn, exp, ref):
            report(key, f'selected by index {byidx!r}: {msg}')
        if any(np.shares_memory(ref.atoms.view[q], system.atoms.view[q]) for q in ('pos', 'atype', 'charge', 'tag', 'vel')):
            report(fn + ':aliasing', 'the result shares memory with the input')
    if form in ('negative', 'np-int'):
        return
    # the same site named by position
    named = _large_site_args(np, data, k, form)
    if named is None:
        return
    pargs = dict(args, **named[0])
    if form == 'scaled' and db is not None:
        inv = _inv([[Fraction(float(x)) for x in row] for row in data['vects']])
        pargs['db_vect'] = np.array([float(x) for x in _vecmat([Fraction(float(x)) for x in db], inv)])
    if form == 'tight':
        pargs['atol'] = 0.0
    status, out = _large_call(fn, system, form == 'point', pargs)
    touched = _large_untouched(np, system, data)
    if touched:
        report(fn + ':input-mutated', f'the input system was modified (selection by position): {touched}')
        return
    if status == 'err':
        report(fn + ':selection', f'selected by {named[1]}' + (' with atol=0.0' if form == 'tight' else '')
               + f' {data["pos"][k].tolist()} the request is refused ({type(out).__name__}: {out}); by index it is accepted')
        return
    loose = 2 if (form == 'scaled' and fn == 'dumbbell') else 0
    diffs = _large_compare(np, data, fn, exp, out, loose)
    if diffs:
        extra = ''
        if fn != 'vacancy' and out.natoms == len(exp['old_id']):
            moved = int(np.asarray(out.atoms.old_id)[-2 if fn == 'dumbbell' else -1])
            if moved != k and 0 <= moved < n:
                extra = (f'; the defect is built on atom {moved} at {data["pos"][moved].tolist()} instead of atom {k} at '
                         f'{data["pos"][k].tolist()}')
        report(fn + ':selection', f'selected by {named[1]} the result differs from selection by index: {diffs[0][1]}{extra}')


def _large_refusals(ctx, np, system, data, spec):
    """absent and ambiguous sites (the two extra atoms are 2^-8 apart, in different 65536-blocks of the atom list)."""
    n, a = data['n'], data['a']
    i1, i2 = data['i1'], data['i2']
    hole = data['pos'][i1]
    free = data['pos'][0] + np.array([a / 2, 0.0, 0.0])
    for fn in ('vacancy', 'substitutional', 'dumbbell'):
        base = {'substitutional': {'atype': 3}, 'dumbbell': {'db_vect': np.array([a / 8, 0.0, 0.0])}}.get(fn, {})
        for what, pos, atol, want in (('absent', free, None, None), ('ambiguous', hole, None, None),
                                      ('ambiguous-far', data['pos'][i2], None, None),
                                      ('resolved', hole, 2.0 ** -10, i1), ('resolved', data['pos'][i2], 2.0 ** -10, i2),
                                      ('resolved', hole, 0, i1)):
            rep = dict(spec, op='large-refusal', fn=fn, what=what, atol=atol, want=want)
            ctx.stats.case(f'oracle:large:{fn}:{what}', (repr(rep),), sample=rep)
            kwargs = dict(base, pos=pos.copy())
            if fn == 'substitutional' and want is not None:
                kwargs['atype'] = int(data['atype'][want]) % 3 + 1
            if atol is not None:
                kwargs['atol'] = atol
            status, out = _large_call(fn, system, False, kwargs)
            touched = _large_untouched(np, system, data)
            tag = f'{fn} [{n} atoms, extra atoms {i1} and {i2} are {EXTRA_GAP} apart]'
            if touched:
                ctx.violate(fn + ':input-mutated', f'{tag}: the input system was modified: {touched}', rep)
                return
            if want is None:
                if status == 'ok':
                    ctx.violate(fn + (':accepts-absent' if what == 'absent' else ':accepts-ambiguous'),
                                f'{tag}: pos = {pos.tolist()} names ' + ('no atom (nearest one ' + str(a / 2) + ' away)'
                                if what == 'absent' else f'the two atoms {i1} and {i2} (default tolerance 0.01)')
                                + f' but is accepted (old_id tail {np.asarray(out.atoms.old_id)[-2:].tolist()})', rep)
                elif not isinstance(out, ValueError):
                    ctx.violate(fn + ':error-class', f'{tag}: {what} site refused with {type(out).__name__}: {out}', rep)
                continue
            if status == 'err':
                ctx.violate(fn + ':refuses-valid', f'{tag}: pos = {pos.tolist()} with atol={atol!r} names atom {want} alone '
                            f'but is refused: {type(out).__name__}: {out}', rep)
                continue
            kw = {'atype': kwargs['atype']} if fn == 'substitutional' else {}
            exp = _large_expected(np, data, fn, want, kw, db=base.get('db_vect'))
            for key, msg in _large_compare(np, data, fn, exp, out):
                ctx.violate(fn + ':selection', f'{tag}: pos = {pos.tolist()} with atol={atol!r} names atom {want}: {msg}', rep)
    # interstitial on the doubly occupied hole
    rep = dict(spec, op='large-refusal', fn='interstitial', what='occupied-twice', atol=None, want=None)
    status, out = _large_call('interstitial', system, False, {'pos': data['pos'][i2].copy()})
    ctx.stats.case('oracle:large:interstitial:occupied-twice', (repr(rep),), sample=rep)
    if status == 'ok':
        ctx.violate('interstitial:accepts-occupied', f'interstitial [{n} atoms]: pos of atom {i2} (atom {i1} is {EXTRA_GAP} '
                    f'beside it) is accepted', rep)


def _large_system_cases(ctx, rng, spec, many, only=None):
    np = _np()
    system, data = _large_build(spec)
    n = data['n']
    if only is not None:
        if only.get('op') == 'large-refusal':
            _large_refusals(ctx, np, system, data, spec)
        else:
            _large_case(ctx, np, system, data, spec, only['fn'], only['k'], only['form'])
        return
    targets = _large_targets(rng, n, data, many)
    must = set([0, n - 1, 65535, 65536, 65537, 131071, 131072, 131073])
    rest = list(LARGE_FORMS[1:])
    rng.shuffle(rest)
    for j, k in enumerate(targets):
        # 'pos' always; the other forms in rotation (every form at least once over the must-targets of a main size)
        w = (3 if many else 2) if k in must else 1
        forms = ['pos'] + [rest[(j * w + q) % len(rest)] for q in range(w)]
        for fn in ('vacancy', 'substitutional', 'dumbbell', 'interstitial'):
            for form in (forms if fn != 'interstitial' else forms[:2]):
                if fn == 'interstitial' and form in ('negative', 'np-int', 'tight'):
                    continue
                _large_case(ctx, np, system, data, spec, fn, k, form)
    _large_refusals(ctx, np, system, data, spec)


def _large_cases(ctx, rng, broken):
    """sizes: the two main ones every run, plus sizes at powers of two -1, +0, +1 (three per quick run, all when
    thorough / broken)."""
    sizes = list(LARGE_MAIN) + (list(LARGE_EDGE) if (ctx.thorough or broken) else rng.sample(LARGE_EDGE, 3))
    for n in sizes:
        spec = _large_spec(rng, n)
        _large_system_cases(ctx, rng, spec, many=(n in LARGE_MAIN))


def search(ctx, broken):
    rng = random.Random(ctx.seed * 7919 + 15)
    nsys = ctx.n(300, 4000) * (3 if broken else 1)
    for it in range(nsys):
        desc = _gen_system(rng)

        def gen(system, rng=rng, k=desc['k']):
            return _gen_op(rng, system, k)
        _run_history(ctx, desc, None, 'random', gen=gen, nops=rng.choice([1, 2, 3, 4] * 4 + [5, 7, 10]), rng=rng)
    _special_cases(ctx, rng)
    _tolerance_sweep(ctx, rng, broken)
    _same_object_sequences(ctx, rng, broken)
    _large_cases(ctx, rng, broken)


def _tolerance_sweep(ctx, rng, broken):
    """every tolerance candidate around every kind of offset, judged by the oracle (see _sweep_ops) — at
    the angstrom scale and with the whole geometry scaled by powers of two, under the default and under
    other working units."""
    for q in range(ctx.n(10, 80) * (2 if broken else 1)):
        desc = _gen_system(rng, natoms=rng.choice([1, 2, 3, 4, 5, 6]), k=_sweep_k(rng))
        system = _mk_system(desc)
        for op in _sweep_ops(rng, system, ctx.n(2, 4), desc['k']):
            _run_history(ctx, desc, [op], 'tol-sweep')


def replay(ctx, payload):
    r = payload.get('replay', {}) or {}
    if r.get('op') in ('history', 'script') and 'system' in r:
        ops = list(r.get('ops', []))
        before = len(ctx.violations)
        _run_history(ctx, r['system'], ops, 'replay', same_object=r.get('op') == 'script')
        if 'variant' in r and ops:
            # selection-equivalence case: run the history up to the last op, then both requests
            system = _mk_system(r['system'])
            for op in ops[:-1]:
                out = _call(op, system)
                if out[0] == 'ok':
                    system = out[1]
            a, b = _call(ops[-1], system), _call(r['variant'], system)
            print('replay: original request ->', a[0], '; variant', r.get('how'), '->', b[0], b[2] if b[0] == 'err' else '')
            v, st = r['variant'], _state(system)
            decided = v['pos'] is None or not _undecidable(st, v, _sites(st, _cart(st, v), _atol_frac(v))[1])
            if decided and a[0] == 'ok' and (b[0] != 'ok' or not _equal_results(
                    a[1], b[1], max(_loose(st, v), _loose(st, ops[-1])), _lscale(st))):
                ctx.violate(ops[-1]['fn'] + ':selection', 'replayed selection variant still differs', r)
        print(f'replay: {len(ctx.violations) - before} finding(s)')
        for f in ctx.violations[before:]:
            print('  ', f.what)
        if ctx.driver is not None and r.get('op') == 'history':
            system = _mk_system(r['system'])
            print('model:', ctx.driver.ask('sys ' + _dump(system))[:200])
            for op in ops:
                if op.get('units'):
                    d = _default_atol_frac(op)
                    ctx.driver.ask(f'dflt {d.numerator}/{d.denominator}')
                print('model:', ctx.driver.ask(_op_line(op))[:300])
                if op.get('units'):
                    ctx.driver.ask('dflt')
    elif r.get('op') in ('large', 'large-refusal') and 'perm' in r:
        before = len(ctx.violations)
        spec = {q: r[q] for q in ('n', 'reps', 'perm', 'e', 'shear', 'origin', 'pbc')}
        _large_system_cases(ctx, random.Random(0), spec, False, only=r)
        print(f'replay: {len(ctx.violations) - before} finding(s)')
        for f in ctx.violations[before:]:
            print('  ', f.what)
    else:
        search(ctx, True)


MANIFEST = {
    'text': 'Lean 4 model of defect/point.py on lists of atom records (site search through the shared dvect loops, index '
            'normalisation, the index lists as coded, old_id created only when absent, per-property assignment, dumbbell '
            '+-db_vect with scale converting it as a vector, the closing refusal of a defect-atom type below 1, the dispatcher). '
            'Proved for every ordered field: the four '
            'generators change exactly the documented atoms (others identical, in order; defect atoms last with the requested '
            'values), the cell is kept, old_id is the index in the input and composes over ANY history of insertions '
            '(induction), selection by Cartesian / box-relative position (also through an adjacent periodic image) equals '
            'selection by index, each refusal, the tolerance rule (atol=None and only None is the default, resolved in one place, '
            'the dispatcher passes it through, closed ball, monotone, zero/negative tolerance = exact hit only), the site search '
            'contains no absolute length (scaling cell, atoms, position and tolerance by c > 0 changes no decision), symbols '
            'and per-type masses kept and padded. Tied to the code by a differential run of insertion histories and of '
            'same-object sequences with in-place edits on random systems (cells of every shape and setting, scaled by 2^k, '
            'every argument form, other working units); the clauses - including untouched input, fresh outputs, repeatability - '
            'are evaluated on the real code by an independent Fraction oracle. Round 6: every function of point.py is regenerated '
            'from the current source (signatures, defaults, branch conditions and their order, index-list operations, the '
            'per-property loop, kwargs routing, the dispatcher) into Generated/PointSource.lean and proved equal to the model; '
            'end-to-end theorems about the functions as written (every accepted point(...) call is one of the four model '
            'insertions and satisfies every clause), every refusal as an iff, atom count and cell after any history, keywords '
            '(unknown key ignored, order irrelevant), index objects of non-integer type refused by class.',
    'note': 'Trusted: Lean kernel + propext/Classical.choice/Quot.sound; the correspondence harness; numpy indexing and '
            'assignment. Images beyond the adjacent cells are outside dvect\'s candidate set (refused by model and code alike, '
            'also where such an image is the nearest one in a strongly sheared cell). '
            'numpy casting/broadcasting of kwargs values, interstitial without pos and dumbbell without db_vect are not modelled.',
    'technique': 'Lean 4 theorems over a model proved equal to Lean definitions regenerated from point.py on every check (ast '
                 'translator, gen_..._eq_model) + differential correspondence + clause oracle on the real code',
}
