"""C13 — dislocation configurations (atomman/defect/Dislocation/): the reference crystal displaced by the elastic
solution.

Tie: correspondence.  The hand-written Lean model (lean/Atomman/C13.lean: choice of the three integer cell vectors,
mid-plane shifts, multiplier handling, supersize + shift + wrap, displaced copy, pbc, box / cylinder boundary re-typing,
periodic array: tilt, linear field, duplicate detection, expected-count test, old_id, blending, boundary) is run by the
compiled driver on exactly the rational inputs the real code saw (the elastic displacement enters as the table of the real
solver's values at the reference positions); replies and refusal classes are compared.
Search: the clauses of the property are evaluated on the real code's results with an independent oracle (Fractions for
the lattice bookkeeping, numpy for the geometric region tests).
"""
from __future__ import annotations

import itertools
import math
import random
from fractions import Fraction as F

from .. import common as cm

PROP = 'C13'
THEOREMS = [
    'C13.shift_between_planes', 'C13.shifts_complete',
    'C13.sizes_even_symmetric', 'C13.sizes_refuses_odd',
    'C13.reference_is_shifted_crystal', 'C13.monopole_keeps_atoms', 'C13.monopole_pbc', 'C13.monopole_wrapped',
    'C13.boundary_iff_outside_box', 'C13.boundary_iff_outside_cylinder', 'C13.boundary_zero_width',
    'C13.uvws_zone_law', 'C13.uvws_right_handed',
    'C13.linear_field_change', 'C13.linear_field_one_burgers',
    'C13.array_old_id', 'C13.array_deletion_count_partial', 'C13.tilted_det', 'C13.expected_edge_orthogonal',
    'C13.array_kept_boundary_atoms_apart',
    'C13.disregistry_planes_adjoin', 'C13.disregistry_same_gap', 'C13.disregistry_common_column',
    'C13.cylinder_radius_nearest_face',
    'C13.setShift_explicit', 'C13.setShift_scale_only_for_vector', 'C13.setShift_index', 'C13.setShift_default',
    'C13.setShift_both_refused', 'C13.setShift_offered', 'C13.shift_by_index_between_planes',
    'C13.step_set_ok', 'C13.step_gen_given', 'C13.step_gen_keeps', 'C13.step_refused_keeps', 'C13.step_reports_state',
    'C13.shift_history_index', 'C13.shift_history_keeps',
    'C13.resolveCenter_none', 'C13.resolveCenter_some', 'C13.resolveWidth_spec',
    # source tie (lean/Proofs/C13_Source.lean; generated side: lean/Atomman/Generated/DislocationSource.lean)
    'C13.gen_setShift_eq_model', 'C13.gen_defaultMults_eq_model', 'C13.gen_checkMults_eq_model',
    'C13.gen_minMult_eq_model', 'C13.gen_sizeOf_eq_model', 'C13.gen_shiftGiven_eq_model', 'C13.gen_center_eq_model',
    'C13.gen_width_eq_model', 'C13.gen_shapes_eq_model', 'C13.gen_boundaryGuard_eq_model', 'C13.gen_pbc_eq_model',
    'C13.gen_boundaryPlanes_eq_model', 'C13.gen_planeShift_eq_model', 'C13.gen_planeBelow_eq_model',
    'C13.gen_planeSetOutside_eq_model', 'C13.gen_cylinderOutside_eq_model', 'C13.gen_cylRadius_eq_model',
    'C13.gen_cylIntersection_eq_model', 'C13.gen_tilt_eq_model', 'C13.gen_linearDisp_eq_model',
    'C13.gen_array_formulas_eq_model', 'C13.gen_inLayer_eq_model', 'C13.gen_isDup_eq_model', 'C13.gen_disregSel_eq_model',
    'C13.gen_signatures_pinned', 'C13.gen_monopole_statements_pinned', 'C13.gen_periodicarray_statements_pinned',
    'C13.gen_cylinder_boundary_pinned', 'C13.gen_build_disl_array_pinned', 'C13.gen_disregistry_pinned',
    # API level (argument handling of the generators, the call as a whole)
    'C13.callSizes_eq_sizes', 'C13.call_refuses_bad_multipliers', 'C13.checkMultsRaw_some_iff', 'C13.callHead_ok_spec',
    'C13.callHead_refused_shift_keeps_state', 'C13.callHead_bad_shape_after_shift', 'C13.callSizes_covers_minimum',
    'C13.monopoleCall_spec', 'C13.arrayCall_spec', 'C13.ceilOfFloor_spec', 'C13.minMult_least',
    'C13.callHead_accepts_iff', 'C13.monopole_refuses_iff',
    # optimality of the two searches of __set_cells
    'C13.cosLt_iff', 'C13.bestOf_optimal', 'C13.bestOf_first', 'C13.searchM_optimal', 'C13.searchN_optimal',
]
PARTIAL = {
    'array deletion count': 'array_deletion_count_partial proves that an accepted array has removed exactly `expected` atoms '
    'with |natoms(1 - V\'/V) - expected| <= 1e-8 + 1e-5 |expected| (the code\'s own isclose test) and tilted_det / '
    'expected_edge_orthogonal that natoms(1 - V\'/V) = natoms |b.m| / (2 L_m) for an orthogonal box; that the number of '
    'geometric duplicates found by the distance test equals this number is the guard `found == expected` of the code, '
    'not a theorem about the lattice (it fails for cells shorter than a few Burgers vectors, where the code refuses)',
    'no overlapping atoms across the periodic directions': 'array_kept_boundary_atoms_apart proves that in the linear test '
    'system every kept atom of the boundary set is at least `cutoff` (minimum image) from every later boundary atom and '
    'that exactly the boundary atoms with a later one within the cutoff are removed; for the final (blended) system and '
    'for atoms outside the boundary set it is not a theorem: it depends on the lattice being commensurate with '
    'the tilted cell and on the duplicate cutoff; evaluated on the real results by the oracle (all pairs through a periodic '
    'image, threshold min(cutoff, 0.3 nearest-neighbour distance), lowered for elastic arrays by the analytic '
    'non-periodicity 1.5 |b| atan(2y/L)/pi of the single-dislocation field at height y, pairs within |b| of the line skipped)',
    'disregistry accumulates to b': 'disregistry() itself is modelled (plane selection, columns, means, interpolation) and '
    'tied by the driver op `disreg`; proved: it compares the two planes adjoining planepos (disregistry_planes_adjoin), '
    'depends on planepos only through the gap (disregistry_same_gap), and at a common column is the mean displacement above '
    'minus below (disregistry_common_column); the accumulation is proved for the linear field (linear_field_one_burgers: '
    'exactly b from face to face, linear_field_change in between); for the elastic field it is C12.burgers_closure up to the tail beyond the finite '
    'width, which is only bounded numerically here: |error| <= 6 |b| (h/(pi X_left) + h/(pi X_right)) + 0.02 |b| '
    '(+ 0.1 |b| for arrays), h the half spacing of the planes adjoining the slip plane, X the distance of the outermost '
    'atomic columns from the core',
    'uvws search: tolerance of the ties': 'searchM_optimal / searchN_optimal prove that the selected in-plane vector has the '
    'largest cosine with m among ALL in-plane lattice vectors within the index bound and the out-of-plane one the largest '
    'cosine with n (comparison of signed squared cosines, cosLt_iff: equivalent to the comparison of the angles), bestOf_first '
    'that of several equally close candidates the first in the enumeration order is taken; uvws_zone_law / uvws_right_handed '
    'the zone law and the handedness.  Not a theorem: the isclose() tolerances of the two selections and of the in-plane test '
    '(exact in the model; cases the model flags as near ties are decided by the relational op `cellsvalid`) and the oracle '
    'clause cells:n-closest',
    'rotation of the cell': 'System.rotate / normalize (C04, C05) and conventional_to_primitive are not re-modelled here: the '
    'rotated cell enters the monopole / array model as data; the oracle checks on the real results that rcell is ucell\'s '
    'crystal (every atom on a lattice site of its type, det(uvws) natoms atoms) and that rcell.box.vects = uvws . '
    'ucell.vects . transform^T',
}
RULE = ('crystals built from literal fractional coordinates: fcc (setting f and p), L1_2, bcc (i and p), B2, simple cubic, hcp '
        '(c/a 1.55 .. 1.9), body-centred tetragonal, c-centred orthorhombic, a monoclinic and a triclinic primitive cell (dyadic '
        'box vectors; rotated cells tilted in the m-n plane and within the slip plane), lattice parameters fixed or drawn to 3 '
        'decimals; slip systems: slip '
        'planes |h|,|k|,|l| <= bound (quick 1, thorough 2), line directions with the same bound lying in the plane, Burgers '
        'vectors among the two shortest classes of lattice vectors of the plane, one system per character (screw / edge / '
        'mixed) per plane, plus 22 standard systems (fcc {111}, bcc {110} and {112}, hcp basal / prismatic / pyramidal incl. '
        '(11-22)<c+a>, bct (10-1), orthorhombic (1-10), monoclinic, triclinic); '
        'every m/n axis assignment (all six for the standard systems in the search, a random one otherwise); 3- and 4-index '
        'input for the hexagonal cells (also for 4 of the standard systems); a-, b-, face-centred orthorhombic and '
        'rhombohedral (t1, t2) cells with Burgers vectors that are not integer in the conventional cell; constructor '
        'tolerance 1e-8 / 1e-6 / 1e-7 / 1e-10; configurations: sizemults None / even / odd / zero / negative, list or '
        'tuple, not three integers ((lo, hi) pairs, floats, strings, 2 or 4 entries), amin/bmin/cmin (exact expected '
        'multiplier; minima that are exactly k = 1..6 periods of the rotated cell or 1 ulp / 1e-13 / 1e-9 / 1e-3 below / '
        'above, along and across the line, monopole and periodicarray); the shift: every way of naming it (index, negative index, index out of range, Cartesian vector, '
        'box-relative vector, vector and index together, nothing) crossed with every value of the shiftscale flag '
        '(absent / False / True) and with where it is given (in the call on a shared object; at construction of a fresh '
        'object, optionally followed by set_shift(), with nothing / only the flag / another shift in the call); the '
        'centre: none / Cartesian / box-relative with all three components / along n onto another gap between atomic '
        'planes (also off its middle, also written box-relative) crossed with the centerscale flag; boundary box / '
        'cylinder, no width / 0 / widths 0 .. 3.5 / relative to a, crossed with the boundaryscale flag; EVERY boolean flag of a call '
        '(shiftscale at construction / in set_shift / in the generator, centerscale, boundaryscale, linear, return_base_system) given as '
        'Python bool, as 1 / 0 or as numpy boolean (flag_form), the truth value deciding (also larger than the '
        'system) plus probe widths 1e-5 on either side of '
        'the depth of an atom below every face of the region / of an atom\'s distance from the line / of each surface-layer '
        'edge, linear or elastic arrays, cutoffs 0.2 .. 1.2, with / without return_base_system; EXACT SURFACE TIES: screw '
        'dislocations along a cell axis of orthogonal cells (cubic p/i/f, B2, L12, tetragonal, orthorhombic c/f) with small '
        'dyadic lattice constants, every sign and m/n assignment (axis-aligned rotated cell, displacement along the line only: '
        'coordinates across the line stay bit-exact), monopole box / cylinder and periodic array, boundary widths equal to '
        'the exact depth of atomic rows below each face / to (distance line-face) - (distance of an atom from the line) for '
        'atoms on the axes of the cross-section and Pythagorean pairs, so that atoms lie bit-exactly ON the surface of the '
        'region; there the re-typing is compared with the exact rational oracle without any margin (on the surface = not '
        'outside); disregistry with planepos = '
        'default / centre / another point of the same gap (oracle) and anywhere incl. on an atomic plane (correspondence). '
        'distinct = distinct (crystal, lattice parameters, slip system, m, n, configuration); non-trivial = the generator '
        'returned a system (refusals are counted separately)')
ASSUMPTIONS = [
    'numpy.floor, numpy.linalg.norm / sqrt and the elastic solver are parameters of the model (fl, sqrt, u): the theorems hold '
    'for every u; the driver uses Rat.floor, a 2^-160 rational square root and the table of the real solver\'s values',
    'the angle comparisons of __set_cells (vect_angle + isclose) are modelled by sign-aware comparisons of squared cosines '
    'and isclose(angle, 90) by an exact zero of the dot product; cases the model flags as near ties (relative 1e-9 on '
    'squared cosines) are decided by the relational check `cellsvalid` instead of exact equality',
    'positions are compared to 1e-9 x (largest box entry); an atom whose scaled coordinate is within 1e-7 of a periodic '
    'face may sit on the opposite face (float floor), an outermost atom within 1e-9 of a free face may or may not trigger '
    'the padding of System.wrap, a boundary / duplicate / surface-layer decision within 1e-7 (relative) of its threshold '
    'is exempt; all such exemptions are counted in the evidence (exempt_near)',
    'the Box.vects setter zeroes entries below 1e-9 of the largest one: the alignment refusal is modelled with that relative '
    'bound on squared quantities',
    'numpy.ceil is the parameter `ceil` of callSizes / callHead (theorems: for every ceil; callSizes_covers_minimum needs only '
    'x <= ceil x; the driver op `head` uses ceilOfFloor Rat.floor, specified by ceilOfFloor_spec, on the exact quotient of the '
    'two doubles: quotients within half an ulp above a whole number are exempt and counted)',
    'ceil(amin / a), boundarywidth * ucell.a and center . rcell.vects are computed by the harness in floats and passed to '
    'the mono / array model runs; the centre and the width are checked on every configuration against the model\'s own '
    'exact conversion (resolveCenter, resolveWidth; driver op params), ceil(amin / a) against an exact rational ceiling '
    'in the oracle (decided on exact multiples; the rounded quotient\'s ceiling accepted too where it differs, i.e. for '
    'ratios within half an ulp above a whole number)',
]
TRUSTED = ['numpy array arithmetic in the implementation run', 'the elastic solver (C12) as a black box supplying u',
           'System.supersize / System.wrap models of C04 / C05 (imported definitions, re-tied here through the reference and '
           'dislocation systems)', 'harness-side float recomputation of the decision margins']

# ----------------------------------------------------------------------------------------
# translator: option handling, multiplier arithmetic, boundary predicates regenerated from /repo's source
# ----------------------------------------------------------------------------------------
# What the generated file lean/Atomman/Generated/DislocationSource.lean contains is listed in docs/C13.md
# ("Source tie").  Every definition is built from pieces READ from the current source with `ast` (operators,
# constants, indices, argument order, branch order); lean/Proofs/C13_Source.lean proves each equal to the hand
# model (`gen_…_eq_model`).  Anything the reader below does not recognise raises TranslationError.
import ast as _ast

from ..translate import TranslationError, get_function, strip_doc

GENERATED = ['DislocationSource']

_SRC_INIT = 'atomman/defect/Dislocation/__init__.py'
_SRC_MONO = 'atomman/defect/Dislocation/_monopole.py'
_SRC_ARR = 'atomman/defect/Dislocation/_periodicarray.py'
_SRC_PLANE = 'atomman/region/Plane.py'
_SRC_PLANESET = 'atomman/region/PlaneSet.py'
_SRC_CYL = 'atomman/region/Cylinder.py'
_SRC_SHAPE = 'atomman/region/Shape.py'
_SRC_DISREG = 'atomman/defect/disregistry.py'


def _u(node):
    return _ast.unparse(node)


def _fail(what, node=None):
    raise TranslationError(what + ('' if node is None else ': ' + _u(node)[:120]))


def _lstr(s):
    return '"' + s.replace('\\', '\\\\').replace('"', '\\"').replace('\n', '\\n') + '"'


def _lstrs(l):
    return '[' + ', '.join(_lstr(s) for s in l) + ']'


_CMP = {_ast.Gt: '>', _ast.Lt: '<', _ast.GtE: '≥', _ast.LtE: '≤', _ast.Eq: '=', _ast.NotEq: '≠'}
_CMPNAME = {_ast.Gt: 'Gt', _ast.Lt: 'Lt', _ast.GtE: 'GtE', _ast.LtE: 'LtE', _ast.Eq: 'Eq', _ast.NotEq: 'NotEq'}


def _klit(v):
    """a Python numeric literal as a term of the scalar type K (IntCast / One / Zero / Div only)."""
    f = F(v)
    if f == 0:
        return '(0 : K)'
    if f == 1:
        return '(1 : K)'
    neg = f < 0
    f = abs(f)
    num = '(1 : K)' if f.numerator == 1 else f'(({f.numerator} : Int) : K)'
    s = num if f.denominator == 1 else f'({num} / (({f.denominator} : Int) : K))'
    return f'(-{s})' if neg else s


class _Cx:
    """Python expression -> Lean term.  env: unparse(sub-expression) -> (lean, type), type in K | Int | Nat | Bool | V.
    Literals take the type of the other operand (default `dflt`)."""

    def __init__(self, env, dflt='K'):
        self.env = dict(env)
        self.dflt = dflt

    def lit(self, v, ty):
        if ty == 'K':
            return _klit(v)
        if isinstance(v, float) and v != int(v):
            _fail(f'non-integer literal {v!r} in an integer expression')
        v = int(v)
        if ty == 'Nat':
            if v < 0:
                _fail('negative literal compared with an index')
            return f'{v}'
        return f'({v} : Int)' if v >= 0 else f'(-{-v} : Int)'

    def is_lit(self, node):
        return isinstance(node, _ast.Constant) and isinstance(node.value, (int, float)) \
            and not isinstance(node.value, bool)

    def pair(self, a, b):
        """translate two operands that must have the same numeric type."""
        if self.is_lit(a) and self.is_lit(b):
            return self.lit(a.value, self.dflt), self.lit(b.value, self.dflt), self.dflt
        if self.is_lit(a):
            sb, tb = self.tr(b)
            return self.lit(a.value, tb), sb, tb
        if self.is_lit(b):
            sa, ta = self.tr(a)
            return sa, self.lit(b.value, ta), ta
        sa, ta = self.tr(a)
        sb, tb = self.tr(b)
        if ta != tb:
            _fail(f'operands of types {ta} and {tb}', a)
        return sa, sb, ta

    def tr(self, node):
        key = _u(node)
        if key in self.env:
            return self.env[key]
        if self.is_lit(node):
            return self.lit(node.value, self.dflt), self.dflt
        if isinstance(node, _ast.Constant) and isinstance(node.value, bool):
            return ('true' if node.value else 'false'), 'Bool'
        if isinstance(node, _ast.UnaryOp) and isinstance(node.op, _ast.USub):
            s, t = self.tr(node.operand)
            return f'(-{s})', t
        if isinstance(node, _ast.UnaryOp) and isinstance(node.op, _ast.Not):
            s, t = self.tr(node.operand)
            if t != 'Bool':
                _fail('not of a non-boolean', node)
            return f'(!{s})', 'Bool'
        if isinstance(node, _ast.BinOp):
            op = node.op
            if isinstance(op, (_ast.BitOr, _ast.BitAnd)):
                sa, ta = self.tr(node.left)
                sb, tb = self.tr(node.right)
                if ta != 'Bool' or tb != 'Bool':
                    _fail('| or & of non-booleans', node)
                return f'({sa} {"||" if isinstance(op, _ast.BitOr) else "&&"} {sb})', 'Bool'
            sa, sb, t = self.pair(node.left, node.right)
            if isinstance(op, _ast.Add):
                return f'({sa} + {sb})', t
            if isinstance(op, _ast.Sub):
                return f'({sa} - {sb})', t
            if isinstance(op, _ast.Mult):
                return f'({sa} * {sb})', t
            if isinstance(op, _ast.Div) and t == 'K':
                return f'({sa} / {sb})', t
            if isinstance(op, _ast.FloorDiv) and t == 'Int':
                if not (self.is_lit(node.right) and node.right.value > 0):
                    _fail('floor division by a non-literal', node)
                return f'({sa} / {sb})', t         # Int./ is floor division for a positive divisor
            if isinstance(op, _ast.Mod) and t == 'Int':
                if not (self.is_lit(node.right) and node.right.value > 0):
                    _fail('modulus by a non-literal', node)
                return f'({sa} % {sb})', t
            _fail('operator not in the translated subset', node)
        if isinstance(node, _ast.Compare) and len(node.ops) == 1 and type(node.ops[0]) in _CMP:
            sa, sb, t = self.pair(node.left, node.comparators[0])
            if t not in ('K', 'Int', 'Nat'):
                _fail('comparison of non-numbers', node)
            return f'decide ({sa} {_CMP[type(node.ops[0])]} {sb})', 'Bool'
        if isinstance(node, _ast.BoolOp):
            parts = []
            for v in node.values:
                s, t = self.tr(v)
                if t != 'Bool':
                    _fail('and/or of a non-boolean', v)
                parts.append(s)
            return '(' + (' && ' if isinstance(node.op, _ast.And) else ' || ').join(parts) + ')', 'Bool'
        _fail('expression not in the translated subset', node)


def _is_none_test(node):
    """`X is None` / `X is not None` -> (name, is_not)."""
    if isinstance(node, _ast.Compare) and len(node.ops) == 1 and isinstance(node.ops[0], (_ast.Is, _ast.IsNot)) \
            and isinstance(node.left, _ast.Name) and isinstance(node.comparators[0], _ast.Constant) \
            and node.comparators[0].value is None:
        return node.left.id, isinstance(node.ops[0], _ast.IsNot)
    return None


def _signature(fn):
    a = fn.args
    if a.vararg or a.kwarg or a.kwonlyargs or a.posonlyargs:
        _fail(f'{fn.name}: signature with * / ** / keyword-only parameters')
    names = [x.arg for x in a.args]
    defaults = [None] * (len(names) - len(a.defaults)) + [_u(d) for d in a.defaults]
    return [(n, '' if d is None else d) for n, d in zip(names, defaults) if n != 'self']


def _lsig(sig):
    return '[' + ', '.join(f'({_lstr(n)}, {_lstr(d)})' for n, d in sig) + ']'


def _find(stmts, pred, what, start=0):
    for i in range(start, len(stmts)):
        if pred(stmts[i]):
            return i
    _fail(f'statement not found: {what}')


def _line_index(node, what):
    """`self.lineindex` / `self.lineindex - k` (k = 1, 2) as a position of a 3-list (Python negative indexing):
    returns k."""
    s = _u(node)
    if s == 'self.lineindex':
        return 0
    if isinstance(node, _ast.BinOp) and isinstance(node.op, _ast.Sub) and _u(node.left) == 'self.lineindex' \
            and isinstance(node.right, _ast.Constant) and node.right.value in (1, 2):
        return node.right.value
    _fail(f'{what}: index is not self.lineindex [- 1|2]', node)


def _lidx(k):
    return 'line' if k == 0 else f'((line + {3 - k}) % 3)'


# ---- pieces ------------------------------------------------------------------------------

def _tr_mults(fn, pre, out):
    """default / checked size multipliers, the amin/bmin/cmin blocks, the (lo, hi) pairs; returns the index after them."""
    body = strip_doc(fn.body)
    i0 = _find(body, lambda s: isinstance(s, _ast.If) and _is_none_test(s.test) == ('sizemults', False), 'if sizemults is None')
    st = body[i0]
    # default
    if len(st.body) != 2 or _u(st.body[0].targets[0]) != 'sizemults' or not isinstance(st.body[0].value, _ast.List):
        _fail(f'{fn.name}: default sizemults', st.body[0])
    dflt = [e.value for e in st.body[0].value.elts]
    a1 = st.body[1]
    if len(dflt) != 3 or not isinstance(a1, _ast.Assign) or _u(a1.targets[0]) != 'sizemults[self.lineindex]' \
            or not isinstance(a1.value, _ast.Constant):
        _fail(f'{fn.name}: default sizemults', a1)
    one = a1.value.value
    out.append(f'/-- `{_u(st.body[0])}; {_u(a1)}` -/')
    out.append(f'def {pre}DefaultMults (line : Nat) : V3 Int :=\n  ⟨' + ', '.join(
        f'if line = {k} then {one} else {dflt[k]}' for k in range(3)) + '⟩\n')
    # checked: the try block
    tries = [s for s in st.orelse if isinstance(s, _ast.Try)]
    if len(tries) != 1:
        _fail(f'{fn.name}: try block of the sizemults check')
    tr = tries[0]
    if len(tr.handlers) != 1 or _u(tr.handlers[0].type) != 'AssertionError' \
            or not isinstance(tr.handlers[0].body[0], _ast.Raise) \
            or not _u(tr.handlers[0].body[0].exc).startswith('TypeError('):
        _fail(f'{fn.name}: the sizemults check must turn AssertionError into TypeError')
    rest = [s for s in st.orelse if s is not tr]
    for s in rest:
        if _u(s) not in ('sizemults = deepcopy(sizemults)', 'sizemults = list(sizemults)'):
            _fail(f'{fn.name}: statement beside the sizemults check', s)
    conj = []
    for a in tr.body:
        if not isinstance(a, _ast.Assert):
            _fail(f'{fn.name}: non-assert in the sizemults check', a)
        conj.append(_tr_mult_assert(a.test, fn.name))
    out.append('/-- the asserts of the `try:` block in order (`len n`, `isInt i` = `isinstance(sizemults[i], int)`,\n'
               '    `val i` = `sizemults[i]`); `false` = TypeError. -/')
    out.append(f'def {pre}CheckMults (line : Nat) (n : Nat) (isInt : Nat → Bool) (val : Nat → Int) : Bool :=\n  '
               + ' &&\n  '.join(conj) + '\n')
    # the three minimum blocks
    pos = i0 + 1
    for k, (mn, bl) in enumerate((('amin', 'a'), ('bmin', 'b'), ('cmin', 'c'))):
        s = body[pos]
        pos += 1
        if not isinstance(s, _ast.If) or s.orelse:
            _fail(f'{fn.name}: expected the {mn} block', s)
        mult = mn[0] + 'mult'
        env = {mn: ('vmin', 'K'), f'self.rcell.box.{bl}': ('len', 'K'), 'self.lineindex': ('line', 'Nat'),
               f'sizemults[{k}]': ('cur', 'Int')}
        cx = _Cx(env, 'K')
        guard, _ = cx.tr(s.test)
        lines = []
        for t in s.body:
            if isinstance(t, _ast.Assign) and _u(t.targets[0]) == mult:
                v = t.value
                if not (isinstance(v, _ast.Call) and _u(v.func) == 'int' and len(v.args) == 1
                        and isinstance(v.args[0], _ast.Call) and _u(v.args[0].func) == 'np.ceil'
                        and len(v.args[0].args) == 1):
                    _fail(f'{fn.name}: {mult} is not int(np.ceil(…))', t)
                q, tq = cx.tr(v.args[0].args[0])
                if tq != 'K':
                    _fail(f'{fn.name}: argument of ceil', t)
                lines.append(f'let m : Int := ceil {q}')
                cx.env[mult] = ('m', 'Int')
            elif isinstance(t, _ast.If) and not t.orelse and len(t.body) == 1:
                c, _ = cx.tr(t.test)
                b = t.body[0]
                if isinstance(b, _ast.AugAssign) and _u(b.target) == mult and isinstance(b.op, _ast.Add):
                    inc, _ = _Cx(cx.env, 'Int').tr(b.value)
                    lines.append(f'let m : Int := if {c} then m + {inc} else m')
                elif isinstance(b, _ast.Assign) and _u(b.targets[0]) == f'sizemults[{k}]':
                    v, tv = cx.tr(b.value)
                    if tv != 'Int':
                        _fail(f'{fn.name}: value stored into sizemults[{k}]', b)
                    lines.append(f'let cur : Int := if {c} then {v} else cur')
                else:
                    _fail(f'{fn.name}: statement of the {mn} block', t)
            else:
                _fail(f'{fn.name}: statement of the {mn} block', t)
        out.append(f'/-- the `{mn}` block: `{_u(s.test)}` … -/')
        out.append(f'def {pre}Min{k} (ceil : K → Int) (line : Nat) (vmin len : K) (cur : Int) : Int :=\n'
                   f'  if {guard} then\n    ' + '\n    '.join(lines) + '\n    cur\n  else cur\n')
    # the (lo, hi) pairs
    seen = []
    for _ in range(3):
        s = body[pos]
        pos += 1
        if not (isinstance(s, _ast.Assign) and isinstance(s.targets[0], _ast.Subscript)
                and _u(s.targets[0].value) == 'sizemults' and isinstance(s.value, _ast.Tuple) and len(s.value.elts) == 2):
            _fail(f'{fn.name}: expected sizemults[…] = (lo, hi)', s)
        k = _line_index(s.targets[0].slice, fn.name)
        cx = _Cx({_u(s.targets[0]): ('s', 'Int')}, 'Int')
        lo, tl = cx.tr(s.value.elts[0])
        hi, th = cx.tr(s.value.elts[1])
        seen.append(k)
        out.append(f'/-- `{_u(s)}` -/')
        out.append(f'def {pre}Size{k} (s : Int) : Int × Int := ({lo}, {hi})\n')
    if sorted(seen) != [0, 1, 2]:
        _fail(f'{fn.name}: the three (lo, hi) assignments do not cover the three directions')
    return pos


def _tr_mult_assert(test, fname):
    u = _u(test)
    if u == 'len(sizemults) == 3':
        return 'decide (n = 3)'
    if isinstance(test, _ast.BoolOp) and isinstance(test.op, _ast.And) and len(test.values) == 2:
        a, b = test.values
        if isinstance(a, _ast.Call) and _u(a.func) == 'isinstance' and _u(a.args[1]) == 'int' \
                and isinstance(a.args[0], _ast.Subscript) and _u(a.args[0].value) == 'sizemults' \
                and isinstance(a.args[0].slice, _ast.Constant) and a.args[0].slice.value in (0, 1, 2):
            k = a.args[0].slice.value
            c, _ = _Cx({f'sizemults[{k}]': (f'val {k}', 'Int')}, 'Int').tr(b)
            return f'(isInt {k} && {c})'
    if isinstance(test, _ast.Compare) and isinstance(test.left, _ast.BinOp) \
            and isinstance(test.left.left, _ast.Subscript) and _u(test.left.left.value) == 'sizemults':
        k = _line_index(test.left.left.slice, fname)
        c, _ = _Cx({_u(test.left.left): (f'val {_lidx(k)}', 'Int')}, 'Int').tr(test)
        return c
    _fail(f'{fname}: assert of the sizemults check not recognised', test)


def _tr_shift_given(fn, body, pos, pre, out):
    s = body[pos]
    if not (isinstance(s, _ast.If) and not s.orelse and len(s.body) == 1 and isinstance(s.test, _ast.BoolOp)):
        _fail(f'{fn.name}: expected the shift handling', s)
    parts = []
    for v in s.test.values:
        nt = _is_none_test(v)
        if nt is None or nt[0] not in ('shift', 'shiftindex'):
            _fail(f'{fn.name}: test of the shift handling', v)
        parts.append(f'{nt[0]}.isSome' if nt[1] else f'{nt[0]}.isNone')
    join = ' || ' if isinstance(s.test.op, _ast.Or) else ' && '
    call = s.body[0]
    if not (isinstance(call, _ast.Expr) and isinstance(call.value, _ast.Call) and _u(call.value.func) == 'self.set_shift'
            and not call.value.keywords):
        _fail(f'{fn.name}: the shift handling must call self.set_shift positionally', call)
    args = [_u(a) for a in call.value.args]
    nxt = body[pos + 1]
    if _u(nxt) != 'shift = self.shift':
        _fail(f'{fn.name}: expected `shift = self.shift` after the shift handling', nxt)
    out.append(f'/-- `{_u(s.test)}`: does the generator call `set_shift` at all -/')
    out.append(f'def {pre}ShiftGiven {{α β : Type}} (shift : Option α) (shiftindex : Option β) : Bool :=\n  {join.join(parts)}\n')
    out.append(f'/-- the arguments handed to `self.set_shift(…)`, positionally; afterwards `shift = self.shift` -/')
    out.append(f'def {pre}SetShiftArgs : List String := {_lstrs(args)}\n')
    return pos + 2


def _tr_center_width(fn, body, pos, pre, out, with_shape):
    s = body[pos]
    if not (isinstance(s, _ast.If) and _is_none_test(s.test) in (('center', False), ('center', True))
            and len(s.body) == 1 and len(s.orelse) == 1):
        _fail(f'{fn.name}: expected the centre handling', s)
    isnot = _is_none_test(s.test)[1]
    none_b, some_b = (s.orelse[0], s.body[0]) if isnot else (s.body[0], s.orelse[0])

    def cval(st, given):
        if not (isinstance(st, _ast.Assign) and _u(st.targets[0]) == 'center'):
            _fail(f'{fn.name}: centre handling', st)
        v = st.value
        if isinstance(v, _ast.Call) and _u(v.func) in ('np.array', 'np.asarray') and len(v.args) == 1:
            a = v.args[0]
            if isinstance(a, _ast.List) and len(a.elts) == 3 and all(isinstance(e, _ast.Constant) for e in a.elts):
                return '⟨' + ', '.join(_klit(e.value) for e in a.elts) + '⟩'
            if given and _u(a) == 'center':
                return 'cv'
        _fail(f'{fn.name}: centre handling', st)
    c_none = cval(none_b, False)
    c_some = cval(some_b, True)
    s2 = body[pos + 1]
    if not (isinstance(s2, _ast.If) and not s2.orelse and len(s2.body) == 1 and isinstance(s2.test, _ast.Name)
            and s2.test.id == 'centerscale'
            and _u(s2.body[0]) == 'center = self.rcell.box.vector_crystal_to_cartesian(center)'):
        _fail(f'{fn.name}: expected `if centerscale: center = self.rcell.box.vector_crystal_to_cartesian(center)`', s2)
    out.append(f'/-- `{_u(s.test)}` … ; `if centerscale:` the row combination of the box vectors of the rotated cell\n'
               f'    (`vects` = `self.rcell.box.vects`; `Box.vector_crystal_to_cartesian` is C16\'s) -/')
    out.append(f'def {pre}Center (vects : M3 K) (center : Option (V3 K)) (centerscale : Bool) : V3 K :=\n'
               f'  let center : V3 K := match center with\n    | none => {c_none}\n    | some cv => {c_some}\n'
               f'  if centerscale then M3.vecMul center vects else center\n')
    s3 = body[pos + 2]
    if not (isinstance(s3, _ast.If) and not s3.orelse and len(s3.body) == 1 and isinstance(s3.test, _ast.Name)
            and s3.test.id == 'boundaryscale' and isinstance(s3.body[0], _ast.Assign)
            and _u(s3.body[0].targets[0]) == 'boundarywidth'):
        _fail(f'{fn.name}: expected the boundaryscale handling', s3)
    w, tw = _Cx({'boundarywidth': ('width', 'K'), 'self.ucell.box.a': ('ucellA', 'K')}, 'K').tr(s3.body[0].value)
    out.append(f'/-- `if boundaryscale: {_u(s3.body[0])}` (`ucellA` = `self.ucell.box.a`: the unit cell GIVEN to the class) -/')
    out.append(f'def {pre}Width (ucellA width : K) (boundaryscale : Bool) : K :=\n  if boundaryscale then {w} else width\n')
    pos += 3
    if with_shape:
        s4 = body[pos]
        if not (isinstance(s4, _ast.If) and not s4.orelse and isinstance(s4.test, _ast.Compare)
                and isinstance(s4.test.ops[0], _ast.NotIn) and _u(s4.test.left) == 'boundaryshape'
                and isinstance(s4.test.comparators[0], (_ast.List, _ast.Tuple))
                and isinstance(s4.body[0], _ast.Raise) and _u(s4.body[0].exc).startswith('ValueError(')):
            _fail(f'{fn.name}: expected the boundaryshape refusal', s4)
        shapes = [e.value for e in s4.test.comparators[0].elts]
        out.append(f'/-- `{_u(s4.test)}` -> ValueError -/')
        out.append(f'def {pre}Shapes : List String := {_lstrs(shapes)}\n')
        pos += 1
    return pos


def _tr_core(fn, body, pos, pre, out, upto):
    """the statements between the option handling and the boundary step, as normalised text (calls into System /
    the solver, which are other properties' models), plus the pbc pattern as a definition."""
    stmts = []
    while pos < len(body) and not upto(body[pos]):
        stmts.append(_u(body[pos]))
        pos += 1
    out.append(f'/-- the statements of `{fn.name}` between the option handling and the boundary step, in order -/')
    out.append(f'def {pre}Core : List String :=\n  [' + ',\n   '.join(_lstr(s) for s in stmts) + ']\n')
    return pos


def _tr_pbc(stmts, var, idxname, pre, out, defname):
    """`var = [c, c, c]; var[self.<idx>] = d` -> V3 Bool."""
    a = [s for s in stmts if isinstance(s, _ast.Assign) and _u(s.targets[0]) == var and isinstance(s.value, _ast.List)]
    b = [s for s in stmts if isinstance(s, _ast.Assign) and _u(s.targets[0]) in (f'{var}[self.{idxname}]', f'{var}[{idxname}]')]
    if len(a) != 1 or len(b) != 1 or len(a[0].value.elts) != 3:
        _fail(f'{defname}: pbc pattern of {var}')
    base = [e.value for e in a[0].value.elts]
    d = b[0].value.value
    if not all(isinstance(x, bool) for x in base + [d]):
        _fail(f'{defname}: pbc pattern of {var}')
    lb = lambda x: 'true' if x else 'false'
    out.append(f'/-- `{_u(a[0])}; {_u(b[0])}` -/')
    out.append(f'def {defname} (i : Nat) : V3 Bool :=\n  ⟨' + ', '.join(
        f'if i = {k} then {lb(d)} else {lb(base[k])}' for k in range(3)) + '⟩\n')


def _tr_boundary_step(fn, st, pre, out, shapes):
    """`if boundarywidth > 0.0:` … re-typing."""
    if not (isinstance(st, _ast.If) and not st.orelse):
        _fail(f'{fn.name}: expected the boundary step', st)
    g, _ = _Cx({'boundarywidth': ('width', 'K')}, 'K').tr(st.test)
    out.append(f'/-- `if {_u(st.test)}:` the boundary step is taken -/')
    out.append(f'def {pre}BoundaryGuard (width : K) : Bool := {g}\n')
    disp = []
    rest = list(st.body)
    if shapes:
        sel = rest.pop(0)
        node = sel
        while True:
            if not (isinstance(node, _ast.If) and isinstance(node.test, _ast.Compare) and isinstance(node.test.ops[0], _ast.Eq)
                    and _u(node.test.left) == 'boundaryshape' and len(node.body) == 1
                    and isinstance(node.body[0], _ast.Assign) and _u(node.body[0].targets[0]) == 'shape'
                    and isinstance(node.body[0].value, _ast.Call) and not node.body[0].value.keywords):
                _fail(f'{fn.name}: boundary shape dispatch', node)
            c = node.body[0].value
            disp.append((node.test.comparators[0].value, _u(c.func), [_u(a) for a in c.args]))
            if not node.orelse:
                break
            if len(node.orelse) != 1:
                _fail(f'{fn.name}: boundary shape dispatch', node)
            node = node.orelse[0]
    else:
        sel = rest.pop(0)
        if not (isinstance(sel, _ast.Assign) and _u(sel.targets[0]) == 'shape' and isinstance(sel.value, _ast.Call)):
            _fail(f'{fn.name}: boundary shape', sel)
        disp.append(('', _u(sel.value.func), [_u(a) for a in sel.value.args]))
    out.append(f'/-- which region builder is called for which `boundaryshape`, with which arguments -/')
    out.append(f'def {pre}Dispatch : List (String × String × List String) :=\n  ['
               + ', '.join(f'({_lstr(a)}, {_lstr(b)}, {_lstrs(c)})' for a, b, c in disp) + ']\n')
    if len(rest) != 2:
        _fail(f'{fn.name}: boundary step has {len(rest)} statements after the region')
    r = rest[0]
    if not (isinstance(r, _ast.AugAssign) and isinstance(r.op, _ast.Add) and isinstance(r.target, _ast.Subscript)
            and isinstance(r.target.slice, _ast.Call) and not r.target.slice.keywords):
        _fail(f'{fn.name}: re-typing statement', r)
    out.append(f'/-- `{_u(r)}`: (array re-typed, selector, positions tested, increment) -/')
    out.append(f'def {pre}Retype : List String := {_lstrs([_u(r.target.value), _u(r.target.slice.func)] + [_u(a) for a in r.target.slice.args] + [_u(r.value)])}\n')
    out.append(f'def {pre}RetypeSymbols : String := {_lstr(_u(rest[1]))}\n')


def _tr_planes_fn(fn, idxname, out, defname):
    """box_boundary / array_boundary: which planes of `box.planes`, and `plane.point -= width * plane.normal`."""
    body = strip_doc(fn.body)
    ret = body[-1]
    if _u(ret) != 'return PlaneSet(planes)':
        _fail(f'{fn.name}: must return PlaneSet(planes)', ret)
    shift = body[-2]
    if not (isinstance(shift, _ast.For) and _u(shift.target) == 'plane' and _u(shift.iter) == 'planes' and len(shift.body) == 1
            and isinstance(shift.body[0], _ast.AugAssign) and _u(shift.body[0].target) == 'plane.point'):
        _fail(f'{fn.name}: plane shift loop', shift)
    au = shift.body[0]
    cx = _Cx({'width': ('width', 'K'), 'plane.normal': ('nrm', 'K')}, 'K')     # component-wise: one component shown
    v, _ = cx.tr(au.value)
    op = {_ast.Sub: '-', _ast.Add: '+'}.get(type(au.op))
    if op is None:
        _fail(f'{fn.name}: plane shift', au)
    out.append(f'/-- `{_u(au)}` (one component: `pt` of the point, `nrm` of the unit normal) -/')
    out.append(f'def {defname}Shift (width pt nrm : K) : K := pt {op} {v}\n')
    first = body[0]
    if idxname == 'cutindex':
        if not (isinstance(first, _ast.Assign) and _u(first.targets[0]) == 'planes' and isinstance(first.value, _ast.List)
                and len(body) == 3):
            _fail(f'{fn.name}: planes list', first)
        idx = []
        for e in first.value.elts:
            if not (isinstance(e, _ast.Subscript) and _u(e.value) == 'box.planes'):
                _fail(f'{fn.name}: planes list', e)
            s, t = _Cx({'self.cutindex': ('cut', 'Nat')}, 'Nat').tr(e.slice)
            idx.append(s)
        out.append(f'/-- `{_u(first)}` -/')
        out.append(f'def {defname}Idx (cut : Nat) : List Nat := [' + ', '.join(idx) + ']\n')
    else:
        loop = body[1]
        if not (_u(first) == 'planes = []' and isinstance(loop, _ast.For) and _u(loop.iter) == 'range(3)'
                and _u(loop.target) == 'i' and len(body) == 4 and len(loop.body) == 3):
            _fail(f'{fn.name}: planes loop', loop)
        skip = loop.body[0]
        if not (isinstance(skip, _ast.If) and isinstance(skip.body[0], _ast.Continue) and not skip.orelse):
            _fail(f'{fn.name}: planes loop', skip)
        cond, _ = _Cx({'i': ('i', 'Nat'), 'self.lineindex': ('line', 'Nat')}, 'Nat').tr(skip.test)
        idx = []
        for ap in loop.body[1:]:
            if not (isinstance(ap, _ast.Expr) and isinstance(ap.value, _ast.Call) and _u(ap.value.func) == 'planes.append'
                    and isinstance(ap.value.args[0], _ast.Subscript) and _u(ap.value.args[0].value) == 'box.planes'):
                _fail(f'{fn.name}: planes loop', ap)
            s, t = _Cx({'i': ('i', 'Nat')}, 'Nat').tr(ap.value.args[0].slice)
            idx.append(s)
        out.append(f'/-- `for i in range(3): if {_u(skip.test)}: continue; planes.append(box.planes[…]) …` -/')
        out.append(f'def {defname}Idx (line : Nat) : List Nat :=\n  ([0, 1, 2].filter fun i => !({cond})).flatMap fun i => ['
                   + ', '.join(idx) + ']\n')


def _tr_regions(out):
    # Plane.below
    fn = get_function(cm.source(_SRC_PLANE), 'below')
    body = strip_doc(fn.body)
    us = [_u(s) for s in body[:3]]
    if us != ['pos = np.asarray(pos)', 'normpoint = np.dot(self.normal, self.point)', 'normpos = np.inner(self.normal, pos)']:
        _fail('Plane.below: head', body[0])
    sel = body[3]
    if not (isinstance(sel, _ast.If) and _u(sel.test) == 'inclusive' and isinstance(sel.body[0], _ast.Return)
            and isinstance(sel.orelse[0], _ast.Return) and len(body) == 4):
        _fail('Plane.below: selection', sel)
    cx = _Cx({'normpos': ('normpos', 'K'), 'normpoint': ('normpoint', 'K')}, 'K')
    out.append('/-- `Plane.below`: `normpos = n̂·pos`, `normpoint = n̂·point` -/')
    out.append(f'def planeBelow (inclusive : Bool) (normpos normpoint : K) : Bool :=\n'
               f'  if inclusive then {cx.tr(sel.body[0].value)[0]} else {cx.tr(sel.orelse[0].value)[0]}\n')
    # Plane.normal setter normalises
    cls = [n for n in _ast.walk(_ast.parse(cm.source(_SRC_PLANE))) if isinstance(n, _ast.ClassDef) and n.name == 'Plane'][0]
    setters = [n for n in cls.body if isinstance(n, _ast.FunctionDef) and n.name == 'normal'
               and any(_u(d) == 'normal.setter' for d in n.decorator_list)]
    if len(setters) != 1 or _u(setters[0].body[-1]) != 'self.__normal = value / np.linalg.norm(value)':
        _fail('Plane.normal setter no longer stores value / |value|')
    # PlaneSet.inside
    fn = get_function(cm.source(_SRC_PLANESET), 'inside')
    body = strip_doc(fn.body)
    us = [_u(s) for s in body]
    if us != ['pos = np.asarray(pos)', 'insideplanes = np.ones(len(pos), dtype=bool)',
              'for plane in self.planes:\n    insideplanes = insideplanes & plane.below(pos, inclusive=inclusive)',
              'return insideplanes']:
        _fail('PlaneSet.inside is no longer the conjunction of plane.below(pos, inclusive) over the planes')
    out.append('/-- `PlaneSet.inside`: `np.ones` then `insideplanes & plane.below(pos, inclusive=inclusive)` per plane -/')
    out.append('def planeSetInside (inclusive : Bool) (below : List (Bool → Bool)) : Bool :=\n'
               '  below.foldl (fun acc b => acc && b inclusive) true\n')
    # Shape.outside
    fn = get_function(cm.source(_SRC_SHAPE), 'outside')
    sig = dict(_signature(fn))
    body = strip_doc(fn.body)
    if len(body) != 1 or _u(body[0]) != 'return ~self.inside(pos, inclusive=not inclusive)' or sig.get('inclusive') != 'False':
        _fail('Shape.outside is no longer ~inside(pos, inclusive=not inclusive) with inclusive=False by default')
    out.append('/-- `Shape.outside(pos, inclusive=False)` = `~self.inside(pos, inclusive=not inclusive)` -/')
    out.append('def shapeOutside (inside : Bool → Bool) (inclusive : Bool := false) : Bool := !(inside (!inclusive))\n')
    # Cylinder.inside
    fn = get_function(cm.source(_SRC_CYL), 'inside')
    body = strip_doc(fn.body)
    us = [_u(s) for s in body[:3]]
    if us != ['pos = np.asarray(pos)', 'axis = self.axis',
              'distfromaxis = np.linalg.norm(np.cross(pos - self.center1, axis), axis=-1)']:
        _fail('Cylinder.inside: head', body[0])
    sel = body[3]
    if not (isinstance(sel, _ast.If) and _u(sel.test) == 'inclusive' and _u(sel.body[0].targets[0]) == 'insidecircle'
            and _u(sel.orelse[0].targets[0]) == 'insidecircle'):
        _fail('Cylinder.inside: selection', sel)
    cx = _Cx({'distfromaxis': ('dist', 'K'), 'self.radius': ('radius', 'K')}, 'K')
    caps = body[4]
    if not (isinstance(caps, _ast.If) and _u(caps.test) == 'self.endcaps' and _u(caps.orelse[0]) == 'return insidecircle'):
        _fail('Cylinder.inside: endcaps', caps)
    out.append('/-- `Cylinder.inside` without end caps: `dist = |(pos - center1) × axis|` -/')
    out.append(f'def cylInside (inclusive : Bool) (dist radius : K) : Bool :=\n'
               f'  if inclusive then {cx.tr(sel.body[0].value)[0]} else {cx.tr(sel.orelse[0].value)[0]}\n')
    # Cylinder.radius setter
    cls = [n for n in _ast.walk(_ast.parse(cm.source(_SRC_CYL))) if isinstance(n, _ast.ClassDef) and n.name == 'Cylinder'][0]
    setters = [n for n in cls.body if isinstance(n, _ast.FunctionDef) and n.name == 'radius'
               and any(_u(d) == 'radius.setter' for d in n.decorator_list)]
    asserts = [s for s in setters[0].body if isinstance(s, _ast.Assert)] if len(setters) == 1 else []
    if len(asserts) != 1:
        _fail('Cylinder.radius setter: assertion')
    out.append(f'/-- `{_u(asserts[0])[:60]}` (Cylinder.radius setter) -/')
    out.append(f'def cylRadiusOk (value : K) : Bool := {_Cx({"value": ("value", "K")}, "K").tr(asserts[0].test)[0]}\n')


def _tr_cylinder_boundary(out):
    fn = get_function(cm.source(_SRC_MONO), 'cylinder_boundary')
    body = strip_doc(fn.body)
    by = {}
    for s in body:
        if isinstance(s, _ast.Assign) and isinstance(s.targets[0], _ast.Name):
            by.setdefault(s.targets[0].id, []).append(s)
    def one(name):
        if len(by.get(name, [])) != 1:
            _fail(f'cylinder_boundary: {name} assigned {len(by.get(name, []))} times')
        return by[name][0]
    if _u(one('mn').value) != 'np.array([self.dislsol.m, self.dislsol.n])':
        _fail('cylinder_boundary: mn', one('mn'))
    rows = []
    for nm in ('vect1', 'vect2'):
        v = one(nm).value
        if not (isinstance(v, _ast.Call) and _u(v.func) == 'mn.dot' and isinstance(v.args[0], _ast.Subscript)
                and _u(v.args[0].value) == 'box.vects'):
            _fail(f'cylinder_boundary: {nm}', v)
        rows.append(_line_index(v.args[0].slice, 'cylinder_boundary'))
    if _u(one('origin').value) != 'mn.dot(box.origin)':
        _fail('cylinder_boundary: origin', one('origin'))
    out.append('/-- rows of `box.vects` projected on (m, n): `vect1`, `vect2` -/')
    out.append(f'def cylRows (line : Nat) : Nat × Nat := ({_lidx(rows[0])}, {_lidx(rows[1])})\n')
    # the four boundary lines: (point offset, direction) in terms of vect1 / vect2
    lines = []
    for nm in ('bound_bot1', 'bound_bot2', 'bound_top1', 'bound_top2'):
        v = one(nm).value
        if not (isinstance(v, _ast.Call) and _u(v.func) == 'line' and len(v.args) == 2):
            _fail(f'cylinder_boundary: {nm}', v)
        lines.append([_u(a) for a in v.args])
    out.append('/-- the two points defining each boundary line `bot1, bot2, top1, top2` -/')
    out.append('def cylBoundLines : List (List String) :=\n  [' + ', '.join(_lstrs(l) for l in lines) + ']\n')
    inter = one('intersections').value
    if not (isinstance(inter, _ast.Call) and _u(inter.func) == 'np.array' and isinstance(inter.args[0], _ast.List)):
        _fail('cylinder_boundary: intersections', inter)
    out.append('/-- which normal line meets which boundary line -/')
    out.append('def cylIntersections : List (List String) :=\n  [' + ', '.join(
        _lstrs([_u(a) for a in e.args]) for e in inter.args[0].elts) + ']\n')
    normals = [(_u(one(nm).value)) for nm in ('normal_line_1', 'normal_line_2')]
    nv = []
    for nm in ('normal_vect1', 'normal_vect2'):
        first = by.get(nm, [None])[0]
        if first is None or len(by[nm]) != 2 or _u(by[nm][1].value) != f'{nm} / np.linalg.norm({nm})':
            _fail(f'cylinder_boundary: {nm}')
        nv.append(_u(first.value))
    out.append('/-- the normal lines start at (0, 0); un-normalised normals of vect1 / vect2 -/')
    out.append(f'def cylNormals : List String := {_lstrs(normals + nv)}\n')
    if _u(one('smallest').value) != 'np.min(np.linalg.norm(intersections, axis=1))':
        _fail('cylinder_boundary: smallest', one('smallest'))
    r, _ = _Cx({'smallest': ('smallest', 'K'), 'width': ('width', 'K')}, 'K').tr(one('radius').value)
    out.append(f'/-- `{_u(one("radius"))}` -/')
    out.append(f'def cylRadius (smallest width : K) : K := {r}\n')
    ret = body[-1]
    out.append('/-- the Cylinder returned: axis from `center1` to `center2` -/')
    out.append(f'def cylReturn : List String := {_lstrs([_u(one("center1").value), _u(one("center2").value), _u(ret)])}\n')
    # line / intersection as formulas
    lf = get_function(cm.source(_SRC_MONO), 'line', inside='cylinder_boundary')
    env = {'p1[0]': ('p1.1', 'K'), 'p1[1]': ('p1.2', 'K'), 'p2[0]': ('p2.1', 'K'), 'p2[1]': ('p2.2', 'K')}
    cx = _Cx(env, 'K')
    lb = strip_doc(lf.body)
    lets = []
    for s in lb[:-1]:
        if not (isinstance(s, _ast.Assign) and isinstance(s.targets[0], _ast.Name)):
            _fail('cylinder_boundary.line', s)
        v, _ = cx.tr(s.value)
        lets.append(f'let {s.targets[0].id} : K := {v}')
        cx.env[s.targets[0].id] = (s.targets[0].id, 'K')
    if not (isinstance(lb[-1], _ast.Return) and isinstance(lb[-1].value, _ast.Tuple) and len(lb[-1].value.elts) == 3):
        _fail('cylinder_boundary.line: return', lb[-1])
    outs = [cx.tr(e)[0] for e in lb[-1].value.elts]
    out.append('/-- `line(p1, p2)` of cylinder_boundary -/')
    out.append('def cylLine (p1 p2 : K × K) : K × K × K :=\n  ' + '\n  '.join(lets) + f'\n  ({outs[0]}, {outs[1]}, {outs[2]})\n')
    jf = get_function(cm.source(_SRC_MONO), 'intersection', inside='cylinder_boundary')
    env = {f'L{i}[{j}]': (f'L{i}.{["1", "2.1", "2.2"][j]}', 'K') for i in (1, 2) for j in range(3)}
    cx = _Cx(env, 'K')
    jb = strip_doc(jf.body)
    lets = []
    for s in jb[:-1]:
        if not (isinstance(s, _ast.Assign) and isinstance(s.targets[0], _ast.Name)):
            _fail('cylinder_boundary.intersection', s)
        v, _ = cx.tr(s.value)
        lets.append(f'let {s.targets[0].id} : K := {v}')
        cx.env[s.targets[0].id] = (s.targets[0].id, 'K')
    sel = jb[-1]
    if not (isinstance(sel, _ast.If) and _u(sel.test) == 'D != 0' and _u(sel.orelse[0]) == 'return False'
            and _u(sel.body[-1]) == 'return (x, y)' and len(sel.body) == 3):
        _fail('cylinder_boundary.intersection: selection', sel)
    x, _ = cx.tr(sel.body[0].value)
    y, _ = cx.tr(sel.body[1].value)
    out.append('/-- `intersection(L1, L2)` of cylinder_boundary (`none` = parallel lines: `False`) -/')
    out.append('def cylIntersection [DecidableEq K] (L1 L2 : K × K × K) : Option (K × K) :=\n  ' + '\n  '.join(lets)
               + f'\n  if D ≠ 0 then some ({x}, {y}) else none\n')


def _tr_set_shift(out):
    fn = get_function(cm.source(_SRC_INIT), 'set_shift')
    body = strip_doc(fn.body)
    if len(body) != 1:
        _fail('set_shift: more than one top-level statement')

    def leaf(stmts, bound):
        if len(stmts) == 1 and isinstance(stmts[0], _ast.Raise):
            e = _u(stmts[0].exc)
            if not e.startswith('ValueError('):
                _fail('set_shift: refusal is not a ValueError', stmts[0])
            return '.error "value"'
        if len(stmts) == 1 and isinstance(stmts[0], _ast.If):
            return tree(stmts[0], bound)
        if len(stmts) == 2 and isinstance(stmts[0], _ast.If) and isinstance(stmts[0].body[0], _ast.Raise) \
                and not stmts[0].orelse and len(stmts[0].body) == 1 and isinstance(stmts[1], _ast.If):
            # `if c: raise …` followed by the rest
            return tree(_ast.If(test=stmts[0].test, body=stmts[0].body, orelse=[stmts[1]]), bound)
        st = stmts[0]
        if not (isinstance(st, _ast.Assign) and _u(st.targets[0]) == 'self.__shift'):
            _fail('set_shift: leaf', st)
        for extra in stmts[1:]:
            if _u(extra) != 'assert self.__shift.shape == (3,)':
                _fail('set_shift: leaf', extra)
        v = _u(st.value)
        if v == 'miller.vector_crystal_to_cartesian(shift, self.rcell.box)' and 'shift' in bound:
            return '.ok (M3.vecMul sv vects)'
        if v == 'np.asarray(shift)' and 'shift' in bound:
            return '.ok sv'
        if v == 'self.shifts[shiftindex]' and 'shiftindex' in bound:
            return 'idx shifts iv'
        if isinstance(st.value, _ast.Subscript) and _u(st.value.value) == 'self.shifts':
            try:
                k = _ast.literal_eval(st.value.slice)
            except Exception:  # noqa
                k = None
            if isinstance(k, int) and not isinstance(k, bool):
                return f'idx shifts ({k} : Int)' if k >= 0 else f'idx shifts (-{-k} : Int)'
        _fail('set_shift: value stored', st)

    def tree(node, bound):
        nt = _is_none_test(node.test)
        if nt is not None and nt[0] in ('shift', 'shiftindex'):
            var = {'shift': 'sv', 'shiftindex': 'iv'}[nt[0]]
            yes, no = (node.body, node.orelse) if nt[1] else (node.orelse, node.body)
            if not yes or not no:
                _fail('set_shift: a branch without else', node)
            return (f'(match {nt[0]} with\n | some {var} => {leaf(yes, bound | {nt[0]})}\n | none => {leaf(no, bound)})')
        if isinstance(node.test, _ast.Name) and node.test.id == 'shiftscale':
            if not node.orelse:
                _fail('set_shift: a branch without else', node)
            return f'(if shiftscale then {leaf(node.body, bound)} else {leaf(node.orelse, bound)})'
        _fail('set_shift: test not recognised', node.test)

    t = tree(body[0], frozenset())
    out.append('/-- `Dislocation.set_shift`: the decision tree in the order of the source (`idx` = Python list indexing of\n'
               '    `self.shifts`, `vects` = `self.rcell.box.vects`; ValueError = "value") -/')
    out.append('def setShift (idx : List (V3 K) → Int → Except String (V3 K)) (vects : M3 K) (shifts : List (V3 K))\n'
               '    (shift : Option (V3 K)) (shiftindex : Option Int) (shiftscale : Bool) : Except String (V3 K) :=\n  ' + t + '\n')
    # the constructor calls set_shift(shift, shiftindex, shiftscale) after the cells and the shifts
    init = get_function(cm.source(_SRC_INIT), '__init__')
    calls = [_u(s) for s in strip_doc(init.body)]
    want = ['self.__set_cells(ucell, ξ_uvw, setting=conventional_setting, maxindex=5, tol=tol)',
            'self.__identify_shifts(tol)', 'self.set_shift(shift, shiftindex, shiftscale)']
    pos = [calls.index(w) if w in calls else -1 for w in want]
    if -1 in pos or pos != sorted(pos):
        _fail('__init__: set_cells / identify_shifts / set_shift(shift, shiftindex, shiftscale) in this order')
    out.append('/-- `__init__`: cells, then the offered shifts, then `set_shift` with the three shift arguments -/')
    out.append(f'def initCalls : List String := {_lstrs(want)}\n')


def _tr_array(out):
    fn = get_function(cm.source(_SRC_ARR), 'build_disl_array')
    body = strip_doc(fn.body)
    by = {}
    for s in _ast.walk(fn):
        if isinstance(s, _ast.Assign) and len(s.targets) == 1:
            by.setdefault(_u(s.targets[0]), []).append(s)

    def one(name, n=1):
        if len(by.get(name, [])) != n:
            _fail(f'build_disl_array: {name} assigned {len(by.get(name, []))} times')
        return by[name][0]
    # defaults
    dfl = []
    for s in body[:2]:
        nt = _is_none_test(s.test) if isinstance(s, _ast.If) else None
        if nt is None or nt[1] or len(s.body) != 1:
            _fail('build_disl_array: defaults', s)
        v = s.body[0].value
        if not (isinstance(v, _ast.Call) and _u(v.func) == 'uc.set_in_units' and len(v.args) == 2):
            _fail('build_disl_array: defaults', s)
        dfl.append((nt[0], _u(v.args[0]), v.args[1].value))
    out.append('/-- `if bwidth is None: …`, `if cutoff is None: …` (value, unit) -/')
    out.append('def arrDefaults : List (String × String × String) := ['
               + ', '.join(f'({_lstr(a)}, {_lstr(b)}, {_lstr(c)})' for a, b, c in dfl) + ']\n')
    # tilt
    tilt = [s for s in body if isinstance(s, _ast.If) and _u(s.test).startswith('burgers.dot(m)')]
    if len(tilt) != 1:
        _fail('build_disl_array: tilt')
    tilt = tilt[0]
    g, _ = _Cx({'burgers.dot(m)': ('bm', 'K')}, 'K').tr(tilt.test)

    def tl(st):
        if not (isinstance(st, _ast.AugAssign) and _u(st.target) == 'newvects[motionindex]' and _u(st.value) == 'burgers / 2'
                and isinstance(st.op, (_ast.Add, _ast.Sub))):
            _fail('build_disl_array: tilt', st)
        return 'row - hb' if isinstance(st.op, _ast.Sub) else 'row + hb'
    out.append(f'/-- `if {_u(tilt.test)}: {_u(tilt.body[0])} else: {_u(tilt.orelse[0])}` (`bm = burgers·m`, `hb = burgers / 2`) -/')
    out.append(f'def arrTilt (bm : K) (row hb : V3 K) : V3 K :=\n  if {g} then {tl(tilt.body[0])} else {tl(tilt.orelse[0])}\n')
    _tr_pbc(body, 'newpbc', 'cutindex', 'arr', out, 'arrPbc')
    # length, sburgers, the strip, the duplicate test
    if _u(one('length').value) != 'np.abs(vects[motionindex].dot(m))':
        _fail('build_disl_array: length', one('length'))
    sb = one('sburgers').value
    if not (isinstance(sb, _ast.Call) and _u(sb.func) == 'np.abs'):
        _fail('build_disl_array: sburgers', sb)
    v, _ = _Cx({'burgers[motionindex]': ('bmot', 'K'), 'length': ('length', 'K')}, 'K').tr(sb.args[0])
    out.append(f'/-- `{_u(one("sburgers"))}` without the `np.abs` -/')
    out.append(f'def arrSburgersArg (bmot length : K) : K := {v}\n')
    ba = one('boundaryatoms').value
    if not (isinstance(ba, _ast.Subscript) and _u(ba.value) == 'testsystem.atoms'):
        _fail('build_disl_array: boundaryatoms', ba)
    v, _ = _Cx({'spos[:, motionindex]': ('s', 'K'), 'sburgers': ('sb', 'K')}, 'K').tr(ba.slice)
    out.append(f'/-- `{_u(ba.slice)}` -/')
    out.append(f'def arrInStrip (sb s : K) : Bool := {v}\n')
    loops = [s for s in body if isinstance(s, _ast.For) and _u(s.iter) == 'enumerate(boundaryatoms.old_id[:-1])']
    if len(loops) != 1 or _u(loops[0].target) != '(ni, i)':
        _fail('build_disl_array: duplicate loop')
    lp = loops[0]
    if _u(lp.body[0]) != 'js = boundaryatoms.old_id[ni + 1:]':
        _fail('build_disl_array: duplicate loop compares with the LATER boundary atoms', lp.body[0])
    hit = lp.body[-1]
    if not (isinstance(hit, _ast.If) and _u(hit.body[0]) == 'dup_atom_ids.append(i)' and not hit.orelse):
        _fail('build_disl_array: duplicate test', hit)
    v, _ = _Cx({'mindistance': ('d', 'K'), 'cutoff': ('cutoff', 'K')}, 'K').tr(hit.test)
    out.append(f'/-- `if {_u(hit.test)}: dup_atom_ids.append(i)` -/')
    out.append(f'def arrIsDup (cutoff d : K) : Bool := {v}\n')
    # expected
    ex = [s for s in by.get('expected', []) if 'volume' in _u(s.value)]
    if len(ex) != 1:
        _fail('build_disl_array: expected')
    v, _ = _Cx({'base_system.natoms': ('n', 'K'), 'newbox.volume': ('vnew', 'K'), 'base_system.box.volume': ('vold', 'K')},
               'K').tr(ex[0].value)
    out.append(f'/-- `{_u(ex[0])}` -/')
    out.append(f'def arrExpected (n vnew vold : K) : K := {v}\n')
    chk = [s for s in body if isinstance(s, _ast.If) and _u(s.test) == 'np.isclose(expected, round(expected))']
    if len(chk) != 1 or _u(chk[0].body[0]) != 'expected = int(round(expected))' or not isinstance(chk[0].orelse[0], _ast.Raise):
        _fail('build_disl_array: integrality test of expected')
    mm = [s for s in body if isinstance(s, _ast.If) and isinstance(s.body[0], _ast.Raise) and 'found' in _u(s.test)]
    if len(mm) != 1:
        _fail('build_disl_array: found / expected test')
    v, _ = _Cx({'found': ('found', 'Int'), 'expected': ('expected', 'Int')}, 'Int').tr(mm[0].test)
    out.append(f'/-- `if {_u(mm[0].test)}: raise ValueError("Deleted atom mismatch …")` -/')
    out.append(f'def arrMismatch (found expected : Int) : Bool := {v}\n')
    # the isclose calls with their keywords
    isc = []
    for n in _ast.walk(fn):
        if isinstance(n, _ast.Call) and _u(n.func) == 'np.isclose':
            isc.append([_u(a) for a in n.args] + [f'{k.arg}={_u(k.value)}' for k in n.keywords])
    out.append('/-- every `np.isclose(…)` of build_disl_array with its tolerances -/')
    out.append('def arrIscloseCalls : List (List String) :=\n  [' + ',\n   '.join(_lstrs(c) for c in isc) + ']\n')
    # surface layers
    els = [s for s in body if isinstance(s, _ast.If) and _u(s.test) == 'linear']
    if len(els) != 1:
        _fail('build_disl_array: linear switch')
    eb = els[0].orelse
    ii = [s for s in eb if isinstance(s, _ast.Assign) and _u(s.targets[0]) == 'ii']
    if len(ii) != 1 or not (isinstance(ii[0].value, _ast.Call) and _u(ii[0].value.func) == 'np.where'):
        _fail('build_disl_array: surface layers')
    v, _ = _Cx({'y': ('y', 'K'), 'miny': ('miny', 'K'), 'maxy': ('maxy', 'K'), 'bwidth': ('bw', 'K')}, 'K').tr(ii[0].value.args[0])
    out.append(f'/-- `{_u(ii[0])}` -/')
    out.append(f'def arrInLayer (miny maxy bw y : K) : Bool := {v}\n')
    sw = [s for s in eb if isinstance(s, _ast.If)]
    if len(sw) != 1 or _u(sw[0].body[0]) != 'miny, maxy = (maxy, miny)':
        _fail('build_disl_array: miny / maxy swap')
    v, _ = _Cx({'miny': ('miny', 'K'), 'maxy': ('maxy', 'K')}, 'K').tr(sw[0].test)
    out.append(f'/-- `if {_u(sw[0].test)}: miny, maxy = maxy, miny` -/')
    out.append(f'def arrSwap (miny maxy : K) : Bool := {v}\n')
    out.append('/-- the elastic branch, statement by statement -/')
    out.append('def arrElastic : List String :=\n  [' + ',\n   '.join(_lstr(_u(s)) for s in eb) + ']\n')
    out.append(f'def arrLinear : List String := {_lstrs([_u(s) for s in els[0].body])}\n')
    # the whole statement list (normalised) up to the linear switch
    k = body.index(els[0])
    out.append('/-- build_disl_array from the slip-plane test to the trimmed system, statement by statement -/')
    head = [_u(s) for s in body[2:k] if not isinstance(s, (_ast.For,))]
    out.append('def arrHead : List String :=\n  [' + ',\n   '.join(_lstr(s) for s in head) + ']\n')
    out.append(f'def arrTail : List String := {_lstrs([_u(s) for s in body[k + 1:]])}\n')
    # linear_displacement
    lf = get_function(cm.source(_SRC_ARR), 'linear_displacement')
    lb = strip_doc(lf.body)
    if len(lb) != 1 or not isinstance(lb[0], _ast.Return):
        _fail('linear_displacement: body')
    r = lb[0].value
    if not (isinstance(r, _ast.Call) and _u(r.func) == 'np.outer' and _u(r.args[1]) == 'burgers'):
        _fail('linear_displacement: np.outer(…, burgers)', r)
    v, _ = _Cx({'np.sign(pos.dot(n))': ('sgn pn', 'K'), 'pos.dot(m)': ('pm', 'K'), 'length': ('length', 'K')}, 'K').tr(r.args[0])
    out.append(f'/-- the scalar multiplying `burgers` in `{_u(r)}` (`pn = pos·n`, `pm = pos·m`) -/')
    out.append(f'def linearFactor (sgn : K → K) (pn pm length : K) : K := {v}\n')


def _tr_disreg(out):
    fn = get_function(cm.source(_SRC_DISREG), 'disregistry')
    out.append(f'def sigDisregistry : List (String × String) := {_lsig(_signature(fn))}\n')
    body = strip_doc(fn.body)
    by = {}
    for s in body:
        if isinstance(s, _ast.Assign) and isinstance(s.targets[0], _ast.Name):
            by[s.targets[0].id] = s.value
    for nm, ext in (('abovey', 'min'), ('belowy', 'max')):
        v = by.get(nm)
        if not (isinstance(v, _ast.Call) and isinstance(v.func, _ast.Attribute) and v.func.attr == ext
                and isinstance(v.func.value, _ast.Subscript) and _u(v.func.value.value) == 'uniquey'):
            _fail(f'disregistry: {nm}', v)
        c, _ = _Cx({'uniquey': ('y', 'K'), 'midy': ('mid', 'K')}, 'K').tr(v.func.value.slice)
        out.append(f'/-- `{nm} = {_u(v)}`: the selection -/')
        out.append(f'def disreg{nm.capitalize()}Sel (mid y : K) : Bool := {c}\n')
    pins = ['allx', 'ally', 'midy', 'uniquey', 'abovex', 'belowx', 'uabovex', 'ubelowx', 'coord', 'abovedisp', 'belowdisp',
            'disregistry']
    out.append('/-- the other assignments of disregistry() -/')
    miss = [p for p in pins if p not in by]
    if miss:
        _fail(f'disregistry: assignments {miss} not found')
    out.append('def disregAssign : List (String × String) :=\n  [' + ',\n   '.join(
        f'({_lstr(p)}, {_lstr(_u(by[p]))})' for p in pins) + ']\n')


def translate():
    import warnings
    with warnings.catch_warnings():
        warnings.simplefilter('ignore', SyntaxWarning)        # escape sequences inside the docstrings of the source
        return _translate()


def _translate():
    out = ['/- GENERATED by harness/props/c13.py from atomman/defect/Dislocation/{__init__,_monopole,_periodicarray}.py,',
           '   atomman/region/{Plane,PlaneSet,Cylinder,Shape}.py, atomman/defect/disregistry.py — do not edit.',
           '   Each definition is assembled from the operators, constants, indices and argument orders read from the',
           '   current source; lean/Proofs/C13_Source.lean proves them equal to the hand model. -/',
           'import Atomman.Prelude', 'set_option linter.unusedVariables false', 'namespace Atomman.Gen.Disl',
           'variable {K : Type} [Add K] [Sub K] [Mul K] [Div K] [Neg K] [Zero K] [One K] [IntCast K]',
           '  [LT K] [LE K] [DecidableLT K] [DecidableLE K]', '']
    mono = get_function(cm.source(_SRC_MONO), 'monopole')
    arr = get_function(cm.source(_SRC_ARR), 'periodicarray')
    init = get_function(cm.source(_SRC_INIT), '__init__')
    ss = get_function(cm.source(_SRC_INIT), 'set_shift')
    bda = get_function(cm.source(_SRC_ARR), 'build_disl_array')
    for nm, fn in (('sigInit', init), ('sigSetShift', ss), ('sigMonopole', mono), ('sigPeriodicarray', arr),
                   ('sigBuildDislArray', bda)):
        out.append(f'/-- parameters of `{fn.name}` with their defaults -/')
        out.append(f'def {nm} : List (String × String) :=\n  {_lsig(_signature(fn))}\n')
    _tr_set_shift(out)
    for fn, pre, with_shape in ((mono, 'mono', True), (arr, 'arr', False)):
        body = strip_doc(fn.body)
        pos = _tr_mults(fn, pre, out)
        pos = _tr_shift_given(fn, body, pos, pre, out)
        pos = _tr_center_width(fn, body, pos, pre, out, with_shape)
        pos = _tr_core(fn, body, pos, pre, out,
                       lambda s: isinstance(s, _ast.If) and _u(s.test).startswith('boundarywidth'))
        _tr_boundary_step(fn, body[pos], pre, out, with_shape)
        out.append(f'def {pre}After : List String := {_lstrs([_u(s) for s in body[pos + 1:]])}\n')
        if with_shape:
            _tr_pbc(body, 'disl_system.pbc', 'lineindex', pre, out, 'monoPbc')
    _tr_planes_fn(get_function(cm.source(_SRC_MONO), 'box_boundary'), 'lineindex', out, 'boxBoundary')
    _tr_planes_fn(get_function(cm.source(_SRC_ARR), 'array_boundary'), 'cutindex', out, 'arrayBoundary')
    _tr_regions(out)
    _tr_cylinder_boundary(out)
    _tr_array(out)
    _tr_disreg(out)
    out.append('end Atomman.Gen.Disl\n')
    return {'DislocationSource': '\n'.join(out)}


AXES = ('x', 'y', 'z')
MN = [(m, n) for m in AXES for n in AXES if m != n]
TOL = 1e-8


# ----------------------------------------------------------------------------------------
# crystals from literal fractional coordinates (am.load('prototype') needs the network)
# ----------------------------------------------------------------------------------------
def _cubicC(c11, c12, c44):
    return ('cubic', dict(C11=c11, C12=c12, C44=c44))


# a positive definite stiffness without any symmetry beyond the monoclinic one (the code does not check that the
# constants fit the crystal family)
_LOWSYM_CIJ = [[2.0, 0.8, 0.7, 0.0, 0.1, 0.0], [0.8, 2.2, 0.75, 0.0, 0.05, 0.0], [0.7, 0.75, 1.9, 0.0, -0.08, 0.0],
               [0.0, 0.0, 0.0, 0.6, 0.0, 0.03], [0.1, 0.05, -0.08, 0.0, 0.7, 0.0], [0.0, 0.0, 0.0, 0.03, 0.0, 0.65]]

CRYSTALS = {
    # name: (setting, family, fractional positions, atypes, symbols, elastic constants)
    'fcc': ('f', 'cubic', [(0, 0, 0), (F(1, 2), F(1, 2), 0), (F(1, 2), 0, F(1, 2)), (0, F(1, 2), F(1, 2))], [1, 1, 1, 1],
            ['Al'], dict(C11=1.0, C12=0.6, C44=0.3)),
    'fcc_p': ('p', 'cubic', [(0, 0, 0), (F(1, 2), F(1, 2), 0), (F(1, 2), 0, F(1, 2)), (0, F(1, 2), F(1, 2))],
              [1, 1, 1, 1], ['Al'], dict(C11=1.1, C12=0.62, C44=0.31)),
    'l12': ('p', 'cubic', [(0, 0, 0), (F(1, 2), F(1, 2), 0), (F(1, 2), 0, F(1, 2)), (0, F(1, 2), F(1, 2))],
            [1, 2, 2, 2], ['Au', 'Cu'], dict(C11=1.9, C12=1.3, C44=0.7)),
    'bcc': ('i', 'cubic', [(0, 0, 0), (F(1, 2), F(1, 2), F(1, 2))], [1, 1], ['Fe'], dict(C11=2.4, C12=1.4, C44=1.2)),
    'bcc_p': ('p', 'cubic', [(0, 0, 0), (F(1, 2), F(1, 2), F(1, 2))], [1, 1], ['W', 'extra'],
              dict(C11=5.2, C12=2.0, C44=1.5)),
    'b2': ('p', 'cubic', [(0, 0, 0), (F(1, 2), F(1, 2), F(1, 2))], [1, 2], ['Ni', 'Al'], dict(C11=2.0, C12=1.4, C44=1.1)),
    'sc': ('p', 'cubic', [(0, 0, 0)], [1], ['Po'], dict(C11=1.0, C12=0.3, C44=0.2)),
    'hcp': ('p', 'hexagonal', [(0, 0, 0), (F(1, 3), F(2, 3), F(1, 2))], [1, 1], ['Mg'],
            dict(C11=0.6, C12=0.26, C13=0.22, C33=0.62, C44=0.16)),
    'bct': ('i', 'tetragonal', [(0, 0, 0), (F(1, 2), F(1, 2), F(1, 2))], [1, 1], ['In'],
            dict(C11=0.45, C12=0.4, C13=0.41, C33=0.44, C44=0.065, C66=0.12)),
    'ortho_c': ('c', 'orthorhombic', [(0, 0, 0), (F(1, 2), F(1, 2), 0)], [1, 1], ['U'],
                dict(C11=2.1, C12=0.46, C13=0.22, C22=2.0, C23=1.1, C33=2.7, C44=1.2, C55=0.73, C66=0.74)),
    # the remaining centred settings: Miller indices are relative to the conventional cell, the rotated cell is built
    # from the primitive one (a-, b-, face-centred orthorhombic; rhombohedral lattices in the hexagonal setting,
    # obverse 't1' and reverse 't2')
    'ortho_a': ('a', 'orthorhombic', [(0, 0, 0), (0, F(1, 2), F(1, 2))], [1, 1], ['Ga'],
                dict(C11=1.0, C12=0.37, C13=0.33, C22=0.9, C23=0.31, C33=1.35, C44=0.35, C55=0.42, C66=0.4)),
    'ortho_b': ('b', 'orthorhombic', [(0, 0, 0), (F(1, 2), 0, F(1, 2))], [1, 1], ['Ga'],
                dict(C11=1.0, C12=0.37, C13=0.33, C22=0.9, C23=0.31, C33=1.35, C44=0.35, C55=0.42, C66=0.4)),
    'ortho_f': ('f', 'orthorhombic', [(0, 0, 0), (F(1, 2), F(1, 2), 0), (F(1, 2), 0, F(1, 2)), (0, F(1, 2), F(1, 2))],
                [1, 1, 1, 1], ['Pu'],
                dict(C11=1.1, C12=0.4, C13=0.3, C22=1.3, C23=0.35, C33=0.95, C44=0.4, C55=0.3, C66=0.45)),
    'trig_t1': ('t1', 'hexagonal', [(0, 0, 0), (F(2, 3), F(1, 3), F(1, 3)), (F(1, 3), F(2, 3), F(2, 3))], [1, 1, 1], ['Bi'],
                dict(C11=0.64, C12=0.25, C13=0.25, C33=0.38, C44=0.11)),
    'trig_t2': ('t2', 'hexagonal', [(0, 0, 0), (F(1, 3), F(2, 3), F(1, 3)), (F(2, 3), F(1, 3), F(2, 3))], [1, 1, 1], ['Sb'],
                dict(C11=1.0, C12=0.32, C13=0.27, C33=0.45, C44=0.4)),
    # low symmetry: every rotated cell is tilted (cut vector off the slip-plane normal, in-plane vector off m)
    'mono': ('p', 'monoclinic', [(0, 0, 0)], [1], ['Pu'], dict(Cij=_LOWSYM_CIJ)),
    'tric': ('p', 'triclinic', [(0, 0, 0), (F(1, 4), F(1, 2), F(1, 2))], [1, 2], ['Tc', 'Ti'], dict(Cij=_LOWSYM_CIJ)),
}
# lattice translations of the conventional cell (besides integer vectors)
CENTRING = {'p': [], 'f': [(F(1, 2), F(1, 2), 0), (F(1, 2), 0, F(1, 2)), (0, F(1, 2), F(1, 2))],
            'i': [(F(1, 2), F(1, 2), F(1, 2))], 'c': [(F(1, 2), F(1, 2), 0)],
            'a': [(0, F(1, 2), F(1, 2))], 'b': [(F(1, 2), 0, F(1, 2))],
            't1': [(F(2, 3), F(1, 3), F(1, 3)), (F(1, 3), F(2, 3), F(2, 3))],
            't2': [(F(1, 3), F(2, 3), F(1, 3)), (F(2, 3), F(1, 3), F(2, 3))]}


def _np():
    import numpy as np
    return np


def lattice_params(name, rng):
    fam = CRYSTALS[name][1]
    u = lambda lo, hi: round(rng.uniform(lo, hi), 3)
    if fam == 'cubic':
        return dict(a=rng.choice([3.0, 4.0, 3.5, u(2.8, 4.2)]))
    if fam == 'hexagonal':
        a = rng.choice([3.0, u(2.8, 3.4)])
        if name.startswith('trig'):
            return dict(a=a, c=round(a * rng.choice([2.5, 2.6, u(2.2, 2.9)]), 3))
        return dict(a=a, c=round(a * rng.choice([1.6, 1.633, 1.856, u(1.55, 1.9)]), 3))
    if fam in ('monoclinic', 'triclinic'):
        # box vectors [[a,0,0],[xy,b,0],[xz,yz,c]] with dyadic entries (exact Gram matrix)
        q = lambda lo, hi: round(rng.uniform(lo, hi) * 8) / 8
        lp = dict(a=rng.choice([3.0, q(2.75, 3.5)]), b=rng.choice([4.0, q(3.25, 4.25)]), c=rng.choice([3.5, q(3.0, 4.5)]),
                  xy=0.0, xz=rng.choice([-0.75, 0.5, q(-1.0, 1.0)]), yz=0.0)
        if fam == 'triclinic':
            lp['xy'] = rng.choice([0.5, -0.25, q(-0.75, 0.75)])
            lp['yz'] = rng.choice([0.25, -0.5, q(-0.75, 0.75)])
        return lp
    if fam == 'tetragonal':
        a = rng.choice([3.0, u(2.9, 3.5)])
        return dict(a=a, c=round(a * rng.choice([1.25, 1.5, u(1.1, 1.6)]), 3))
    a = rng.choice([3.0, u(2.8, 3.2)])
    return dict(a=a, b=round(a * rng.choice([1.5, 2.0, u(1.3, 2.1)]), 3), c=round(a * rng.choice([1.25, 1.75, u(1.2, 1.8)]), 3))


def build_ucell(name, lp):
    import atomman as am
    np = _np()
    setting, fam, fpos, atypes, symbols, cij = CRYSTALS[name]
    if fam == 'cubic':
        box = am.Box.cubic(lp['a'])
    elif fam == 'hexagonal':
        box = am.Box.hexagonal(lp['a'], lp['c'])
    elif fam == 'tetragonal':
        box = am.Box.tetragonal(lp['a'], lp['c'])
    elif fam in ('monoclinic', 'triclinic'):
        box = am.Box(vects=np.array([[lp['a'], 0.0, 0.0], [lp['xy'], lp['b'], 0.0], [lp['xz'], lp['yz'], lp['c']]]))
    else:
        box = am.Box.orthorhombic(lp['a'], lp['b'], lp['c'])
    atoms = am.Atoms(atype=atypes, pos=np.array([[float(x) for x in p] for p in fpos]))
    ucell = am.System(atoms=atoms, box=box, scale=True, symbols=symbols)
    C = am.ElasticConstants(**cij)
    return ucell, C


# ----------------------------------------------------------------------------------------
# slip systems within an index bound
# ----------------------------------------------------------------------------------------
def _frdot(a, b):
    return sum(F(x) * F(y) for x, y in zip(a, b))


def _metric(name, lp):
    """Gram matrix of the conventional cell (exact for the idealised lattice parameters)."""
    fam = CRYSTALS[name][1]
    a = F(str(lp['a']))
    if fam == 'cubic':
        return [[a * a, 0, 0], [0, a * a, 0], [0, 0, a * a]]
    if fam in ('monoclinic', 'triclinic'):
        v = [[a, 0, 0], [F(str(lp['xy'])), F(str(lp['b'])), 0], [F(str(lp['xz'])), F(str(lp['yz'])), F(str(lp['c']))]]
        return [[sum(v[i][k] * v[j][k] for k in range(3)) for j in range(3)] for i in range(3)]
    c = F(str(lp['c']))
    if fam == 'hexagonal':
        return [[a * a, -a * a / 2, 0], [-a * a / 2, a * a, 0], [0, 0, c * c]]
    if fam == 'tetragonal':
        return [[a * a, 0, 0], [0, a * a, 0], [0, 0, c * c]]
    b = F(str(lp['b']))
    return [[a * a, 0, 0], [0, b * b, 0], [0, 0, c * c]]


def _gdot(G, u, v):
    return sum(F(u[i]) * G[i][j] * F(v[j]) for i in range(3) for j in range(3))


def slip_systems(name, lp, bound, rng, limit):
    """(burgers, xi, hkl, character) with |indices| <= bound, xi and burgers in the plane (zone law), burgers among the
    shortest lattice vectors of the plane."""
    setting = CRYSTALS[name][0]
    G = _metric(name, lp)
    rngI = range(-bound, bound + 1)
    planes = [h for h in itertools.product(rngI, repeat=3) if any(h) and math.gcd(*h) == 1]
    ints = [v for v in itertools.product(range(-2, 3), repeat=3) if any(v)]
    latt = [tuple(F(x) for x in v) for v in ints]
    for t in CENTRING[setting]:
        for v in itertools.product(range(-2, 2), repeat=3):
            latt.append(tuple(F(v[i]) + t[i] for i in range(3)))
    out = []
    rng.shuffle(planes)
    for hkl in planes:
        inplane = [v for v in latt if _frdot(hkl, v) == 0]
        if not inplane:
            continue
        inplane.sort(key=lambda v: (_gdot(G, v, v), v))
        lens = sorted({_gdot(G, v, v) for v in inplane})[:2]
        bs = [v for v in inplane if _gdot(G, v, v) in lens]
        xis = [v for v in itertools.product(rngI, repeat=3) if any(v) and _frdot(hkl, v) == 0 and math.gcd(*v) == 1]
        rng.shuffle(bs)
        rng.shuffle(xis)
        got = set()
        for b in bs:
            for xi in xis:
                cr = [b[1] * xi[2] - b[2] * xi[1], b[2] * xi[0] - b[0] * xi[2], b[0] * xi[1] - b[1] * xi[0]]
                if not any(cr):
                    ch = 'screw'
                elif _gdot(G, b, xi) == 0:
                    ch = 'edge'
                else:
                    ch = 'mixed'
                if ch in got:
                    continue
                got.add(ch)
                out.append((b, xi, hkl, ch))
            if len(got) == 3:
                break
        if len(out) >= limit:
            break
    return out[:limit]


# ----------------------------------------------------------------------------------------
# one case = (crystal, lattice parameters, slip system, m, n); configurations on top of it
# ----------------------------------------------------------------------------------------
def _hex4(v, plane=False):
    """3-index -> 4-index (vectors: [(2u-v)/3, (2v-u)/3, -(u+v)/3, w]; planes: (h, k, -(h+k), l))."""
    if plane:
        return [v[0], v[1], -(v[0] + v[1]), v[2]]
    u, w = (2 * F(v[0]) - F(v[1])) / 3, (2 * F(v[1]) - F(v[0])) / 3
    return [u, w, -(u + w), F(v[2])]


SHIFT_KEYS = ('shift', 'shiftindex', 'shiftscale')


FLAG_KEYS = ('shiftscale', 'centerscale', 'boundaryscale', 'linear', 'return_base_system')
FLAG_FORMS = (None, None, 'int', 'npbool')


def _flag(value, form):
    """a boolean flag the way a caller may hold it: a Python bool (form None), the integer 1 / 0, or a numpy boolean (what a
    comparison of numpy numbers yields).  The truth value is what the documentation speaks about."""
    if form == 'int':
        return int(bool(value))
    if form == 'npbool':
        return _np().bool_(bool(value))
    return bool(value)


def _shift_kwargs(spec, form=None):
    """the shift arguments of one call (constructor, set_shift, generator) exactly as the caller would write them:
    any subset of shift / shiftindex / shiftscale (shiftscale may accompany an index or stand alone)."""
    kw = {}
    form = form if form is not None else spec.get('flag_form')
    if spec.get('shift') is not None:
        kw['shift'] = [float(x) for x in spec['shift']]
    if spec.get('shiftindex') is not None:
        kw['shiftindex'] = spec['shiftindex']
    if spec.get('shiftscale') is not None:
        kw['shiftscale'] = _flag(spec['shiftscale'], form)
    return kw


def make_disl(case):
    """-> (ucell, Dislocation) or raises."""
    import atomman as am
    ucell, C = build_ucell(case['crystal'], case['lp'])
    b, xi, hkl = case['burgers'], case['xi'], case['hkl']
    if case.get('hex4'):
        b, xi, hkl = _hex4(b), _hex4(xi), _hex4(hkl, plane=True)
    kw = _shift_kwargs(case)
    if case.get('tol') is not None:
        kw['tol'] = float(case['tol'])
    d = am.defect.Dislocation(ucell, C, burgers=[float(x) for x in b], ξ_uvw=[float(x) for x in xi],
                              slip_hkl=[int(x) for x in hkl], conventional_setting=CRYSTALS[case['crystal']][0],
                              m=case['m'], n=case['n'], **kw)
    d._c13_case = {k: v for k, v in case.items() if k not in SHIFT_KEYS and k != 'flag_form'}
    return ucell, d


def _err_class(e):
    if isinstance(e, TypeError) and 'complex' in str(e):
        return 'solver'                                   # the elastic solver returned a complex field (C12's subject)
    if isinstance(e, TypeError):
        return 'type'
    if isinstance(e, AssertionError):
        return 'assert'
    if isinstance(e, ValueError):
        s = str(e)
        if 'slip plane' in s:
            return 'value slip'
        if 'not an integer' in s:
            return 'value nonint'
        if 'mismatch' in s:
            return 'value mismatch'
        return 'value'
    if isinstance(e, IndexError):
        return 'index'
    return type(e).__name__


class _Refuse(Exception):
    """the documentation says this call must be refused (cls = error class)"""
    def __init__(self, cls, where):
        Exception.__init__(self, cls + ' at ' + where)
        self.cls = cls
        self.where = where


def _shift_of(np, d, spec, prev, is_gen, where):
    """what the documentation of Dislocation / set_shift / monopole / periodicarray says about one call (independent of
    the implementation's set_shift): a given vector is absolute, or relative to the box vectors of the rotated cell
    with shiftscale; shiftindex selects from the offered shifts; neither: the first offered shift (constructor,
    set_shift) or the shift the object already has (generators); both: refused; shiftscale concerns a given vector
    only.  -> (vector, 'vector' | 'offered' | the previous tag)"""
    sh, ix = spec.get('shift'), spec.get('shiftindex')
    if sh is not None and ix is not None:
        raise _Refuse('value', where)
    if sh is not None:
        v = np.asarray(sh, dtype=float)
        if spec.get('shiftscale'):
            v = v.dot(np.asarray(d.rcell.box.vects, dtype=float))
        return v, 'vector'
    S = np.asarray(d.shifts, dtype=float)
    if ix is not None:
        if not -len(S) <= ix < len(S):
            raise _Refuse('index', where)
        return S[ix], 'offered'
    if is_gen:
        return prev
    return S[0], 'offered'


def _expected_shift(np, d, cfg):
    """the shift in force when the generator of `cfg` builds its reference system, following the whole history of the
    configuration (construction of a fresh object, set_shift, the generator call).  None when the history is not part
    of the configuration (shared object, nothing named in the call).  Raises _Refuse when the constructor or the
    generator call must be refused (a refused set_shift is just skipped: the object keeps its shift)."""
    cur = None
    if cfg.get('init') is not None:
        cur = _shift_of(np, d, cfg['init'], None, False, 'init')
        if cfg.get('setshift') is not None:
            try:
                cur = _shift_of(np, d, cfg['setshift'], cur, False, 'set_shift')
            except _Refuse:
                pass
    call = {k: cfg[k] for k in SHIFT_KEYS if cfg.get(k) is not None}
    if cur is None and call.get('shift') is None and call.get('shiftindex') is None:
        return None
    return _shift_of(np, d, call, cur, True, 'call')


def gen_shift_spec(rng, np, d, named, onplane=False):
    """one way of naming a shift (index, negative index, Cartesian vector, box-relative vector, nothing) crossed with
    one value of the shiftscale flag (absent, False, True).  named: the spec must contain a shift or an index."""
    ns = len(d.shifts)
    cut, mo = d.cutindex, d.motionindex
    ways = ['index', 'index', 'negindex', 'vector', 'relative', 'relative']
    if not named:
        ways += ['default', 'default']
    way = rng.choice(ways)
    flag = rng.choice([None, None, False, True, True])
    spec = {}
    if way == 'index':
        spec['shiftindex'] = rng.randrange(ns)
        if rng.random() < 0.03:
            spec['shiftindex'] = ns + rng.randrange(2)       # IndexError
    elif way == 'negindex':
        spec['shiftindex'] = -rng.randrange(1, ns + 1)
    elif way == 'vector':
        t = [0.0, 0.0, 0.0]
        t[cut] = round(rng.uniform(0.05, 0.4), 3)
        t[mo] = round(rng.uniform(-0.5, 0.5), 3)
        base = np.array(d.shifts[rng.randrange(ns)], dtype=float)
        spec['shift'] = (base + 0.25 * np.array(t)).tolist()
        if onplane and rng.random() < 0.3:
            spec['shift'] = [0.0, 0.0, 0.0]                  # atoms on the slip plane (the cell has an atom at 0)
        if flag is True:
            flag = False                                     # (a Cartesian vector read as box-relative is the next way)
    elif way == 'relative':
        t = [0.0, 0.0, 0.0]
        t[cut] = rng.choice([0.125, 0.3, 0.41, 0.27])
        t[mo] = rng.choice([0.0, 0.0, 0.1, -0.2])
        spec['shift'] = t
        flag = True
    if flag is not None:
        spec['shiftscale'] = flag
    if rng.random() < 0.03 and spec.get('shift') is not None:
        spec['shiftindex'] = 0                               # both: must be refused
    return spec


MIN_HAIRS = [0.0, 0.0, 0.0, 0.0, 'ulp-', 'ulp+', -1e-13, 1e-13, -1e-9, 1e-9, -1e-3, 1e-3]


def gen_min_value(rng, L, kmax=6):
    """a minimum length that is EXACTLY k periods L of the rotated cell (k = 1..kmax, odd ones favoured; exactly k * L as a
    rational whenever that product is a double, otherwise the double next to it), or a hair (1 ulp, 1e-13, 1e-9, 1e-3
    relative) below / above it: the smallest multiplier reaching the minimum is k on and below the multiple, k + 1 above."""
    k = rng.choice([k_ for k_ in (1, 1, 2, 3, 3, 4, 5, 5, 6) if k_ <= kmax])
    h = rng.choice(MIN_HAIRS)
    v = k * float(L)
    if h == 'ulp-':
        v = math.nextafter(v, 0.0)
    elif h == 'ulp+':
        v = math.nextafter(v, math.inf)
    elif h:
        v = v * (1.0 + h)
    return v


def expected_min_mults(v, L):
    """the multipliers a minimum length v > 0 may give for a period L (both doubles): the smallest m with m * L >= v in
    exact rational arithmetic, and - only when the correctly rounded quotient v / L lands on a whole number although the
    exact one lies within half an ulp above it - that whole number too."""
    r = F(float(v)) / F(float(L))
    return {math.ceil(r), math.ceil(float(v) / float(L))}


def gen_config(rng, d, kind, nmax=220):
    """random arguments of monopole() / periodicarray()."""
    np = _np()
    line = d.lineindex
    cfg = {'kind': kind}
    r = rng.random()
    nat = d.rcell.natoms
    if r < 0.12:
        cfg['sizemults'] = None
    else:
        for _ in range(20):
            sm = [rng.choice([2, 4, 6]) for _ in range(3)]
            sm[line] = rng.choice([1, 1, 2, 3])
            if kind == 'array' and rng.random() < 0.8:
                sm[d.motionindex] = rng.choice([4, 6, 8])
                sm[d.cutindex] = rng.choice([2, 2, 4])
            if nat * sm[0] * sm[1] * sm[2] <= nmax:
                break
        else:
            sm = [2, 2, 2]
            sm[line] = 1
        q = rng.random()
        if q < 0.06:
            sm[(line + rng.choice([1, 2])) % 3] = rng.choice([1, 3])        # odd across the line: TypeError
        elif q < 0.09:
            sm[rng.randrange(3)] = rng.choice([0, -2])
        cfg['sizemults'] = sm
        if rng.random() < 0.15:
            cfg['as_tuple'] = True                           # the documented type
    for nm, L in (('amin', d.rcell.box.a), ('bmin', d.rcell.box.b), ('cmin', d.rcell.box.c)):
        if rng.random() < 0.3 and nat <= 30:
            if rng.random() < 0.55:
                # exactly k periods of the rotated cell, or a hair off (the multiplier is the smallest reaching the minimum)
                cfg[nm] = gen_min_value(rng, L, 6 if nat <= 4 else 4 if nat <= 12 else 2)
            else:
                cfg[nm] = float(round(rng.uniform(0.5, 2.6 if nat <= 12 else 1.4) * L, 2))
    # ---- the shift: every way of naming it x every value of the shiftscale flag x where it is given ------------
    fresh = rng.random() < 0.38
    if not fresh:
        # shared object: the call names its shift (the object keeps the last shift it was given)
        cfg.update(gen_shift_spec(rng, np, d, named=True, onplane=(kind == 'array')))
    else:
        # a FRESH object: shift arguments at construction, optionally a set_shift() call, and in the generator call
        # nothing / only the flag / another shift (which overrides)
        cfg['init'] = gen_shift_spec(rng, np, d, named=False)
        if rng.random() < 0.25:
            cfg['setshift'] = gen_shift_spec(rng, np, d, named=False)
        q = rng.random()
        if q < 0.30:
            pass
        elif q < 0.55:
            cfg['shiftscale'] = rng.choice([True, True, False])
        else:
            cfg.update(gen_shift_spec(rng, np, d, named=True, onplane=(kind == 'array')))
    try:
        eff = _expected_shift(np, d, cfg)
    except _Refuse:
        eff = None
    # ---- the core centre: none / Cartesian / box-relative x the centerscale flag ------------------------------
    rv = np.asarray(d.rcell.box.vects, dtype=float)
    q = rng.random()
    if q < 0.08:
        f = rng.choice([None, False, True, True])
        if f is not None:
            cfg['centerscale'] = f                           # no centre: the origin whatever the flag
    elif q < 0.40:
        c = [0.0, 0.0, 0.0]
        c[d.motionindex] = round(rng.uniform(-1.5, 1.5), 3)
        c[d.cutindex] = round(rng.uniform(-0.2, 0.2), 3) if rng.random() < 0.5 else 0.0
        if rng.random() < 0.3:
            c[line] = round(rng.uniform(-1, 1), 3)
        cfg['center'] = c
        if rng.random() < 0.3:
            cfg['centerscale'] = False
    elif q < 0.55:
        # box-relative, all three components (the conversion is the row combination c . vects of the rotated cell)
        c = [0.0, 0.0, 0.0]
        c[d.motionindex] = rng.choice([0.25, -0.5, 0.125, 0.375])
        if rng.random() < 0.6:
            c[d.cutindex] = rng.choice([0.03125, -0.0625, 0.25, 0.5])
        if rng.random() < 0.4:
            c[line] = rng.choice([0.25, -0.5, 0.75])
        cfg['center'] = c
        cfg['centerscale'] = True
    elif q < 0.82:
        # the core (and with it the slip plane) moved along the slip-plane normal onto another gap between atomic
        # planes: shifts[i] - shifts[j] (+ whole cells) is again midway between two planes; sometimes off the middle
        cut = d.cutindex
        W = float(rv[cut, cut])
        sh = np.asarray(d.shifts, dtype=float)[:, cut]
        si = None if eff is None else float(eff[0][cut])
        sm_ = cfg.get('sizemults')
        H = W * (2 if sm_ is None else max(2, abs(int(sm_[cut]))))
        if si is not None and len(sh):
            zs = np.unique(np.round(np.mod(np.asarray(d.rcell.atoms.pos)[:, cut], W), 6))
            gaps = np.diff(np.append(zs, zs[0] + W))
            cn = None
            for _ in range(12):
                t = si - float(sh[rng.randrange(len(sh))]) + rng.choice([-2, -1, 0, 0, 1, 2]) * W
                if abs(t) > 1e-9 and abs(t) < 0.3 * H:
                    cn = t
                    break
            if cn is None:
                cn = si - float(sh[rng.randrange(len(sh))])
            if rng.random() < 0.3:
                cn += round(rng.uniform(-0.3, 0.3) * float(gaps.min()) / 2, 4)
            c = [0.0, 0.0, 0.0]
            c[cut] = float(cn)
            if rng.random() < 0.6:
                c[d.motionindex] = round(rng.uniform(-1.5, 1.5), 3)
            if rng.random() < 0.2:
                c[line] = round(rng.uniform(-1, 1), 3)
            if rng.random() < 0.3:
                # the same point written relative to the box vectors of the rotated cell
                c = np.linalg.solve(rv.T, np.array(c)).tolist()
                cfg['centerscale'] = True
            cfg['center'] = c
    # the point given to disregistry() to fix the slip plane: the centre itself, or another point of the same gap
    q = rng.random()
    if q < 0.35:
        cfg['planepos'] = 'center'
    elif q < 0.65:
        cfg['planepos'] = [round(rng.uniform(-3, 3), 3), round(rng.uniform(-2, 2), 3), round(rng.uniform(-0.4, 0.4), 3)]
    # ---- boundary: no width / zero / a width x the boundaryscale flag -------------------------------------------
    q = rng.random()
    f = rng.choice([None, None, False, True])
    if q < 0.70:
        if f is True:
            cfg['boundarywidth'] = round(rng.uniform(0.1, 0.8), 3)       # in units of the given unit cell's a
        else:
            cfg['boundarywidth'] = round(rng.uniform(0.3, 3.5), 3)
        if f is not None:
            cfg['boundaryscale'] = f
    elif q < 0.80:
        if rng.random() < 0.5:
            cfg['boundarywidth'] = 0.0
        if f is not None:
            cfg['boundaryscale'] = f                         # no width: no boundary whatever the flag
    if kind == 'mono':
        shape_ = rng.choice(['cylinder', 'box', None, 'box'])
        if shape_ is not None:
            cfg['boundaryshape'] = shape_                    # None: the keyword is left out (documented default: cylinder)
        if rng.random() < 0.04:
            cfg['boundarywidth'] = 40.0                      # radius <= 0: Cylinder's assertion
        if rng.random() < 0.02:
            cfg['boundaryshape'] = rng.choice(['sphere', 'Box', 'cyl'])   # must be refused (ValueError)
    else:
        lin_ = rng.random()
        if lin_ < 0.8:
            cfg['linear'] = lin_ < 0.32                      # otherwise the keyword is left out (documented default: False)
        if rng.random() < 0.3:
            cfg['cutoff'] = round(rng.uniform(0.2, 1.2), 3)
    if cfg.get('sizemults') is not None and rng.random() < 0.04:
        # multipliers that are not three positive integers: must be refused (TypeError)
        cfg['sm_form'] = rng.choice(['pairs', 'float', 'short', 'long', 'str'])
    if rng.random() < 0.10:
        cfg['noret'] = True
    # every boolean flag of the call (shiftscale at construction / in set_shift / in the generator, centerscale, boundaryscale,
    # linear, return_base_system) as Python bools, as 1 / 0, or as numpy booleans: the truth value decides
    cfg['flag_form'] = rng.choice(FLAG_FORMS)
    return cfg


NOT_KW = ('kind', 'as_tuple', 'planepos', 'probe', 'init', 'setshift', 'noret', 'sm_form', 'flag_form')


def _sm_form(sm, form):
    """multipliers that are not three positive integers (each must be refused with TypeError)."""
    if form == 'pairs':
        return [(-(x // 2), x // 2) for x in sm]             # what supersize takes, not what the generators document
    if form == 'float':
        return [float(x) for x in sm]
    if form == 'short':
        return list(sm[:2])
    if form == 'long':
        return list(sm) + [2]
    return [str(x) for x in sm]


def run_config(d, cfg):
    """call the real generator.  -> ('ok', base, disl, object) | ('err', class, message, object)
    cfg['init'] (dict of shift arguments, possibly empty): a FRESH Dislocation object is constructed with them;
    cfg['setshift']: then set_shift() is called with these (a refusal is recorded and the history goes on); the
    generator is called with the shift arguments of cfg itself (possibly none, possibly only the shiftscale flag);
    cfg['noret']: called without return_base_system, the systems are read from the object's attributes.
    The shift of the object after every step is recorded in object._c13_trace."""
    np = _np()
    form = cfg.get('flag_form')
    kw = {k: (_flag(v, form) if k in FLAG_KEYS else v) for k, v in cfg.items() if k not in NOT_KW and k not in SHIFT_KEYS}
    kw.update(_shift_kwargs(cfg))
    given = None
    if kw.get('sizemults') is not None:
        given = tuple(kw['sizemults']) if cfg.get('as_tuple') else list(kw['sizemults'])
        if cfg.get('sm_form'):
            given = _sm_form(cfg['sizemults'], cfg['sm_form'])
        kw['sizemults'] = given
    else:
        kw.pop('sizemults', None)
    snap = repr(given)
    trace = []

    def obs(kind_, obj, exc=None):
        if exc is not None:
            trace.append((kind_, 'err', _err_class(exc).split()[0]))
        else:
            try:
                trace.append((kind_, 'ok', np.asarray(obj.shift, dtype=float).tolist()))
            except Exception as e:  # noqa
                trace.append((kind_, 'err', 'shift-attribute ' + type(e).__name__))
    if cfg.get('init') is not None:
        _old = d
        try:
            _u, d = make_disl(dict(d._c13_case, **cfg['init'], flag_form=form))
        except Exception as e:  # noqa
            return ('err', 'init ' + _err_class(e), str(e)[:160], d)
        for k_ in ('_c13_shifts',):
            if hasattr(_old, k_):
                setattr(d, k_, getattr(_old, k_))
        obs('ctor', d)
        if cfg.get('setshift') is not None:
            try:
                d.set_shift(**_shift_kwargs(cfg['setshift'], form))
                obs('set', d)
            except Exception as e:  # noqa
                obs('set', d, e)
                obs('after-refusal', d)
    d._c13_trace = trace
    obs('before', d)
    try:
        gen = d.monopole if cfg['kind'] == 'mono' else d.periodicarray
        if cfg.get('noret'):
            ret = gen(**kw)
            base, disl = d.base_system, d.disl_system
            if ret is not disl:
                return ('err', 'return-value', 'the system returned without return_base_system is not the disl_system '
                        'attribute of the object', d)
        else:
            base, disl = gen(return_base_system=_flag(True, form), **kw)
    except Exception as e:  # noqa
        obs('gen', d, e)
        obs('after-refusal', d)
        return ('err', _err_class(e), str(e)[:160], d)
    obs('gen', d)
    if given is not None and repr(given) != snap:
        return ('err', 'mutated', f'the caller\'s sizemults {snap} was changed to {given!r}', d)
    return ('ok', base, disl, d)


# ----------------------------------------------------------------------------------------
# driver lines
# ----------------------------------------------------------------------------------------
def _hkl3(case):
    return [int(x) for x in case['hkl']]


def cells_line(case, ucell, op='cells', extra=''):
    np = _np()
    return ('%s %s 5 %s %s %s %s %s%s' % (op, CRYSTALS[case['crystal']][0], case['m'], case['n'],
                                          ' '.join(cm.fr(F(x)) for x in case['xi']),
                                          ' '.join(str(x) for x in _hkl3(case)), cm.frs(np.asarray(ucell.box.vects)), extra))


def _opt(x):
    return '-' if x is None else str(int(x))


def _resolved(d, cfg, ucell):
    """the arguments after the trivial conversions the generators do first (floats, as the code computes them)."""
    np = _np()
    line = d.lineindex
    qs = []
    for nm, L in (('amin', d.rcell.box.a), ('bmin', d.rcell.box.b), ('cmin', d.rcell.box.c)):
        v = cfg.get(nm, 0.0)
        qs.append(int(np.ceil(v / L)) if v > 0.0 else None)
    center = np.zeros(3) if cfg.get('center') is None else np.asarray(cfg['center'], dtype=float)
    if cfg.get('centerscale'):
        center = center.dot(np.asarray(d.rcell.box.vects, dtype=float))
    width = cfg.get('boundarywidth', 0.0)
    if cfg.get('boundaryscale'):
        width = width * (d.ucell if ucell is None else ucell).box.a
    return qs, center, width


def common_part(case, d, cfg, shift, qs, center, full=None):
    np = _np()
    sm = cfg.get('sizemults')
    rc = d.rcell
    toks = [case['m'], case['n']]
    toks += ['-', '-', '-'] if sm is None else [str(int(x)) for x in sm]
    toks += [_opt(q) for q in qs]
    toks += ['1' if p else '0' for p in rc.pbc]
    toks.append(cm.frs(np.asarray(rc.box.vects)))
    toks.append(cm.frs(np.asarray(rc.box.origin)))
    toks.append(str(rc.natoms))
    pos = np.asarray(rc.atoms.pos)
    for t, p in zip(rc.atoms.atype, pos):
        toks.append(str(int(t)))
        toks.append(cm.frs(p))
    toks.append(cm.frs(np.asarray(shift, dtype=float)))
    toks.append(cm.frs(np.asarray(center, dtype=float)))
    if full is None:
        toks.append('0')
    else:
        toks.append(str(full.natoms))
        toks.append(cm.frs(np.asarray(full.box.vects)))
        toks.append(cm.frs(np.asarray(full.box.origin)))
        toks.append(cm.frs(np.asarray(full.atoms.pos)))
    return ' '.join(toks)


def _split(reply):
    return [p.strip() for p in reply.split('|')]


def _fl(s):
    return [float(F(t)) for t in s.split()]


# ----------------------------------------------------------------------------------------
# comparison helpers
# ----------------------------------------------------------------------------------------
def _pos_equal(np, real, model, vects, pbc, near, tol):
    """positions agree; an atom the model flags as within rounding of a periodic face may differ by one cell vector
    along a periodic direction.  Returns (ok, worst)."""
    real = np.asarray(real)
    model = np.asarray(model)
    if real.shape != model.shape:
        return False, 'shape %s vs %s' % (real.shape, model.shape)
    diff = real - model
    s = diff.dot(np.linalg.inv(vects))
    k = np.rint(s)
    for i in range(3):
        if not pbc[i]:
            k[:, i] = 0
    k[~np.asarray(near, dtype=bool)] = 0
    res = diff - k.dot(vects)
    worst = float(np.abs(res).max()) if res.size else 0.0
    return worst <= tol, worst


def _box_equal(np, box, flat, tol):
    m = np.array(flat[:9]).reshape(3, 3)
    o = np.array(flat[9:12])
    return bool(np.abs(np.asarray(box.vects) - m).max() <= tol and np.abs(np.asarray(box.origin) - o).max() <= tol)


# ----------------------------------------------------------------------------------------
# correspondence
# ----------------------------------------------------------------------------------------
def _case_list(ctx, rng, per_crystal, bound):
    cases = []
    names = list(CRYSTALS)
    for name in names:
        lp = lattice_params(name, rng)
        systems = slip_systems(name, lp, bound, rng, per_crystal)
        for (b, xi, hkl, ch) in systems:
            m, n = rng.choice(MN)
            cases.append({'crystal': name, 'lp': lp, 'burgers': [str(x) for x in b], 'xi': list(xi), 'hkl': list(hkl),
                          'character': ch, 'm': m, 'n': n,
                          'hex4': (CRYSTALS[name][1] == 'hexagonal' and rng.random() < 0.4)})
            if rng.random() < 0.15:
                cases[-1]['tol'] = rng.choice([1e-6, 1e-7, 1e-10])       # the constructor's tolerance
    return cases


def _fix_case(case):
    c = dict(case)
    c['burgers'] = [F(x) for x in case['burgers']]
    c['xi'] = [F(x) for x in case['xi']]
    return c


SPECIAL = [
    # (crystal, lp, burgers, xi, hkl): the standard systems
    ('fcc', dict(a=4.0), ['1/2', '-1/2', '0'], [1, 1, -2], [1, 1, 1]),           # edge
    ('fcc', dict(a=4.0), ['1/2', '-1/2', '0'], [1, -1, 0], [1, 1, 1]),           # screw
    ('fcc', dict(a=3.6), ['1/2', '0', '-1/2'], [1, -1, 0], [1, 1, 1]),           # 60 degree mixed
    ('bcc', dict(a=3.0), ['1/2', '1/2', '1/2'], [1, 1, 1], [1, -1, 0]),          # screw
    ('bcc', dict(a=3.0), ['1/2', '1/2', '1/2'], [1, 1, -2], [1, -1, 0]),         # edge
    ('bcc', dict(a=2.9), ['1/2', '1/2', '-1/2'], [1, 1, 1], [1, -1, 0]),         # mixed (71 degree)
    ('bcc', dict(a=3.0), ['1/2', '1/2', '1/2'], [1, 1, 1], [1, 1, -2]),          # screw on {112}
    ('hcp', dict(a=3.0, c=4.8), ['1', '0', '0'], [1, 0, 0], [0, 0, 1]),          # basal screw
    ('hcp', dict(a=3.0, c=4.8), ['1', '0', '0'], [1, 2, 0], [0, 0, 1]),          # basal edge
    ('hcp', dict(a=3.0, c=4.8), ['1', '0', '0'], [1, 0, 0], [0, 1, 0]),          # prismatic screw
    ('hcp', dict(a=3.0, c=4.8), ['1', '0', '0'], [1, 0, 0], [0, 1, 1]),          # pyramidal screw
    ('hcp', dict(a=3.0, c=4.8), ['1', '0', '0'], [1, 1, -1], [0, 1, 1]),         # pyramidal mixed
    ('sc', dict(a=3.0), ['1', '0', '0'], [0, 1, 0], [0, 0, 1]),                  # edge, axis aligned
    ('b2', dict(a=3.0), ['1', '0', '0'], [1, 0, 0], [0, 1, 1]),                  # screw on {011}
    ('l12', dict(a=4.0), ['1', '-1', '0'], [1, 1, -2], [1, 1, 1]),               # superdislocation, edge
    # rotated cells tilted in the m-n plane (the lattice vector nearest the plane normal is not along it) and, for the
    # low-symmetry cells, also within the slip plane (the in-plane vector nearest m is not perpendicular to the line)
    ('hcp', dict(a=2.665, c=4.946), ['1', '1', '-1'], [-1, 1, 0], [1, 1, 2]),    # (11-22)<c+a> edge, c/a = 1.856
    ('hcp', dict(a=3.0, c=4.8), ['1', '1', '-1'], [1, 1, -1], [1, 1, 2]),        # (11-22)<c+a> screw
    ('bct', dict(a=3.0, c=3.75), ['1/2', '1/2', '1/2'], [0, 1, 0], [1, 0, -1]),  # (10-1) mixed
    ('ortho_c', dict(a=3.0, b=4.5, c=3.75), ['1/2', '1/2', '0'], [0, 0, 1], [1, -1, 0]),   # (1-10) edge
    ('mono', dict(a=3.0, b=4.0, c=3.5, xy=0.0, xz=-0.75, yz=0.0), ['1', '0', '-1'], [0, 1, 0], [1, 0, 1]),
    ('mono', dict(a=3.0, b=4.0, c=3.5, xy=0.0, xz=-0.75, yz=0.0), ['1', '0', '0'], [0, 0, 1], [0, 1, 0]),
    ('tric', dict(a=3.0, b=3.5, c=4.0, xy=0.5, xz=-0.75, yz=0.25), ['1', '0', '-1'], [0, 1, 0], [1, 0, 1]),
    # centred settings other than f / i / c: indices relative to the conventional cell, Burgers vectors that are not
    # integer there
    ('ortho_a', dict(a=3.0, b=4.5, c=3.75), ['0', '1/2', '1/2'], [1, 0, 0], [0, 1, -1]),   # edge
    ('ortho_b', dict(a=3.0, b=4.5, c=3.75), ['1/2', '0', '1/2'], [1, 0, -1], [0, 1, 0]),   # mixed
    ('ortho_f', dict(a=3.0, b=4.5, c=3.75), ['1/2', '1/2', '0'], [1, 1, 0], [0, 0, 1]),    # screw
    ('trig_t1', dict(a=3.0, c=7.5), ['2/3', '1/3', '1/3'], [1, 0, 0], [0, 1, -1]),         # rhombohedral vector, mixed
    ('trig_t2', dict(a=3.0, c=7.5), ['1', '0', '0'], [1, 2, 0], [0, 0, 1]),                # basal edge
]
# the same systems given with 4-index hexagonal (Miller-Bravais) input
SPECIAL_HEX4 = [7, 10, 15, 25]


def _special_cases(rng, all_mn):
    out = []
    for name, lp, b, xi, hkl in SPECIAL:
        mns = MN if all_mn else [rng.choice(MN), ('y', 'z')]
        for m, n in mns:
            out.append({'crystal': name, 'lp': lp, 'burgers': b, 'xi': xi, 'hkl': hkl, 'character': 'special',
                        'm': m, 'n': n, 'hex4': False})
    for k in SPECIAL_HEX4:
        name, lp, b, xi, hkl = SPECIAL[k]
        m, n = rng.choice(MN) if not all_mn else rng.choice([('y', 'z'), ('x', 'z'), ('z', 'x')])
        out.append({'crystal': name, 'lp': lp, 'burgers': b, 'xi': xi, 'hkl': hkl, 'character': 'special-hex4',
                    'm': m, 'n': n, 'hex4': True})
    return out


def correspond(ctx):
    rng = ctx.rng
    cases = _special_cases(rng, ctx.thorough) + _case_list(ctx, rng, ctx.n(2, 12), ctx.n(1, 2))
    ncfg = ctx.n(2, 5)
    stats = {'cells': 0, 'cells_valid': 0, 'cells_refused': 0, 'mono': 0, 'array': 0, 'refusals': 0, 'solver_refused': 0,
             'exempt_near': 0}
    jobs = []
    for case in cases:
        _correspond_case(ctx, _fix_case(case), case, ncfg, stats, jobs)
    _run_jobs(ctx, jobs)
    ctx.extra['c13_correspondence'] = stats


def _run_jobs(ctx, jobs):
    """the heavy model runs (whole configurations) on a few driver processes in parallel, then the comparisons."""
    if not jobs:
        return
    lines = [j[0] for j in jobs]
    nproc = 1 if len(lines) < 6 else 4
    if nproc == 1:
        outs = [ctx.driver.ask(l) for l in lines]
    else:
        import threading
        ds = [ctx.driver] + [cm.Driver('drv_c13') for _ in range(nproc - 1)]
        outs = [None] * len(lines)
        order = sorted(range(len(lines)), key=lambda i: -len(lines[i]))     # longest first, round robin
        parts = [order[i::nproc] for i in range(nproc)]

        def run(dr, idx):
            for i in idx:
                outs[i] = dr.ask(lines[i])
        ts = [threading.Thread(target=run, args=(dr, idx)) for dr, idx in zip(ds, parts)]
        for t in ts:
            t.start()
        for t in ts:
            t.join()
        for dr in ds[1:]:
            ctx.driver.n += dr.n
            dr.close()
        if any(o is None for o in outs):
            raise cm.InfraError('driver died in parallel batch')
    for (line, fn), out in zip(jobs, outs):
        fn(out)


def _sample(case):
    return {k: (v if not isinstance(v, list) else [str(x) for x in v]) for k, v in case.items()}


def _correspond_case(ctx, case, raw, ncfg, stats, jobs):
    np = _np()
    rng = ctx.rng
    info = {'op': 'case', 'case': _sample(raw)}
    canon = (raw['crystal'], tuple(sorted(raw['lp'].items())), tuple(map(str, raw['burgers'])), tuple(raw['xi']),
             tuple(raw['hkl']), raw['m'], raw['n'])
    try:
        ucell, d = make_disl(case)
        impl = 'ok'
    except Exception as e:  # noqa
        impl = _err_class(e)
        msg = str(e)
        if 'isotropic' in msg or 'Stroh' in msg or 'eigen' in msg.lower():
            stats['solver_refused'] += 1
            ctx.stats.case('cells:solver-refusal', canon, nontrivial=False)
            return
        ucell, _C = build_ucell(case['crystal'], case['lp'])
        d = None
    out = ctx.driver.ask(cells_line(case, ucell))
    stats['cells'] += 1
    ctx.stats.case('cells:' + raw['crystal'] + ':' + raw['character'], canon, sample=_sample(raw))
    if d is None:
        stats['cells_refused'] += 1
        if not out.startswith('err:'):
            ctx.disagree('cells:refusal', f'Dislocation(...) raised {impl} ({msg[:100]}) but the model returns {out[:80]}', info)
        elif out[4:] != impl.split()[0]:
            ctx.disagree('cells:refusal-class', f'Dislocation(...) raised {impl}, model {out}', info)
        return
    if out.startswith('err:'):
        ctx.disagree('cells:refusal', f'Dislocation(...) returned uvws {np.asarray(d.uvws_prim).tolist()} but the model '
                     f'refuses ({out})', info)
        return
    parts = [p.split() for p in out[3:].split(';')]
    U = [int(t) for t in parts[0]]
    cut, line, motion = [int(t) for t in parts[1]]
    conv = [F(t) for t in parts[3]]
    mTie, nTie, planeNear = [t == '1' for t in parts[4]]
    impl_U = np.asarray(d.uvws_prim, dtype=float).ravel()
    impl_Ui = [int(round(x)) for x in impl_U]
    if np.abs(impl_U - np.array(impl_Ui)).max() > 1e-9:
        ctx.disagree('cells:integer', f'uvws_prim not integral: {impl_U.tolist()}', info)
        return
    if (cut, line, motion) != (d.cutindex, d.lineindex, d.motionindex):
        ctx.disagree('cells:indices', f'(cut, line, motion) = {(d.cutindex, d.lineindex, d.motionindex)}, model '
                     f'{(cut, line, motion)}', info)
        return
    if impl_Ui != U:
        if mTie or nTie or planeNear:
            vo = ctx.driver.ask(cells_line(case, ucell, 'cellsvalid', ' ' + ' '.join(map(str, impl_Ui)) + ' 1 100000000'))
            stats['cells_valid'] += 1
            if vo != '1':
                ctx.disagree('cells:valid', f'uvws_prim {impl_Ui} is not a possible outcome of the searches ({vo}); model {U}',
                             dict(info, impl=impl_Ui, model=U))
                return
            # continue with the implementation's choice: nothing below depends on the model's uvws
        else:
            ctx.disagree('cells:uvws', f'{raw["crystal"]} b={raw["burgers"]} xi={raw["xi"]} hkl={raw["hkl"]} m={raw["m"]} '
                         f'n={raw["n"]}: uvws_prim {impl_Ui}, model {U}', dict(info, impl=impl_Ui, model=U))
            return
    else:
        uv = np.asarray(d.uvws, dtype=float)
        if uv.shape == (3, 4):
            uv = np.array([[2 * r[0] + r[1], 2 * r[1] + r[0], r[3]] for r in uv])
        if np.abs(uv.ravel() - np.array([float(x) for x in conv])).max() > 1e-9:
            ctx.disagree('cells:uvws-conv', f'uvws {np.asarray(d.uvws).tolist()} vs model {[str(x) for x in conv]}', info)
        if stats['cells'] % 4 == 0:
            # the relational model (used when float ties decide) accepts the functional model's answer and rejects a
            # non-reduced in-plane vector
            v1 = ctx.driver.ask(cells_line(case, ucell, 'cellsvalid', ' ' + ' '.join(map(str, U)) + ' 1 100000000'))
            bad = list(U)
            bad[3 * motion:3 * motion + 3] = [2 * x for x in bad[3 * motion:3 * motion + 3]]
            v2 = ctx.driver.ask(cells_line(case, ucell, 'cellsvalid', ' ' + ' '.join(map(str, bad)) + ' 1 100000000'))
            ctx.stats.case('cells:relational-selfcheck', canon, nontrivial=False)
            if v1 != '1' or not v2.startswith('0'):
                ctx.disagree('cells:relational', f'relational model: own answer -> {v1}, non-reduced vector -> {v2}', info)
    # ---- shifts --------------------------------------------------------------------------------
    W = d.rcell.box.vects[d.cutindex, d.cutindex]
    tol_ = float(raw.get('tol') or TOL)
    so = ctx.driver.ask('shifts %d %s %s %s' % (-int(np.floor(np.log10(tol_))), cm.fr(tol_), cm.fr(W),
                                                cm.frs(np.asarray(d.rcell.atoms.pos)[:, d.cutindex])))
    ctx.stats.case('shifts', canon, nontrivial=False)
    if so.startswith('err'):
        ctx.disagree('shifts:refusal', f'model refuses the shift list: {so}', info)
    else:
        ms = [float(F(t)) for t in so.split(';')[0].split()]
        d._c13_shifts = ms
        sh = np.asarray(d.shifts, dtype=float)
        other = [i for i in range(3) if i != d.cutindex]
        if len(ms) != len(sh) or np.abs(sh[:, d.cutindex] - np.array(ms)).max() > 1e-9 * max(1.0, W) \
                or np.abs(sh[:, other]).max() != 0.0:
            ctx.disagree('shifts', f'shifts {sh.tolist()} vs model {ms} along axis {d.cutindex}', info)
    # ---- configurations --------------------------------------------------------------------------
    for k in range(ncfg):
        kind = 'mono' if k % 2 == 0 else 'array'
        cfg = gen_config(rng, d, kind, ctx.n(200, 500))
        _correspond_config(ctx, case, raw, ucell, d, cfg, stats, jobs)


def _table(np, d, base_pos, center):
    return np.asarray(d.dislsol.displacement(np.asarray(base_pos) - center), dtype=float)


def _full_base(np, d, sizes6, shift):
    """the untrimmed reference system, rebuilt with the library's own supersize/wrap (needed for the displacement
    table of the periodic array, whose returned base system is trimmed)."""
    mults = [(sizes6[0], sizes6[1]), (sizes6[2], sizes6[3]), (sizes6[4], sizes6[5])]
    b = d.rcell.supersize(*mults)
    b.atoms.pos += shift
    b.wrap()
    return b


def _array_margins(np, d, full, center, cutoff):
    """how close the boundary-atom selection and the duplicate test of build_disl_array are to their thresholds
    (float re-computation, only used to exempt decisions taken within rounding error)."""
    bv = np.asarray(full.box.vects)
    b = np.asarray(d.dislsol.burgers)
    m = np.asarray(d.dislsol.m)
    n = np.asarray(d.dislsol.n)
    mo, cut = d.motionindex, d.cutindex
    L = abs(bv[mo].dot(m))
    pos = np.asarray(full.atoms.pos)
    p0 = pos - center
    test = pos + np.outer(np.sign(p0.dot(n)) * (0.25 - p0.dot(m) / (2 * L)), b)
    nv = bv.copy()
    nv[mo] += (-b / 2 if b.dot(m) > 0 else b / 2)
    s = (test - np.asarray(full.box.origin)).dot(np.linalg.inv(nv))[:, mo]
    sb = abs(2 * b[mo] / L)
    bidm = float(np.minimum(np.abs(s - sb), np.abs(s - (1 - sb))).min())
    ids = np.where((s < sb) | (s > 1 - sb))[0]
    dupm = 1.0
    if len(ids) > 1 and cutoff > 0:
        q = test[ids]
        best = np.full((len(ids), len(ids)), np.inf)
        rng3 = [(-1, 0, 1) if i != cut else (0,) for i in range(3)]
        for a in rng3[0]:
            for bb in rng3[1]:
                for c in rng3[2]:
                    sh = a * nv[0] + bb * nv[1] + c * nv[2]
                    dd = q[None, :, :] - q[:, None, :] + sh
                    best = np.minimum(best, np.sqrt((dd ** 2).sum(axis=2)))
        iu = np.triu_indices(len(ids), 1)
        dupm = float((np.abs(best[iu] - cutoff) / cutoff).min())
    return bidm, dupm


def _correspond_config(ctx, case, raw, ucell, d, cfg, stats, jobs):
    np = _np()
    kind = cfg['kind']
    info = {'op': 'config', 'case': _sample(raw), 'cfg': cfg}
    canon = (raw['crystal'], tuple(map(str, raw['burgers'])), tuple(raw['xi']), tuple(raw['hkl']), raw['m'], raw['n'],
             tuple(sorted((k, str(v)) for k, v in cfg.items())))
    # shift resolution happens inside the generator; replicate the call on a fresh object so that `d` keeps its state
    res = run_config(d, cfg)
    d = res[3]
    label = f'{raw["crystal"]} b={raw["burgers"]} xi={raw["xi"]} hkl={raw["hkl"]} m={raw["m"]} n={raw["n"]} {cfg}'
    if res[0] == 'err' and res[1] == 'solver':
        stats['solver_refused'] += 1
        return                                            # complex elastic field
    try:
        shift = np.asarray(d.shift, dtype=float)
    except Exception as e:  # noqa
        ctx.disagree('shift:attribute', f'{label}: reading .shift raised {type(e).__name__}: {e}', info)
        return
    qs, center, width = _resolved(d, cfg, ucell)
    # the whole argument handling of the call (multipliers, shift, centre, width, shape; refusal order; stored shift)
    _correspond_head(ctx, np, d, cfg, res, ucell, label, info, stats)
    # which shift / centre / width: the model's parameter handling over the configuration's history of calls
    if not _correspond_params(ctx, np, d, cfg, res, ucell, label, info, stats, center, width):
        return
    if cfg.get('sm_form'):
        ctx.stats.case(kind + ':bad-multipliers', canon, nontrivial=False)
        if res[0] != 'err' or res[1] != 'type':
            ctx.disagree(kind + ':sizemults', f'{label}: multipliers of the form {cfg["sm_form"]} '
                         f'({_sm_form(cfg["sizemults"], cfg["sm_form"])}) are not three positive integers: the model refuses '
                         f'(TypeError), implementation {res[0] if res[0] == "ok" else res[1:3]}', info)
        return
    # multipliers first (cheap, also covers the TypeError refusal)
    sm = cfg.get('sizemults')
    sline = 'sizes %d %s %s' % (d.lineindex, ' '.join(['-'] * 3 if sm is None else [str(int(x)) for x in sm]),
                                ' '.join(_opt(q) for q in qs))
    so = ctx.driver.ask(sline)
    ctx.stats.case(kind + ':' + raw['crystal'], canon, nontrivial=(res[0] == 'ok'),
                   sample={'case': _sample(raw), 'cfg': cfg, 'result': res[0] if res[0] == 'ok' else res[1:3]})
    stats[kind] += 1
    if so.startswith('err:'):
        stats['refusals'] += 1
        if res[0] != 'err' or res[1] != so[4:]:
            ctx.disagree(kind + ':sizemults', f'{label}: model refuses the multipliers ({so}), implementation '
                         f'{res[0] if res[0] == "ok" else res[1:3]}', info)
        return
    if res[0] == 'err' and res[1] == 'type':
        ctx.disagree(kind + ':sizemults', f'{label}: implementation raised TypeError ({res[2]}), model accepts {so}', info)
        return
    sizes6 = [int(t) for t in so.split()]
    full = _full_base(np, d, sizes6, shift)
    common = common_part(case, d, cfg, shift, qs, center, full)
    tpos = np.array(full.atoms.pos)
    if kind == 'array':
        # build_disl_array first moves atoms on the upper face along the motion direction to the lower face
        sp = _rel(np, tpos, full.box)[:, d.motionindex]
        on = np.isclose(sp, 1.0, rtol=0.0, atol=1e-8)
        tpos[on] -= np.asarray(full.box.vects)[d.motionindex]
    tab = _table(np, d, tpos, center)
    if not np.all(np.isfinite(tab)):
        # an atom exactly on the dislocation line: the elastic field is singular there (outside the property)
        if res[0] == 'ok' and (kind == 'mono' or not cfg.get('linear')):
            stats['singular'] = stats.get('singular', 0) + 1
            return
        tab = np.nan_to_num(tab, nan=0.0, posinf=0.0, neginf=0.0)
    nsym = len(d.rcell.symbols)
    if kind == 'mono':
        shape = cfg.get('boundaryshape', 'cylinder')
        line = 'mono %s %s %s %d %d %s' % (common, shape, cm.fr(width), nsym, len(tab), cm.frs(tab))
        jobs.append((line, lambda out: _compare_mono(ctx, np, d, cfg, res, out, label, info, stats, width, full)))
    else:
        cutoff = cfg.get('cutoff')
        cutoff = 0.5 if cutoff is None else cutoff
        line = 'array %s %s %d %s %s %d %d %s' % (common, cm.frs(np.asarray(d.dislsol.burgers)), int(bool(cfg.get('linear'))),
                                                  cm.fr(width), cm.fr(cutoff), nsym, len(tab), cm.frs(tab))
        marg = _array_margins(np, d, full, center, cutoff)
        jobs.append((line, lambda out: _compare_array(ctx, np, d, cfg, res, out, label, info, stats, width, full, marg)))
    if res[0] == 'ok':
        _correspond_disreg(ctx, np, raw, d, cfg, res, label, info, stats)
        if kind == 'mono':
            _correspond_region(ctx, np, raw, d, cfg, res, label, info, stats)


def _args_wire(np, spec):
    sh = spec.get('shift')
    return '%s %s %d' % ('-' if sh is None else cm.frs(np.asarray(sh, dtype=float)),
                         '-' if spec.get('shiftindex') is None else str(int(spec['shiftindex'])),
                         1 if spec.get('shiftscale') else 0)


def _correspond_params(ctx, np, d, cfg, res, ucell, label, info, stats, center, width):
    """driver op `params`: the model's set_shift / generator shift handling run over the history of the configuration
    (construction, set_shift, generator call) against the shift the real object reports after every step; the
    centre / width conversions the harness passes on to the model are checked against the model's own.
    -> False when the rest of the comparison makes no sense."""
    ms = getattr(d, '_c13_shifts', None)
    cut = d.cutindex
    if ms:
        S = np.zeros((len(ms), 3))
        S[:, cut] = ms
    else:
        S = np.asarray(d.shifts, dtype=float)
    call = {k: cfg[k] for k in SHIFT_KEYS if cfg.get(k) is not None}
    calls = []
    if cfg.get('init') is not None and cfg.get('setshift') is not None:
        calls.append('set ' + _args_wire(np, cfg['setshift']))
    calls.append('gen ' + _args_wire(np, call))
    c = cfg.get('center')
    line = 'params %s %s %d %s %s %d %s %s %d %s %d' % (
        cm.frs(np.asarray(d.rcell.box.vects)), cm.fr(ucell.box.a), len(S), cm.frs(S),
        _args_wire(np, cfg.get('init') or {}), len(calls), ' '.join(calls),
        '-' if c is None else cm.frs(np.asarray(c, dtype=float)), 1 if cfg.get('centerscale') else 0,
        cm.fr(float(cfg.get('boundarywidth', 0.0))), 1 if cfg.get('boundaryscale') else 0)
    out = ctx.driver.ask(line)
    stats['params'] = stats.get('params', 0) + 1
    what = '+'.join(sorted(k for k in ('init', 'setshift') if cfg.get(k) is not None) +
                    sorted(k for k in call)) or 'stored'
    ctx.stats.case('params:' + what, (label,), nontrivial=(res[0] == 'ok'))
    if res[0] == 'err' and res[1].startswith('init '):
        if out != 'err:' + res[1].split()[1]:
            ctx.disagree('shift:construction', f'{label}: Dislocation(..., {cfg["init"]}) raised {res[1:3]}, model {out[:60]}',
                         info)
        return False
    if out.startswith('err:'):
        if out == 'err:format':
            raise cm.InfraError('params line rejected by the driver: ' + line[:200])
        ctx.disagree('shift:construction', f'{label}: Dislocation(..., {cfg.get("init")}) was constructed, the model refuses '
                     f'({out})', info)
        return False
    f = _split(out)
    replies = [r.strip() for r in f[1].split(';')]

    def same(a, b):
        a, b = np.asarray(a, dtype=float), np.asarray(b, dtype=float)
        return a.shape == b.shape and float(np.abs(a - b).max()) <= 1e-9 * max(1.0, float(np.abs(b).max()))
    trace = list(getattr(d, '_c13_trace', []))
    state = _fl(f[0][3:])
    if cfg.get('init') is None:
        # shared object: what it held before the call is part of its (unrecorded) past: take the observation
        state = next((t_[2] for t_ in trace if t_[0] == 'before' and t_[1] == 'ok'), state)
    steps = []                                            # (kind, model reply) in order
    if cfg.get('init') is not None:
        steps.append(('ctor', 'ok ' + f[0][3:]))
        if cfg.get('setshift') is not None:
            steps.append(('set', replies[0]))
    steps.append(('gen', replies[-1]))
    ti = 0
    for kind_, rep in steps:
        if kind_ == 'gen' and res[0] == 'err' and res[1] == 'type':
            return True                                   # refused for its multipliers before the shift is looked at
        while ti < len(trace) and trace[ti][0] != kind_:
            ti += 1
        if ti >= len(trace):
            break                                         # shared object: only the generator step is observed
        ob = trace[ti]
        ti += 1
        if rep.startswith('ok'):
            mv = _fl(rep[3:])
            if ob[1] == 'ok':
                if not same(ob[2], mv):
                    ctx.disagree('shift:resolution', f'{label}: after {kind_} the object reports shift {ob[2]}, model {mv} '
                                 f'(history: init={cfg.get("init")}, set_shift={cfg.get("setshift")}, call={call})', info)
                    return False
            else:
                later = kind_ == 'gen' and res[0] == 'err' and (
                    res[1] not in ('value', 'index')
                    or (cfg['kind'] == 'mono' and cfg.get('boundaryshape', 'cylinder') not in ('cylinder', 'box')))
                if not later:
                    ctx.disagree('shift:refusal', f'{label}: {kind_} raised {ob[2]} '
                                 f'({res[2] if res[0] == "err" else ""}), the model resolves the shift to {mv}', info)
                    return False
                # refused later (slip plane, deletion count, radius): the shift had been set
                if ti < len(trace) and trace[ti][0] == 'after-refusal' and trace[ti][1] == 'ok' and not same(trace[ti][2], mv):
                    ctx.disagree('shift:resolution', f'{label}: after the refused {kind_} the object reports shift '
                                 f'{trace[ti][2]}, model {mv}', info)
                    return False
            state = mv
        else:
            if ob[1] == 'ok':
                ctx.disagree('shift:refusal', f'{label}: {kind_} with {cfg.get("setshift") if kind_ == "set" else call} was '
                             f'accepted (shift {ob[2]}), the model refuses ({rep})', info)
                return False
            if ob[2] != rep[4:]:
                ctx.disagree('shift:refusal-class', f'{label}: {kind_} raised {ob[2]}, model {rep}', info)
                return False
            if ti < len(trace) and trace[ti][0] == 'after-refusal' and trace[ti][1] == 'ok' and not same(trace[ti][2], state):
                ctx.disagree('shift:refused-call-changed-state', f'{label}: the refused {kind_} left shift {trace[ti][2]}, '
                             f'before it was {state}', info)
                return False
            if kind_ == 'gen':
                return False
    mc = np.array(_fl(f[3]))
    mw = float(F(f[4]))
    if float(np.abs(mc - center).max()) > 1e-12 * max(1.0, float(np.abs(mc).max())) or abs(mw - width) > 1e-12 * max(1.0, mw):
        ctx.disagree('params:harness', f'{label}: centre / width handed to the model {np.asarray(center).tolist()}, {width} '
                     f'differ from the model\'s own conversion {mc.tolist()}, {mw}', info)
        return False
    return True


def _mults_wire(cfg):
    """the `sizemults` argument as the asserts of the generators see it: `-` (not given) or the entries, each an
    integer value (`isinstance(x, int)`: Python ints and bools) or something else."""
    sm = cfg.get('sizemults')
    if sm is None:
        return '-'
    given = _sm_form(sm, cfg['sm_form']) if cfg.get('sm_form') else list(sm)
    return '%d %s' % (len(given), ' '.join(('i%d' % int(x)) if isinstance(x, int) else 'o' for x in given))


def _correspond_head(ctx, np, d, cfg, res, ucell, label, info, stats):
    """driver op `head`: the model's whole argument handling of one generator call (`callHead`: multipliers incl. the
    minimum lengths, shift arguments, centre, width, shape; refusal class, refusal ORDER and the shift the object holds
    afterwards) against what the real call did."""
    if res[0] == 'err' and (res[1].startswith('init ') or res[1] in ('mutated', 'return-value', 'solver')):
        return
    trace = list(getattr(d, '_c13_trace', []))
    before = next((t_[2] for t_ in trace if t_[0] == 'before' and t_[1] == 'ok'), None)
    if before is None:
        return
    ms = getattr(d, '_c13_shifts', None)
    if ms:
        S = np.zeros((len(ms), 3))
        S[:, d.cutindex] = ms
    else:
        S = np.asarray(d.shifts, dtype=float)
    kind = cfg['kind']
    call = {k: cfg[k] for k in SHIFT_KEYS if cfg.get(k) is not None}
    lens = [float(d.rcell.box.a), float(d.rcell.box.b), float(d.rcell.box.c)]
    mins = [float(cfg.get(k, 0.0)) for k in ('amin', 'bmin', 'cmin')]
    ambiguous = any(v > 0 and len(expected_min_mults(v, L)) > 1 for v, L in zip(mins, lens))
    c = cfg.get('center')
    shape = cfg.get('boundaryshape', 'cylinder') if kind == 'mono' else 'box'
    if not shape or len(str(shape).split()) != 1:
        return
    line = 'head %d %d %s %s %s %d %s %s %s %s %s %s %d %s %s %d' % (
        1 if kind == 'mono' else 0, d.lineindex, cm.frs(np.asarray(d.rcell.box.vects)), cm.frs(np.array(lens)),
        cm.fr(float(ucell.box.a)), len(S), cm.frs(S), cm.frs(np.asarray(before, dtype=float)), _mults_wire(cfg),
        cm.frs(np.array(mins)), _args_wire(np, call),
        '-' if c is None else cm.frs(np.asarray(c, dtype=float)), 1 if cfg.get('centerscale') else 0, shape,
        cm.fr(float(cfg.get('boundarywidth', 0.0))), 1 if cfg.get('boundaryscale') else 0)
    out = ctx.driver.ask(line)
    if out == 'err:format':
        raise cm.InfraError('head line rejected by the driver: ' + line[:200])
    stats['head'] = stats.get('head', 0) + 1
    ctx.stats.case('head:' + kind, (label,), nontrivial=(res[0] == 'ok'))
    f = _split(out)

    def same(a, b):
        a, b = np.asarray(a, dtype=float), np.asarray(b, dtype=float)
        return a.shape == b.shape and float(np.abs(a - b).max()) <= 1e-9 * max(1.0, float(np.abs(b).max()))
    after = None
    for t_ in trace:
        if t_[0] in ('gen', 'after-refusal') and t_[1] == 'ok':
            after = t_[2]
    stored = _fl(f[-1])
    if out.startswith('err:'):
        cls = f[0][4:].strip()
        if res[0] != 'err' or res[1] != cls:
            if cls == 'type' and ambiguous:
                return
            ctx.disagree('head:refusal', f'{label}: the model refuses the call with {cls} (argument handling), the '
                         f'implementation {"returned a system" if res[0] == "ok" else "raised " + str(res[1:3])}', info)
            return
        if after is not None and not same(after, stored):
            ctx.disagree('head:state-after-refusal', f'{label}: after the refused call ({cls}: {res[2]}) the object holds shift '
                         f'{after}, model {stored} (before the call: {before})', info)
        return
    # the model accepts the arguments: the implementation may only refuse later (slip plane, count, radius)
    if res[0] == 'err':
        if res[1] in ('type', 'value', 'index'):
            ctx.disagree('head:refusal', f'{label}: the implementation raised {res[1:3]}, the model accepts the arguments '
                         f'({out[:80]})', info)
            return
        if after is not None and not same(after, stored):
            ctx.disagree('head:state-after-refusal', f'{label}: after the call refused later ({res[1]}) the object holds shift '
                         f'{after}, model {stored}', info)
        return
    if after is not None and not same(after, stored):
        ctx.disagree('head:shift', f'{label}: after the call the object holds shift {after}, model {stored}', info)
        return
    if ambiguous:
        stats['exempt_near'] = stats.get('exempt_near', 0) + 1
        return
    base = res[1]
    rv = np.asarray(d.rcell.box.vects, dtype=float)
    bv = np.asarray(base.box.vects, dtype=float)
    tot = [int(round(float(np.linalg.norm(bv[i]) / np.linalg.norm(rv[i])))) for i in range(3)]
    lo = [int(round(float(x))) for x in np.linalg.solve(rv.T, np.asarray(base.box.origin, dtype=float))]
    real6 = [v for i in range(3) for v in (lo[i], lo[i] + tot[i])]
    model6 = [int(t) for t in f[0][3:].split()]
    if real6 != model6:
        ctx.disagree('head:sizes', f'{label}: the reference system spans the replicas (lo, hi) = {real6} of the rotated cell, '
                     f'model {model6} (sizemults={cfg.get("sizemults")}, minima {mins}, periods {lens})', info)


def _correspond_region(ctx, np, raw, d, cfg, res, label, info, stats):
    """the region model against the generator for boundary widths immediately on either side of an atom's depth below
    every face (box) / distance from the line (cylinder): driver op `region` on the real positions and reference box."""
    base, disl = res[1], res[2]
    shape = cfg.get('boundaryshape', 'cylinder')
    sc = float(np.abs(np.asarray(base.box.vects)).max())
    for pc in _probe_cfgs(np, ctx.rng, d, base, disl, cfg, shape, sc, nmax=ctx.n(4, 8)):
        pres = run_config(d, pc)
        w = pc['boundarywidth']
        line = 'region %s %s %s %s %s %s %d %s' % (raw['m'], raw['n'], shape, cm.fr(w), cm.frs(np.asarray(base.box.vects)),
                                                  cm.frs(np.asarray(base.box.origin)), disl.natoms,
                                                  cm.frs(np.asarray(disl.atoms.pos)))
        out = ctx.driver.ask(line)
        stats['region'] = stats.get('region', 0) + 1
        ctx.stats.case('region:' + shape, (label, w), nontrivial=(pres[0] == 'ok'))
        pinfo = dict(info, cfg=pc)
        plab = label.rsplit(" {'kind'", 1)[0] + ' ' + str(pc)
        if out.startswith('err:'):
            if pres[0] != 'err' or pres[1] != out[4:]:
                ctx.disagree('region:refusal', f'{plab}: model {out}, implementation '
                             f'{pres[0] if pres[0] == "ok" else pres[1:3]}', pinfo)
            continue
        if pres[0] == 'err':
            ctx.disagree('region:refusal', f'{plab}: implementation raised {pres[1:3]}, model accepts', pinfo)
            continue
        f = _split(out)
        flags = [t == '1' for t in f[1].split()]
        near = [t == '1' for t in f[2].split()]
        got = (np.asarray(pres[2].atoms.atype) != np.asarray(pres[1].atoms.atype)).tolist()
        if len(got) != len(flags):
            ctx.disagree('region:natoms', f'{plab}: {len(got)} atoms vs model {len(flags)}', pinfo)
            continue
        bad = [i for i, (a, b) in enumerate(zip(got, flags)) if a != b and not near[i]]
        stats['exempt_near'] += sum(1 for i, (a, b) in enumerate(zip(got, flags)) if a != b and near[i])
        if bad:
            i = bad[0]
            ctx.disagree('region:boundary', f'{plab}: atom {i} at {np.asarray(pres[2].atoms.pos)[i].tolist()} is '
                         f'{"" if got[i] else "not "}re-typed, the model region says {"outside" if flags[i] else "inside"} '
                         f'({len(bad)} atoms differ)', pinfo)
            return


def _correspond_disreg(ctx, np, raw, d, cfg, res, label, info, stats):
    """atomman.defect.disregistry against the Lean model (driver op `disreg`) on the generated pair of systems, with the
    plane position at the core centre, elsewhere in the same gap, and in other gaps (also outside the crystal)."""
    import atomman as am
    base, disl = res[1], res[2]
    if base.natoms != disl.natoms or base.natoms > 400:
        return
    m = np.asarray(d.dislsol.m, dtype=float)
    n = np.asarray(d.dislsol.n, dtype=float)
    ax = {'x': [1.0, 0.0, 0.0], 'y': [0.0, 1.0, 0.0], 'z': [0.0, 0.0, 1.0]}
    if m.tolist() != ax[raw['m']] or n.tolist() != ax[raw['n']]:
        ctx.disagree('disreg:axes', f'{label}: dislsol.m, n = {m.tolist()}, {n.tolist()} are not the axes {raw["m"]}, {raw["n"]}',
                     info)
        return
    rng = ctx.rng
    center = np.zeros(3) if cfg.get('center') is None else np.asarray(cfg['center'], dtype=float)
    if cfg.get('centerscale'):
        center = center.dot(np.asarray(d.rcell.box.vects, dtype=float))
    y = np.asarray(base.atoms.pos).dot(n)
    pps = [None, center.copy()]
    q = np.array([rng.uniform(-3, 3) for _ in range(3)])
    q = q - q.dot(n) * n + rng.uniform(float(y.min()) - 0.5, float(y.max()) + 0.5) * n
    pps.append(q)
    if rng.random() < 0.5:
        ys = np.unique(y)
        pps.append(float(ys[rng.randrange(len(ys))]) * n)      # exactly on an atomic plane
    try:
        disp = np.asarray(am.displacement(base, disl))
    except Exception as e:  # noqa
        ctx.disagree('disreg:displacement', f'{label}: atomman.displacement(base, disl) raised {type(e).__name__}: {e}', info)
        return
    for pp in pps:
        kw = {} if pp is None else {'planepos': pp}
        try:
            x, dr = am.defect.disregistry(base, disl, m=m, n=n, **kw)
            impl = 'ok'
        except Exception as e:  # noqa
            impl = _err_class(e).split()[0]
        ppv = np.zeros(3) if pp is None else pp
        out = ctx.driver.ask('disreg %s %s %s %d %s %s' % (raw['m'], raw['n'], cm.frs(ppv), base.natoms,
                                                          cm.frs(np.asarray(base.atoms.pos)), cm.frs(disp)))
        stats['disreg'] = stats.get('disreg', 0) + 1
        ctx.stats.case('disreg', (label, tuple(ppv.tolist())), nontrivial=(impl == 'ok'))
        dinfo = dict(info, planepos=None if pp is None else pp.tolist())
        if out.startswith('err:'):
            if impl != out[4:]:
                ctx.disagree('disreg:refusal', f'{label}: disregistry(planepos={ppv.tolist()}): model {out}, implementation '
                             f'{impl}', dinfo)
            continue
        f = _split(out)
        if float(F(f[3])) < 1e-9:
            stats['exempt_near'] += 1
            continue
        if impl != 'ok':
            ctx.disagree('disreg:refusal', f'{label}: disregistry(planepos={ppv.tolist()}) raised {impl}, model accepts', dinfo)
            continue
        mc = np.array(_fl(f[1]))
        mv = np.array(_fl(f[2])).reshape(-1, 3)
        sc = max(1.0, float(np.abs(disp).max()))
        if len(mc) != len(x) or np.abs(mc - np.asarray(x)).max() > 0.0:
            ab = _fl(f[0][3:])
            ctx.disagree('disreg:coord', f'{label}: disregistry(planepos={ppv.tolist()}) returned {len(x)} coordinates, the '
                         f'model {len(mc)} (planes at {ab[1]} and {ab[0]} adjoin the slip plane at {float(ppv.dot(n))})', dinfo)
            continue
        if np.abs(mv - np.asarray(dr)).max() > 1e-9 * sc:
            i = int(np.argmax(np.abs(mv - np.asarray(dr)).max(axis=1)))
            ctx.disagree('disreg:values', f'{label}: disregistry(planepos={ppv.tolist()}) at x = {x[i]}: {dr[i].tolist()}, '
                         f'model {mv[i].tolist()}', dinfo)


def _compare_base(ctx, np, kind, full, bbox, bpos, btyp, w1, label, info):
    """stage A: the model's own supersize + shift + wrap against the implementation's reference system (an atom within
    rounding error of a periodic face may sit on the opposite face)."""
    scale = float(np.abs(np.asarray(full.box.vects)).max())
    tol = 1e-9 * scale
    if full.natoms != len(bpos):
        ctx.disagree(kind + ':natoms', f'{label}: reference system has {full.natoms} atoms, model {len(bpos)}', info)
        return False
    if not _box_equal(np, full.box, bbox, tol):
        ctx.disagree(kind + ':base-box', f'{label}: reference box {np.asarray(full.box.vects).tolist()} vs model {bbox}', info)
        return False
    ok, worst = _pos_equal(np, full.atoms.pos, bpos, np.asarray(full.box.vects), full.pbc, w1, tol)
    if not ok:
        ctx.disagree(kind + ':base-pos', f'{label}: reference positions differ from supersize+shift+wrap of the model ({worst})',
                     info)
        return False
    if btyp is not None and list(map(int, full.atoms.atype)) != btyp:
        ctx.disagree(kind + ':base-atype', f'{label}: reference atom types differ', info)
        return False
    return True


def _compare_mono(ctx, np, d, cfg, res, out, label, info, stats, width, full):
    if out.startswith('err:'):
        stats['refusals'] += 1
        if res[0] != 'err' or res[1].split()[0] != out[4:].split()[0]:
            ctx.disagree('mono:refusal', f'{label}: model {out}, implementation {res[0] if res[0] == "ok" else res[1:3]}', info)
        return
    if res[0] == 'err':
        ctx.disagree('mono:refusal', f'{label}: implementation raised {res[1]} ({res[2]}), model accepts', info)
        return
    base, disl = res[1], res[2]
    f = _split(out)
    bbox = _fl(f[0][3:])
    bpos = np.array(_fl(f[1])).reshape(-1, 3)
    dbox = _fl(f[2])
    dpos = np.array(_fl(f[3])).reshape(-1, 3)
    dtyp = [int(t) for t in f[4].split()]
    pbc = [t == '1' for t in f[5].split()]
    w1 = [t == '1' for t in f[6].split()]
    w2 = [t == '1' for t in f[7].split()]
    bnear = [t == '1' for t in f[8].split()]
    btyp = [int(t) for t in f[10].split()]
    scale = float(np.abs(np.asarray(base.box.vects)).max())
    tol = 1e-9 * scale
    if base.natoms != len(bpos) or disl.natoms != len(dpos):
        ctx.disagree('mono:natoms', f'{label}: natoms base {base.natoms} disl {disl.natoms}, model {len(bpos)}', info)
        return
    if not _compare_base(ctx, np, 'mono', base, bbox, bpos, btyp, w1, label, info):
        return
    if list(map(bool, disl.pbc)) != pbc:
        ctx.disagree('mono:pbc', f'{label}: pbc {list(disl.pbc)} vs model {pbc}', info)
        return
    padm = float(F(f[11])) if len(f) > 11 else 1.0
    if padm < 1e-9:
        # an outermost atom within rounding error of a non-periodic face: `min <= 0` / `max >= 1` may fall either way
        stats['exempt_near'] += 1
        li = d.lineindex
        if np.abs(np.asarray(disl.box.vects)[li] - np.array(dbox[3 * li:3 * li + 3])).max() > tol:
            ctx.disagree('mono:disl-box', f'{label}: periodic box vector changed', info)
            return
    elif not _box_equal(np, disl.box, dbox, tol):
        ctx.disagree('mono:disl-box', f'{label}: box of the dislocation system {np.asarray(disl.box.vects).tolist()} '
                     f'{np.asarray(disl.box.origin).tolist()} vs model {dbox}', info)
        return
    ok, worst = _pos_equal(np, disl.atoms.pos, dpos, np.asarray(base.box.vects), pbc, w2, tol)
    if not ok:
        ctx.disagree('mono:disl-pos', f'{label}: displaced positions differ from pos + u(pos - center), wrapped along the '
                     f'line ({worst})', info)
        return
    it = list(map(int, disl.atoms.atype))
    bad = [i for i, (a, b) in enumerate(zip(it, dtyp)) if a != b and not bnear[i]]
    stats['exempt_near'] += sum(1 for i, (a, b) in enumerate(zip(it, dtyp)) if a != b and bnear[i])
    if bad:
        i = bad[0]
        ctx.disagree('mono:boundary', f'{label}: atom {i} at {np.asarray(disl.atoms.pos)[i].tolist()} has atype {it[i]}, '
                     f'model {dtyp[i]} ({len(bad)} atoms differ)', info)
        return
    if width > 0.0:
        exp_sym = tuple(base.symbols) * 2
        if tuple(disl.symbols) != exp_sym:
            ctx.disagree('mono:symbols', f'{label}: symbols {disl.symbols} vs {exp_sym}', info)


def _compare_array(ctx, np, d, cfg, res, out, label, info, stats, width, full, marg):
    f = _split(out)
    if len(f) >= 17:
        w1 = [t == '1' for t in f[8].split()]
        if not _compare_base(ctx, np, 'array', full, _fl(f[15]), np.array(_fl(f[16])).reshape(-1, 3), None, w1, label, info):
            return
    if not (f[0].startswith('ok') or f[0].startswith('err:value ')) or len(f) < 3:
        # refusals raised before the array construction (format / nonsingular)
        if res[0] != 'err' or res[1].split()[0] != out[4:].split()[0]:
            ctx.disagree('array:refusal', f'{label}: model {out[:60]}, implementation '
                         f'{res[0] if res[0] == "ok" else res[1:3]}', info)
        return
    margins = _fl(f[1])
    spm, intm = margins[:2]
    if len(margins) > 4:
        spm = min(spm, margins[4])
    bidm, dupm = marg
    tiny = 1e-9
    if f[0].startswith('err:'):
        stats['refusals'] += 1
        mcls = ' '.join(f[0][4:].split()[:2])
        if res[0] == 'err' and res[1] == mcls:
            return
        # a decision within rounding error of its threshold may fall either way
        if min(spm, bidm, dupm, intm) < tiny:
            stats['exempt_near'] += 1
            return
        ctx.disagree('array:refusal', f'{label}: model {f[0]}, implementation {res[0] if res[0] == "ok" else res[1:3]}', info)
        return
    if res[0] == 'err':
        if min(spm, bidm, dupm, intm) < tiny:
            stats['exempt_near'] += 1
            return
        ctx.disagree('array:refusal', f'{label}: implementation raised {res[1]} ({res[2]}), model accepts', info)
        return
    base, disl = res[1], res[2]
    dbox = _fl(f[3])
    dpos = np.array(_fl(f[4])).reshape(-1, 3)
    dtyp = [int(t) for t in f[5].split()]
    oldid = [int(t) for t in f[6].split()]
    pbc = [t == '1' for t in f[7].split()]
    w1 = np.array([t == '1' for t in f[8].split()])
    w2 = [t == '1' for t in f[9].split()]
    slm = [t == '1' for t in f[10].split()]
    bnear = [t == '1' for t in f[11].split()]
    kpos = np.array(_fl(f[13])).reshape(-1, 3)
    scale = float(np.abs(np.asarray(base.box.vects)).max())
    tol = 1e-9 * scale
    decided = min(bidm, dupm) >= tiny
    impl_old = list(map(int, disl.atoms.old_id))
    if impl_old != oldid:
        if not decided:
            stats['exempt_near'] += 1
            return
        ctx.disagree('array:old_id', f'{label}: old_id differs: {len(impl_old)} kept vs model {len(oldid)}; first '
                     f'difference at {next((i for i, (a, b) in enumerate(zip(impl_old, oldid)) if a != b), None)}', info)
        return
    if list(map(bool, disl.pbc)) != pbc:
        ctx.disagree('array:pbc', f'{label}: pbc {list(disl.pbc)} vs model {pbc}', info)
        return
    padm = float(F(f[17])) if len(f) > 17 else 1.0
    if padm < 1e-9:
        stats['exempt_near'] += 1
        for li in (d.lineindex, d.motionindex):
            if np.abs(np.asarray(disl.box.vects)[li] - np.array(dbox[3 * li:3 * li + 3])).max() > tol:
                ctx.disagree('array:box', f'{label}: periodic box vector {li} differs', info)
                return
    elif not _box_equal(np, disl.box, dbox, tol):
        ctx.disagree('array:box', f'{label}: box {np.asarray(disl.box.vects).tolist()} vs model {dbox}', info)
        return
    near0 = np.zeros(len(oldid), dtype=bool)
    ok, worst = _pos_equal(np, base.atoms.pos, kpos, np.asarray(base.box.vects), base.pbc, near0, tol)
    if not ok:
        ctx.disagree('array:base-pos', f'{label}: trimmed reference positions differ ({worst})', info)
        return
    ok, worst = _pos_equal(np, disl.atoms.pos, dpos, np.asarray(disl.box.vects), pbc, w2, tol)
    if not ok and any(slm):
        stats['exempt_near'] += 1
        return
    if not ok:
        # atoms whose surface-layer membership is decided within rounding get the other displacement
        ctx.disagree('array:pos', f'{label}: displaced positions differ ({worst})', info)
        return
    it = list(map(int, disl.atoms.atype))
    bad = [i for i, (a, b) in enumerate(zip(it, dtyp)) if a != b and not bnear[i]]
    if bad:
        i = bad[0]
        ctx.disagree('array:boundary', f'{label}: atom {i} has atype {it[i]}, model {dtyp[i]} ({len(bad)} differ)', info)


# ----------------------------------------------------------------------------------------
# search: the clauses on the real code, independent oracle
# ----------------------------------------------------------------------------------------
def _frac_inv(m):
    d = (m[0][0] * (m[1][1] * m[2][2] - m[1][2] * m[2][1]) - m[0][1] * (m[1][0] * m[2][2] - m[1][2] * m[2][0])
         + m[0][2] * (m[1][0] * m[2][1] - m[1][1] * m[2][0]))
    c = lambda a, b: [a[1] * b[2] - a[2] * b[1], a[2] * b[0] - a[0] * b[2], a[0] * b[1] - a[1] * b[0]]
    cc = [c(m[1], m[2]), c(m[2], m[0]), c(m[0], m[1])]
    return [[cc[j][i] / d for j in range(3)] for i in range(3)], d


def _rel(np, pos, box):
    return (np.asarray(pos) - np.asarray(box.origin)).dot(np.linalg.inv(np.asarray(box.vects)))


def _oracle_cells(ctx, case, raw, ucell, d, info, label):
    """uvws: integer, right handed, in-plane vectors obey the zone law of the slip plane, xi row is the given line;
    rcell is ucell's crystal: every rcell atom sits on a ucell site of the same type (lattice bookkeeping in Fractions)."""
    np = _np()
    key = 'cells'
    uv = np.asarray(d.uvws, dtype=float)
    if uv.shape == (3, 4):
        uv = np.array([[2 * r[0] + r[1], 2 * r[1] + r[0], r[3]] for r in uv])
    uvF = [[F(x).limit_denominator(12) for x in r] for r in uv.tolist()]
    if max(abs(float(a) - b) for ra, rb in zip(uvF, uv.tolist()) for a, b in zip(ra, rb)) > 1e-9:
        ctx.violate(key + ':rational', f'{label}: uvws not rational with small denominator {uv.tolist()}', info)
        return False
    hkl = _hkl3(case)
    cut, line, motion = d.cutindex, d.lineindex, d.motionindex
    for i in (line, motion):
        if _frdot(hkl, uvF[i]) != 0:
            ctx.violate(key + ':zone-law', f'{label}: box vector {i} = {uvF[i]} is not in the slip plane {hkl}', info)
            return False
    if _frdot(hkl, uvF[cut]) == 0:
        ctx.violate(key + ':out-of-plane', f'{label}: cut vector {uvF[cut]} lies in the slip plane', info)
        return False
    xi = [F(x) for x in case['xi']]
    cr = [uvF[line][1] * xi[2] - uvF[line][2] * xi[1], uvF[line][2] * xi[0] - uvF[line][0] * xi[2],
          uvF[line][0] * xi[1] - uvF[line][1] * xi[0]]
    if any(cr):
        ctx.violate(key + ':line', f'{label}: box vector {line} = {uvF[line]} is not along xi = {xi}', info)
        return False
    det = (uvF[0][0] * (uvF[1][1] * uvF[2][2] - uvF[1][2] * uvF[2][1]) - uvF[0][1] * (uvF[1][0] * uvF[2][2] - uvF[1][2] * uvF[2][0])
           + uvF[0][2] * (uvF[1][0] * uvF[2][1] - uvF[1][1] * uvF[2][0]))
    if det <= 0:
        ctx.violate(key + ':handedness', f'{label}: uvws {uvF} is not right handed (det {det})', info)
        return False
    # rcell atoms on ucell sites: relative position in rcell -> crystal coordinates s . uvws
    fpos = CRYSTALS[case['crystal']][2]
    types = CRYSTALS[case['crystal']][3]
    srel = _rel(np, d.rcell.atoms.pos, d.rcell.box)
    cryst = srel.dot(np.array([[float(x) for x in r] for r in uvF]))
    nexp = det * len(fpos)
    if d.rcell.natoms != nexp:
        ctx.violate(key + ':natoms', f'{label}: rcell has {d.rcell.natoms} atoms, det(uvws) * natoms(ucell) = {nexp}', info)
        return False
    seen = set()
    for i, c in enumerate(cryst):
        hit = None
        for j, fp in enumerate(fpos):
            dd = c - np.array([float(x) for x in fp])
            if np.abs(dd - np.rint(dd)).max() < 1e-7:
                hit = j
                cell = tuple(int(x) for x in np.rint(dd))
                break
        if hit is None or int(d.rcell.atoms.atype[i]) != types[hit]:
            ctx.violate(key + ':crystal', f'{label}: rcell atom {i} (crystal coordinates {c.tolist()}) is not on a site of '
                        f'the unit cell with its type', info)
            return False
        if (hit, cell) in seen:
            ctx.violate(key + ':crystal-duplicate', f'{label}: two rcell atoms on the same lattice site', info)
            return False
        seen.add((hit, cell))
    # orientation: the rotated cell is the unit cell rotated by the transformation of the elastic solution
    pred = np.array([[float(x) for x in r] for r in uvF]).dot(np.asarray(ucell.box.vects)).dot(np.asarray(d.transform).T)
    sc = float(np.abs(pred).max())
    if np.abs(pred - np.asarray(d.rcell.box.vects)).max() > 1e-7 * sc:
        ctx.violate(key + ':orientation', f'{label}: rcell.box.vects = {np.round(np.asarray(d.rcell.box.vects), 6).tolist()} '
                    f'is not uvws . ucell.vects . transform^T = {np.round(pred, 6).tolist()}: the crystal is not oriented as '
                    f'the elastic solution (C, burgers, m, n, xi) assumes', info)
        return True
    # choice of the cell vectors: among all lattice vectors with primitive indices |u|,|v|,|w| <= 5 the cut vector is
    # (one of) the closest to the slip-plane normal n, the motion vector (one of) the closest to m among those in the
    # slip plane (the documented search; angles in the frame of the solution, isclose tolerance of the code)
    up = np.asarray(d.uvws_prim, dtype=float)
    uc_ = np.array([[float(x) for x in r] for r in uvF])
    if up.shape != (3, 3) or abs(np.linalg.det(up)) < 1e-9:
        ctx.violate(key + ':uvws-prim', f'{label}: uvws_prim = {up.tolist()} is not a non-singular 3x3 matrix', info)
        return True
    P = np.linalg.inv(up).dot(uc_)                         # primitive indices -> conventional indices
    allp = np.array([v for v in itertools.product(range(-5, 6), repeat=3) if any(v)], dtype=float)
    cart = allp.dot(P).dot(np.asarray(ucell.box.vects)).dot(np.asarray(d.transform).T)
    nrm = np.linalg.norm(cart, axis=1)
    naxis = np.asarray(d.dislsol.n, dtype=float)
    maxis = np.asarray(d.dislsol.m, dtype=float)
    ang = lambda c: np.degrees(np.arccos(np.clip(c, -1.0, 1.0)))
    an = ang(cart.dot(naxis) / nrm)
    rv = np.asarray(d.rcell.box.vects)
    a_cut = float(ang(rv[cut].dot(naxis) / np.linalg.norm(rv[cut])))
    if a_cut > an.min() * (1 + 2e-5) + 1e-6:
        best = allp[int(np.argmin(an))].astype(int).tolist()
        ctx.violate(key + ':n-closest', f'{label}: the cell vector across the slip plane {[str(x) for x in uvF[cut]]} makes {a_cut:.6f} deg with '
                    f'the plane normal; the lattice vector with primitive indices {best} (within the index bound 5) makes '
                    f'{an.min():.6f} deg', info)
        return True
    inpl = np.abs(an - 90.0) < 1e-6
    am_ = ang(cart[inpl].dot(maxis) / nrm[inpl])
    a_mot = float(ang(rv[motion].dot(maxis) / np.linalg.norm(rv[motion])))
    if len(am_) and a_mot > am_.min() * (1 + 2e-5) + 1e-6:
        best = allp[inpl][int(np.argmin(am_))].astype(int).tolist()
        ctx.violate(key + ':m-closest', f'{label}: the in-plane cell vector {[str(x) for x in uvF[motion]]} makes {a_mot:.6f} deg with m; the '
                    f'in-plane lattice vector with primitive indices {best} makes {am_.min():.6f} deg', info)
    return True


def _oracle_shifts(ctx, d, info, label):
    """every offered shift puts the plane through the origin midway between two consecutive atomic planes (the planes
    repeat with the period W of the cell across the cut), never on one; one shift per atomic plane."""
    np = _np()
    cut = d.cutindex
    W = d.rcell.box.vects[cut, cut]
    z = np.asarray(d.rcell.atoms.pos)[:, cut]
    # (the coordinates are rounded to the constructor's tolerance before the mid-points are taken)
    tolW = max(1e-7 * W, 2.0 * float(getattr(d, '_c13_case', {}).get('tol') or 0.0))
    for s in np.asarray(d.shifts):
        if any(abs(s[i]) > 0 for i in range(3) if i != cut):
            ctx.violate('shift:direction', f'{label}: shift {s.tolist()} is not along the slip plane normal', info)
            return
        t = np.mod(z + s[cut], W)                           # heights in [0, W); the slip plane is at 0 (and W)
        if min(t.min(), W - t.max()) < tolW:
            ctx.violate('shift:on-plane', f'{label}: shift {s.tolist()} leaves an atomic plane on the slip plane', info)
            return
        above, below = t.min(), t.max() - W
        if abs(above + below) > tolW:
            ctx.violate('shift:midway', f'{label}: shift {s.tolist()}: nearest planes at {below} and {above}', info)
            return
    t = np.mod(z, W)
    t[W - t < 1e-6 * W] = 0.0
    planes = np.unique(np.round(t, 6))
    if len(d.shifts) != len(planes):
        ctx.violate('shift:count', f'{label}: {len(d.shifts)} shifts offered for {len(planes)} atomic planes', info)
    elif len(np.unique(np.round(np.asarray(d.shifts)[:, cut], 6))) != len(planes):
        ctx.violate('shift:distinct', f'{label}: offered shifts are not distinct: {np.asarray(d.shifts)[:, cut].tolist()}', info)


def _site_key(np, p, shift, rcell, rrel_keys):
    s = (np.asarray(p) - shift - np.asarray(rcell.box.origin)).dot(np.linalg.inv(np.asarray(rcell.box.vects)))
    for j, r in enumerate(rrel_keys):
        dd = s - r
        if np.abs(dd - np.rint(dd)).max() < 1e-6:
            return j, tuple(int(x) for x in np.rint(dd))
    return None


def _oracle_reference(ctx, np, d, base, shift, mults_total, info, label, key):
    """the reference system is the shifted perfect crystal: every atom is an rcell atom (same type) translated by an
    integer cell vector plus the shift, all distinct, as many as rcell.natoms * multipliers."""
    rrel = _rel(np, d.rcell.atoms.pos, d.rcell.box)
    if mults_total is not None and base.natoms != d.rcell.natoms * mults_total:
        ctx.violate(key + ':count', f'{label}: reference system has {base.natoms} atoms, expected '
                    f'{d.rcell.natoms} * {mults_total}', info)
        return None
    seen = {}
    keys = []
    for i, p in enumerate(np.asarray(base.atoms.pos)):
        k = _site_key(np, p, shift, d.rcell, rrel)
        if k is None or int(base.atoms.atype[i]) != int(d.rcell.atoms.atype[k[0]]):
            ctx.violate(key + ':crystal', f'{label}: reference atom {i} at {p.tolist()} is not a lattice image of an rcell '
                        f'atom of its type', info)
            return None
        if k in seen:
            ctx.violate(key + ':duplicate', f'{label}: reference atoms {seen[k]} and {i} are the same lattice site', info)
            return None
        seen[k] = i
        keys.append(k)
    return keys


def _fx(x):
    return F(float(x))


def _fcross(a, b):
    return [a[1] * b[2] - a[2] * b[1], a[2] * b[0] - a[0] * b[2], a[0] * b[1] - a[1] * b[0]]


def _fdot(a, b):
    return a[0] * b[0] + a[1] * b[1] + a[2] * b[2]


def _faces(np, base_box, dirs):
    """the faces across the directions `dirs` from the ACTUAL box vectors, exactly: (inward normal N (not normalised),
    |N|^2, a point of the face) for the lower and the upper face of each direction."""
    V = [[_fx(x) for x in r] for r in np.asarray(base_box.vects)]
    O = [_fx(x) for x in np.asarray(base_box.origin)]
    out = []
    for i in dirs:
        N = _fcross(V[(i + 1) % 3], V[(i + 2) % 3])
        if _fdot(N, V[i]) < 0:
            N = [-x for x in N]
        N2 = _fdot(N, N)
        out.append((i, 0, N, N2, O))
        out.append((i, 1, [-x for x in N], N2, [O[k] + V[i][k] for k in range(3)]))
    return V, O, out


def _region_outside(np, d, base_box, width, shape, pos, exact_limit=700):
    """independent evaluation of the stated boundary region with exact rational geometry from the actual box vectors of
    the reference system (no atomman region class, no Box.planes).
    box: within `width` of one of the four faces across the two non-periodic directions (array: the two faces across the
    cut direction); cylinder: farther from the line through the Cartesian origin along the line vector than (distance of
    that line to the nearest of the four faces) - width.
    -> (outside, margin to the region surface, extra) ; extra: per-atom index of the nearest face and depths (box) or
    (R0, r) (cylinder).  Atoms are decided in Fractions (all of them up to `exact_limit` atoms, else those within
    1e-3 of the surface; the others in floats)."""
    line = d.lineindex
    pos = np.asarray(pos, dtype=float)
    w = _fx(width)
    wf = float(width)
    if shape == 'box' or shape == 'array':
        dirs = [d.cutindex] if shape == 'array' else [i for i in range(3) if i != line]
        V, O, faces = _faces(np, base_box, dirs)
        depth = np.empty((len(faces), len(pos)))
        for k, (i, up, N, N2, pt) in enumerate(faces):
            Nf = np.array([float(x) for x in N]) / math.sqrt(float(N2))
            depth[k] = (pos - np.array([float(x) for x in pt])).dot(Nf)
        dmin = depth.min(axis=0)
        out = dmin < wf
        marg = np.abs(depth - wf).min(axis=0)
        sc = float(np.abs(np.asarray(base_box.vects)).max())
        sel = range(len(pos)) if len(pos) <= exact_limit else np.where(marg < 1e-3 * sc)[0]
        w2 = w * w
        for a in sel:
            pa = [_fx(x) for x in pos[a]]
            o = False
            for (i, up, N, N2, pt) in faces:
                g = _fdot(N, [pa[k] - pt[k] for k in range(3)])          # depth * |N|
                if g < 0 or g * g < w2 * N2:
                    o = True
                    break
            out[a] = o
        return out, marg, {'nearest': depth.argmin(axis=0), 'depth': dmin}
    # cylinder about the line through the Cartesian origin along vects[line]
    dirs = [i for i in range(3) if i != line]
    V, O, faces = _faces(np, base_box, dirs)
    L = V[line]
    L2 = _fdot(L, L)
    R02 = min(_fdot(N, pt) ** 2 / N2 for (i, up, N, N2, pt) in faces)         # the faces contain the line direction
    R0 = math.sqrt(float(R02))
    Lf = np.array([float(x) for x in L]) / math.sqrt(float(L2))
    rr = np.linalg.norm(np.cross(pos, Lf), axis=1)
    radius = R0 - wf
    out = rr > radius
    marg = np.abs(rr - radius)
    if R02 > w * w:
        sc = float(np.abs(np.asarray(base_box.vects)).max())
        sel = range(len(pos)) if len(pos) <= exact_limit else np.where(marg < 1e-3 * sc)[0]
        for a in sel:
            pa = [_fx(x) for x in pos[a]]
            cr = _fcross(pa, L)
            A = _fdot(cr, cr) / L2 - R02 - w * w              # r > R0 - w  <=>  r^2 - R0^2 - w^2 > -2 w R0
            out[a] = bool(A >= 0 or A * A < 4 * w * w * R02)
    return out, marg, {'R0': R0, 'r': rr, 'positive': bool(R02 > w * w)}


_GRID = 64.0            # coordinates that are whole multiples of 2^-6 ...
_GMAX = 1024.0          # ... and at most 2^10 in magnitude: products of two and sums of such products are exact doubles


def _on_grid(np, x):
    x = np.asarray(x, dtype=float)
    with np.errstate(invalid='ignore', over='ignore'):
        return np.isfinite(x) & (np.abs(x) <= _GMAX) & (x * _GRID == np.rint(x * _GRID))


def _exact_atoms(np, d, base_box, pos, width, shape):
    """The atoms for which the question 'outside the stated region?' involves no rounding at all, whoever evaluates it in
    doubles: the reference box is axis aligned (every box vector along one Cartesian axis), its entries, its origin and
    the width are small dyadic numbers, (cylinder) the solution's m and n are Cartesian unit vectors, and the atom's
    coordinates across the faces that matter (the two directions across the line; the cut direction for arrays) are small
    dyadic numbers as well: then face normals are exact unit vectors, the shifted face points, depths, the distance of the
    line to the faces, squared distances from the line and their square roots (where representable) are all exact, so an
    atom EXACTLY on the surface of the region is decided by the comparison alone (on the surface = not outside).
    -> boolean mask over the atoms, or None when the geometry is not of that kind."""
    try:
        V = np.asarray(base_box.vects, dtype=float)
        O = np.asarray(base_box.origin, dtype=float)
        w = float(width)
    except Exception:  # noqa
        return None
    if not (np.all(_on_grid(np, V)) and np.all(_on_grid(np, O)) and bool(_on_grid(np, w))):
        return None
    cols = []
    for i in range(3):
        nz = np.flatnonzero(V[i])
        if len(nz) != 1:
            return None
        cols.append(int(nz[0]))
    if sorted(cols) != [0, 1, 2]:
        return None
    line = d.lineindex
    dirs = [d.cutindex] if shape == 'array' else [i for i in range(3) if i != line]
    if shape == 'cylinder':
        for v in (d.dislsol.m, d.dislsol.n):
            v = np.asarray(v, dtype=float)
            if v.shape != (3,) or np.count_nonzero(v) != 1 or abs(v).max() != 1.0:
                return None
    pos = np.asarray(pos, dtype=float)
    return np.all(_on_grid(np, pos[:, [cols[i] for i in dirs]]), axis=1)


def _tie_widths(np, rng, d, base, disl, shape, nmax=4):
    """boundary widths for which atoms lie EXACTLY on the surface of the region: the exact depth of an atom below each face
    (box / array), the exact difference between the distance of the line to the nearest face and an atom's distance from
    the line where that distance is a representable number (atoms on the axes of the cross-section and Pythagorean pairs
    (y, z), the latter preferred).  Only for atoms / geometries where nothing is rounded (_exact_atoms)."""
    pos = np.asarray(disl.atoms.pos, dtype=float)
    mask = _exact_atoms(np, d, base.box, pos, 0.0, shape)
    if mask is None or not mask.any():
        return []
    widths = []
    if shape in ('box', 'array'):
        _o, _m, ex = _region_outside(np, d, base.box, 1.0, shape, pos, exact_limit=0)
        nearest, depth = ex['nearest'], ex['depth']
        faces = sorted(set(nearest.tolist()))
        rng.shuffle(faces)
        for f in faces:
            ids = np.where((nearest == f) & mask & (depth > 0.0))[0]
            if len(ids):
                vals = sorted(set(float(x) for x in depth[ids]))
                widths.append(vals[rng.randrange(min(len(vals), 5))])
    else:
        _o, _m, ex = _region_outside(np, d, base.box, 0.0, shape, pos, exact_limit=0)
        V = np.asarray(base.box.vects, dtype=float)
        cols = [int(np.flatnonzero(V[i])[0]) for i in range(3) if i != d.lineindex]
        y, z = pos[:, cols[0]], pos[:, cols[1]]
        r2 = y * y + z * z
        r = np.sqrt(r2)
        R0 = float(ex['R0'])
        ok = mask & (r * r == r2) & _on_grid(np, r) & (r < R0) & bool(_on_grid(np, R0))
        pyth = sorted(set(float(x) for x in r[ok & (y != 0.0) & (z != 0.0)]))
        axes = sorted(set(float(x) for x in r[ok & ((y == 0.0) | (z == 0.0))]))
        rng.shuffle(pyth)
        rng.shuffle(axes)
        for x in pyth[:max(1, nmax - 1)] + axes[:1]:
            widths.append(R0 - x)
    return [w for w in widths if w > 0.0][:nmax]


def _probe_cfgs(np, rng, d, base, disl, cfg, shape, sc, nmax=8, ties=False):
    """boundary widths placed immediately on either side of the depth of an atom below each face of the region (box /
    array) or of an atom's distance from the line (cylinder): the re-typing as a function of the width changes exactly
    there, so every face of the region is located to `eps` (a displaced, tilted or shared face shows as one atom).
    ties: in geometries where nothing is rounded, also the widths that put atoms exactly ON the surface (_tie_widths)."""
    pos = np.asarray(disl.atoms.pos)
    eps = 1e-5 * sc
    widths = []
    if ties:
        widths += _tie_widths(np, rng, d, base, disl, shape, nmax=3)
    if shape in ('box', 'array'):
        _o, _m, ex = _region_outside(np, d, base.box, 1.0, shape, pos, exact_limit=0)
        nearest, depth = ex['nearest'], ex['depth']
        for f in sorted(set(nearest.tolist())):
            ids = np.where((nearest == f) & (depth > 50 * eps))[0]
            if len(ids):
                a = int(ids[rng.randrange(len(ids))])
                widths += [float(depth[a]) - eps, float(depth[a]) + eps]
    else:
        _o, _m, ex = _region_outside(np, d, base.box, 0.0, shape, pos, exact_limit=0)
        ids = np.where(ex['r'] < ex['R0'] - 50 * eps)[0]
        for _ in range(3):
            if len(ids):
                a = int(ids[rng.randrange(len(ids))])
                widths += [ex['R0'] - float(ex['r'][a]) - eps, ex['R0'] - float(ex['r'][a]) + eps]
    out = []
    for w in widths[:nmax]:
        c = {k: v for k, v in cfg.items() if k not in ('boundaryscale',)}
        c['boundarywidth'] = float(w)
        c['probe'] = True
        out.append(c)
    return out


def _min_image_pairs(np, pos, vects, pbc, thresh, across_only=False):
    """closest pair under the given periodicity (brute force, images -1..1); across_only: only pairs that are
    neighbours through a periodic image."""
    n = len(pos)
    shifts = [np.zeros(3)]
    rng3 = [(-1, 0, 1) if p else (0,) for p in pbc]
    shifts = [a * vects[0] + b * vects[1] + c * vects[2] for a in rng3[0] for b in rng3[1] for c in rng3[2]]
    best = (np.inf, None)
    for s in shifts:
        if across_only and not np.any(s):
            continue
        dd = pos[:, None, :] - pos[None, :, :] + s
        r2 = (dd ** 2).sum(axis=2)
        if not np.any(s):
            r2[np.arange(n), np.arange(n)] = np.inf
        i, j = np.unravel_index(np.argmin(r2), r2.shape)
        if r2[i, j] < best[0]:
            best = (r2[i, j], (int(i), int(j)))
    return math.sqrt(best[0]), best[1]


def _close_pairs(np, pos, vects, pbc, thresh):
    """all pairs closer than `thresh` through a periodic image (-1..1), closest first: (distance, i, j)."""
    n = len(pos)
    rng3 = [(-1, 0, 1) if p else (0,) for p in pbc]
    out = []
    for a in rng3[0]:
        for b in rng3[1]:
            for c in rng3[2]:
                if not (a or b or c):
                    continue
                sft = a * vects[0] + b * vects[1] + c * vects[2]
                dd = pos[:, None, :] - pos[None, :, :] + sft
                r2 = (dd ** 2).sum(axis=2)
                ii, jj = np.where(r2 < thresh * thresh)
                out += [(math.sqrt(r2[i, j]), int(i), int(j)) for i, j in zip(ii, jj)]
    out.sort()
    return out


def _disregistry_check(ctx, np, d, base, disl, kind, cfg, info, label, ucell_a=1.0):
    """the disregistry across the slip plane accumulates to one Burgers vector (up to the tail of the elastic field
    beyond the finite width: |tail| <= kappa * |b| * 2 h / (pi X) per side for plane half-spacing h, half-width X)."""
    import atomman as am
    b = np.asarray(d.dislsol.burgers)
    m = np.asarray(d.dislsol.m)
    n = np.asarray(d.dislsol.n)
    center = np.zeros(3) if cfg.get('center') is None else np.asarray(cfg['center'], dtype=float)
    if cfg.get('centerscale'):
        center = center.dot(np.asarray(d.rcell.box.vects, dtype=float))
    # the slip plane passes through the core centre; it must lie in a gap between two atomic planes of the reference
    y = np.asarray(base.atoms.pos).dot(n)
    xs = np.asarray(base.atoms.pos).dot(m)
    cn = float(center.dot(n))
    if not (np.any(y > cn) and np.any(y < cn)):
        return
    ya, yb = y[y > cn].min(), y[y < cn].max()
    h = (ya - yb) / 2
    if min(ya - cn, cn - yb) < 0.1 * h or h < 1e-4 or float(np.abs(y - cn).min()) < 0.1 * h:
        return                                            # an atomic plane (nearly or exactly) on the slip plane: not the clause's case
    if kind == 'array' and abs(cn) > 1e-12:
        return                                            # (arrays: the cut of the linear field is tied to the mid-plane)
    # the point handed to disregistry(): default (only when the plane passes through the origin), the centre, or
    # another point of the same gap (moved within the slip plane and, by less than the gap, along the normal)
    pp = cfg.get('planepos')
    xi_ = np.cross(m, n)
    if pp is None and abs(cn) <= 1e-12:
        kwp = {}
    elif pp is None or pp == 'center':
        kwp = {'planepos': center.copy()}
    else:
        kwp = {'planepos': center + pp[0] * m + pp[1] * xi_ + pp[2] * ((ya - cn) if pp[2] > 0 else (cn - yb)) * n}
    try:
        x, dr = am.defect.disregistry(base, disl, m=m, n=n, **kwp)
    except Exception as e:  # noqa
        ctx.violate('disregistry:raises', f'{label}: disregistry({kwp}) raised {type(e).__name__}: {e}', info)
        return
    if len(x) < 4:
        return
    # the profile must be that of the two planes adjoining the slip plane: its coordinates are their atomic columns
    cols = np.unique(np.round(np.concatenate([xs[np.isclose(y, ya)], xs[np.isclose(y, yb)]]), 7))
    got = np.unique(np.round(np.asarray(x), 7))
    if len(cols) != len(got) or np.abs(cols - got).max() > 1e-6:
        ctx.violate('disregistry:planes', f'{label}: disregistry({kwp}) returned {len(got)} coordinates '
                    f'[{got[0]:.4f} .. {got[-1]:.4f}]; the planes at {yb:.4f} and {ya:.4f} adjoining the slip plane (at '
                    f'{cn:.4f} along n) have {len(cols)} atomic columns [{cols[0]:.4f} .. {cols[-1]:.4f}]', info)
        return
    xa = xs[np.isclose(y, ya)]
    xb = xs[np.isclose(y, yb)]
    # columns exist on both sides of the slip plane only in the common range (np.interp holds the end values beyond)
    ua, ub = np.unique(np.round(xa, 7)), np.unique(np.round(xb, 7))
    # the definition, column by column: at an atomic column of one plane the disregistry is that column's own mean
    # displacement against the other plane's displacement interpolated between ITS OWN columns (above minus below)
    # (column coordinates: the exact values, those equal up to rounding noise merged)
    ea = np.array([xa[np.abs(xa - t) < 1e-6].mean() for t in ua])
    eb = np.array([xb[np.abs(xb - t) < 1e-6].mean() for t in ub])
    if len(ea) >= 2 and len(eb) >= 2 and min(np.diff(ea).min(), np.diff(eb).min()) > 1e-3:
        try:
            dall = np.asarray(am.displacement(base, disl))
        except Exception as e:  # noqa
            ctx.violate('disregistry:raises', f'{label}: displacement(base, disl) raised {type(e).__name__}: {e}', info)
            return
        pa, pb = np.isclose(y, ya), np.isclose(y, yb)
        mean_a = np.array([dall[pa & (np.abs(xs - t) < 1e-6)].mean(axis=0) for t in ea])
        mean_b = np.array([dall[pb & (np.abs(xs - t) < 1e-6)].mean(axis=0) for t in eb])
        tolv = 1e-8 * max(1.0, float(np.abs(dall).max()))
        for i_, t in enumerate(np.asarray(x)):
            va = np.array([np.interp(t, ea, mean_a[:, j]) for j in range(3)])
            vb = np.array([np.interp(t, eb, mean_b[:, j]) for j in range(3)])
            if float(np.abs(np.asarray(dr)[i_] - (va - vb)).max()) > tolv:
                ctx.violate('disregistry:definition', f'{label}: disregistry({kwp}) at the atomic column x = {t:.6f} is '
                            f'{np.asarray(dr)[i_].tolist()}; displacement of the plane above ({ya:.4f}) minus that of the '
                            f'plane below ({yb:.4f}), each taken at / interpolated between its own atomic columns, is '
                            f'{(va - vb).tolist()}', info)
                return
    k = 1 if kind == 'array' else 0
    if len(ua) < 2 * k + 2 or len(ub) < 2 * k + 2:
        return
    # (arrays: the columns on the faces across the motion direction carry +-b/2, which the minimum-image displacement
    #  folds either way when b is the period along the line: start from the second column on each side)
    lo, hi = max(ua[k], ub[k]), min(ua[-1 - k], ub[-1 - k])
    sel = np.where((x >= lo - 1e-6) & (x <= hi + 1e-6))[0]
    if len(sel) < 4:
        return
    il, ir = sel[0], sel[-1]
    xc = center.dot(m)
    # displacements are minimum-image vectors: where the component along the line reaches half the period it is folded
    # either way, and the interpolation between the staggered columns of the two planes mixes folded and unfolded
    # values.  Use the contiguous run of columns about the core in which no atom of the two planes is near the fold.
    lv0 = np.asarray(disl.box.vects)[d.lineindex]
    onp = np.isclose(y, ya) | np.isclose(y, yb)
    try:
        dsp = np.asarray(am.displacement(base, disl))[onp]
    except Exception as e:  # noqa
        ctx.violate('disregistry:raises', f'{label}: displacement(base, disl) raised {type(e).__name__}: {e}', info)
        return
    frac = np.abs(dsp.dot(lv0)) / lv0.dot(lv0)
    ambx = xs[onp][frac > 0.45]
    if len(ambx):
        amb = np.array([bool(np.any(np.abs(ambx - xx) < 1e-6)) for xx in x])
        ic = int(np.argmin(np.abs(np.asarray(x) - xc)))
        if amb[ic]:
            return
        l_, r_ = ic, ic
        while l_ > 0 and not amb[l_ - 1]:
            l_ -= 1
        while r_ < len(x) - 1 and not amb[r_ + 1]:
            r_ += 1
        if l_ > 0:
            l_ += 1
        if r_ < len(x) - 1:
            r_ -= 1
        il, ir = max(il, l_), min(ir, r_)
        if ir - il < 3:
            return
    Xl, Xr = xc - x[il], x[ir] - xc
    if Xl <= 2 * h or Xr <= 2 * h:
        return
    total = dr[il] - dr[ir]
    bm = float(np.linalg.norm(b))
    linear = bool(cfg.get('linear'))
    if kind == 'array' and not linear:
        # the planes adjoining the slip plane may lie in the surface layers, which are displaced linearly
        bw = cfg.get('boundarywidth', 0.0) * (ucell_a if cfg.get('boundaryscale') else 1.0)
        y0 = np.asarray(base.box.origin).dot(n)
        y1 = y0 + np.asarray(base.box.vects)[d.cutindex].dot(n)
        lo_y, hi_y = min(y0, y1), max(y0, y1)
        ina = (ya <= lo_y + bw) or (ya >= hi_y - bw)
        inb = (yb <= lo_y + bw) or (yb >= hi_y - bw)
        if ina and inb:
            linear = True
        elif ina or inb:
            return
    if kind == 'array' and linear:
        L = abs(np.asarray(base.box.vects)[d.motionindex].dot(m))
        exp = b * (x[ir] - x[il]) / L
        err = float(np.linalg.norm(total - exp))
        bound = 1e-6 * bm
    else:
        exp = b
        err = float(np.linalg.norm(total - exp))
        kappa = 6.0
        bound = kappa * bm * (h / (math.pi * Xl) + h / (math.pi * Xr)) + 0.02 * bm
        if kind == 'array':
            bound += 0.1 * bm                              # mean subtraction and the linear surface layers
    # displacements are minimum-image vectors: a screw component longer than half the period along the line is folded
    lv = np.asarray(disl.box.vects)[d.lineindex]

    def fold(v):
        return v - np.rint(v.dot(lv) / lv.dot(lv)) * lv
    err = float(np.linalg.norm(fold(total - exp)))
    # sign convention: disregistry = above - below; the solver's cut lies on the side x < 0 where the jump is +b
    if err > bound and float(np.linalg.norm(fold(total + exp))) > bound:
        ctx.violate('disregistry:burgers', f'{label}: disregistry changes by {np.round(total, 4).tolist()} across the cell, '
                    f'Burgers vector {np.round(b, 4).tolist()} (|error| {err:.3g} > bound {bound:.3g})', info)
    elif err > bound:
        ctx.violate('disregistry:sign', f'{label}: disregistry accumulates to -b: {np.round(total, 4).tolist()} vs '
                    f'{np.round(b, 4).tolist()}', info)


def _requested_shift(ctx, np, d, cfg, info, label, key, base=None):
    """the shift the caller asked for, by whichever route (vector, box-relative vector, index into the offered shifts
    - which _oracle_shifts checks -, nothing; at construction, through set_shift, in the call; any value of the
    shiftscale flag): the object must report it as its current shift.  When it was named by index / default and the
    core is not moved off the plane through the origin, the slip plane must lie midway between the two atomic planes
    of the reference system adjoining it (exact rational comparison of the float heights).  None after a violation."""
    how = (f'init={cfg.get("init")}, set_shift={cfg.get("setshift")}, call='
           f'{ {k: cfg[k] for k in SHIFT_KEYS if cfg.get(k) is not None} }')
    try:
        got = np.asarray(d.shift, dtype=float)
    except Exception as e:  # noqa
        ctx.violate(key + ':shift-request', f'{label}: reading .shift raised {type(e).__name__}: {e}', info)
        return None
    try:
        exp = _expected_shift(np, d, cfg)
    except _Refuse as r:
        ctx.violate(key + ':shift-not-refused', f'{label}: the {r.where} names its shift inadmissibly ({r.cls}: '
                    f'{"shift and shiftindex both given" if r.cls == "value" else "shiftindex out of range"}) and must be '
                    f'refused, yet a system was generated with shift {got.tolist()} ({how})', info)
        return None
    if exp is None:
        return got
    req, tag = exp
    if got.shape != (3,) or np.abs(got - req).max() > 1e-9 * max(1.0, float(np.abs(req).max())):
        ctx.violate(key + ':shift-request', f'{label}: the generator used shift {got.tolist()}, requested was '
                    f'{req.tolist()} ({how})', info)
        return None
    if tag == 'offered' and base is not None:
        cut = d.cutindex
        _qs, center, _w = _resolved(d, cfg, None)
        if abs(float(center[cut])) == 0.0:
            W = F(float(d.rcell.box.vects[cut, cut]))
            ys = sorted({F(float(y)) for y in np.asarray(base.atoms.pos)[:, cut]})
            up = [y for y in ys if y > 0]
            dn = [y for y in ys if y < 0]
            tol_ = max(F(1, 10 ** 7) * W, F(2.0 * float(getattr(d, '_c13_case', {}).get('tol') or 0.0)))
            if any(abs(y) <= tol_ for y in ys):
                ctx.violate(key + ':slip-plane-midway', f'{label}: shift named by index / default ({how}) but an atomic '
                            f'plane of the reference system lies on the slip plane', info)
                return None
            if up and dn and abs(up[0] + dn[-1]) > tol_:
                ctx.violate(key + ':slip-plane-midway', f'{label}: shift named by index / default ({how}) but the slip '
                            f'plane is not midway between the adjoining atomic planes of the reference system, which lie '
                            f'at {float(dn[-1])} and {float(up[0])} along n', info)
                return None
    return req


def _check_mults(ctx, np, d, cfg, base, info, label, key):
    """the reference system has exactly the multipliers asked for: per direction the larger of the given multiplier
    (default 2, 1 along the line) and the smallest multiplier reaching amin/bmin/cmin, made even across the line."""
    line = d.lineindex
    sm = cfg.get('sizemults')
    rv = np.asarray(d.rcell.box.vects, dtype=float)
    bv = np.asarray(base.box.vects, dtype=float)
    periods = (float(d.rcell.box.a), float(d.rcell.box.b), float(d.rcell.box.c))
    for i, nm in enumerate(('amin', 'bmin', 'cmin')):
        L = float(np.linalg.norm(rv[i]))
        got = float(np.linalg.norm(bv[i])) / L
        if abs(got - round(got)) > 1e-7:
            ctx.violate(key + ':multipliers', f'{label}: box vector {i} of the reference system is {got} times the rotated '
                        f'cell\'s', info)
            return False
        got = int(round(got))
        want = (1 if i == line else 2) if sm is None else int(sm[i])
        v = cfg.get(nm, 0.0)
        wants = {want}
        if v > 0.0:
            # the smallest multiplier whose length reaches the minimum, the period being the rotated cell's a / b / c as the
            # object reports it; decided exactly (a minimum of EXACTLY k periods asks for k, the next double above for k + 1);
            # two answers only where the rounded quotient is a whole number and the exact one is not (half an ulp)
            wants = {max(want, q + 1 if (i != line and q % 2) else q) for q in expected_min_mults(v, periods[i])}
        if got not in wants:
            ctx.violate(key + ':multipliers', f'{label}: the reference system has {got} cells along box vector {i} (period '
                        f'{periods[i]!r}); sizemults {sm}, {nm} = {cfg.get(nm, 0.0)!r} (= {float(v) / periods[i]!r} periods) '
                        f'ask for {sorted(wants)}', info)
            return False
    return True


def _oracle_minsizes(ctx, np, d, info, label, canon, ncalls, stats):
    """amin / bmin / cmin on their own: minima that are exactly k = 1..6 periods of the rotated cell, or a hair below /
    above, along the line (every whole multiplier allowed) and across it (even ones only), with default / minimal / larger
    sizemults, for monopole and periodicarray; the multipliers of the reference system against `_check_mults`."""
    rng = ctx.rng
    line = d.lineindex
    nat = d.rcell.natoms
    if nat > 30:
        return
    names = ('amin', 'bmin', 'cmin')
    periods = (float(d.rcell.box.a), float(d.rcell.box.b), float(d.rcell.box.c))
    for _ in range(ncalls):
        kind = rng.choice(['mono', 'array'])
        cfg = {'kind': kind}
        q = rng.random()
        if q < 0.4:
            cfg['sizemults'] = None
        else:
            sm = [2, 2, 2]
            sm[line] = rng.choice([1, 1, 2, 3])
            if q > 0.8:
                sm[(line + rng.choice([1, 2])) % 3] = 4
            cfg['sizemults'] = sm
        kmax = 6 if nat <= 4 else 4 if nat <= 12 else 2
        dirs = [line] if rng.random() < 0.5 else [rng.randrange(3)]
        if rng.random() < 0.3:
            dirs = sorted(set(dirs + [rng.randrange(3)]))
        for i in dirs:
            cfg[names[i]] = gen_min_value(rng, periods[i], kmax)
        res = run_config(d, cfg)
        ctx.stats.case('search:minsize:' + kind, canon + (tuple(sorted((a, str(b)) for a, b in cfg.items())),),
                       nontrivial=(res[0] == 'ok'))
        stats['minsize'] = stats.get('minsize', 0) + 1
        lab = label + ' ' + str(cfg)
        cinfo = dict(info, cfg=cfg)
        if res[0] == 'err':
            if res[1] == 'type':
                ctx.violate(kind + ':multipliers-refused', f'{lab}: valid sizemults / minimum lengths refused: {res[2]}', cinfo)
            stats['minsize_refused'] = stats.get('minsize_refused', 0) + 1
            continue
        for i in dirs:
            r = F(cfg[names[i]]) / F(periods[i])
            stats['minsize_exact_odd' if r.denominator == 1 and r % 2 == 1 else
                  'minsize_exact_even' if r.denominator == 1 else 'minsize_off'] = \
                stats.get('minsize_exact_odd' if r.denominator == 1 and r % 2 == 1 else
                          'minsize_exact_even' if r.denominator == 1 else 'minsize_off', 0) + 1
        _check_mults(ctx, np, d, cfg, res[1], cinfo, lab, kind)


def _check_boundary(ctx, np, d, cfg, base, disl, shape, width, info, label, key):
    """re-typed (atype + natypes of the reference, symbols doubled) exactly the atoms outside the stated region."""
    nt = base.natypes
    ta, tb = np.asarray(disl.atoms.atype), np.asarray(base.atoms.atype)
    sc = float(np.abs(np.asarray(base.box.vects)).max())
    if not np.all((ta == tb) | (ta == tb + nt)):
        ctx.violate(key + ':types', f'{label}: atom types are not the reference types (+ natypes for the boundary)', info)
        return False
    if width > 0.0:
        out, marg, ex = _region_outside(np, d, base.box, width, shape, np.asarray(disl.atoms.pos))
        if shape == 'cylinder' and not ex['positive']:
            ctx.violate(key + ':radius', f'{label}: boundary width {width} >= distance {ex["R0"]} of the line to the nearest '
                        f'face, yet a system was returned', info)
            return False
        flagged = ta != tb
        decided = marg > 1e-7 * sc
        # atoms whose position relative to the region involves no rounding (axis-aligned dyadic geometry) are decided
        # whatever their margin: an atom exactly ON the surface of the region is not outside it
        exact = _exact_atoms(np, d, base.box, np.asarray(disl.atoms.pos), width, shape)
        if exact is not None:
            decided = decided | exact
            ts = ctx.extra.setdefault('c13_surface_ties', {'configurations': 0, 'atoms_on_surface': 0})
            nt_ = int(np.count_nonzero(exact & (marg == 0.0)))
            ts['atoms_on_surface'] += nt_
            ts['configurations'] += 1 if nt_ else 0
            ts[shape] = ts.get(shape, 0) + nt_
            if shape == 'cylinder' and nt_:
                # surface atoms off the axes of the cross-section (Pythagorean pairs)
                pp_ = np.asarray(disl.atoms.pos)[exact & (marg == 0.0)]
                lc_ = int(np.flatnonzero(np.asarray(base.box.vects)[d.lineindex])[0])
                ac_ = [q for q in range(3) if q != lc_]
                ts['cylinder_pythagorean'] = ts.get('cylinder_pythagorean', 0) + \
                    int(np.count_nonzero((pp_[:, ac_[0]] != 0.0) & (pp_[:, ac_[1]] != 0.0)))
        bad = np.where((flagged != out) & decided)[0]
        if len(bad):
            i = int(bad[0])
            onsurf = exact is not None and bool(exact[i]) and marg[i] == 0.0
            ctx.violate(key + ':boundary', f'{label}: atom {i} at {np.asarray(disl.atoms.pos)[i].tolist()} is '
                        + (f'exactly on the surface of the {shape} region of width {width} (not outside it)' if onsurf else
                           f'{"outside" if out[i] else "inside"} the {shape} region of width {width} (by {marg[i]:.3g})')
                        + f' but {"is" if flagged[i] else "is not"} re-typed ({len(bad)} atoms)', info)
            return False
        if tuple(disl.symbols) != tuple(base.symbols) * 2:
            ctx.violate(key + ':symbols', f'{label}: symbols {disl.symbols}', info)
            return False
    elif np.any(ta != tb):
        ctx.violate(key + ':boundary-zero-width', f'{label}: atoms re-typed although boundarywidth = 0', info)
        return False
    return True


def _oracle_mono(ctx, np, case, raw, ucell, d, cfg, res, info, label):
    key = 'mono'
    base, disl, d = res[1], res[2], res[3]
    line, cut, motion = d.lineindex, d.cutindex, d.motionindex
    shift = _requested_shift(ctx, np, d, cfg, info, label, key, base)
    if shift is None:
        return
    if d.base_system is not base or d.disl_system is not disl:
        ctx.violate(key + ':attributes', f'{label}: base_system / disl_system of the object are not the returned systems', info)
        return
    if cfg.get('sm_form'):
        ctx.violate(key + ':bad-multipliers-accepted', f'{label}: sizemults = {_sm_form(cfg["sizemults"], cfg["sm_form"])} '
                    f'is not three positive integers, yet a system was generated', info)
        return
    if cfg.get('boundaryshape', 'cylinder') not in ('cylinder', 'box'):
        ctx.violate(key + ':bad-shape-accepted', f'{label}: boundaryshape {cfg["boundaryshape"]!r} is neither "cylinder" nor '
                    f'"box", yet a system was generated', info)
        return
    qs, center, width = _resolved(d, cfg, ucell)
    V = abs(np.linalg.det(np.asarray(base.box.vects)))
    mt = int(round(V / abs(np.linalg.det(np.asarray(d.rcell.box.vects)))))
    keys = _oracle_reference(ctx, np, d, base, shift, mt, info, label, key + ':reference')
    if keys is None:
        return
    # multipliers: the requested ones (at least), symmetric about the origin across the line
    rrel = _rel(np, np.zeros((1, 3)), base.box)[0]
    for i in range(3):
        exp = 0.0 if i == line else 0.5
        if abs(rrel[i] - exp) > 1e-9:
            ctx.violate(key + ':symmetric', f'{label}: the Cartesian origin sits at relative coordinate {rrel.tolist()} of '
                        f'the reference box (expected {exp} along {i})', info)
            return
    if not _check_mults(ctx, np, d, cfg, base, info, label, key):
        return
    # every reference atom kept, same order and type
    if disl.natoms != base.natoms:
        ctx.violate(key + ':keeps-atoms', f'{label}: {disl.natoms} atoms for {base.natoms} reference atoms', info)
        return
    nt = base.natypes
    ta, tb = np.asarray(disl.atoms.atype), np.asarray(base.atoms.atype)
    if not np.all((ta == tb) | (ta == tb + nt)):
        ctx.violate(key + ':types', f'{label}: atom types are not the reference types (+ natypes for the boundary)', info)
        return
    # displacement = solver value at the reference position relative to the centre, modulo the line vector only
    u = np.asarray(d.dislsol.displacement(np.asarray(base.atoms.pos) - center))
    diff = np.asarray(disl.atoms.pos) - np.asarray(base.atoms.pos) - u
    lv = np.asarray(base.box.vects)[line]
    k = np.rint(diff.dot(lv) / lv.dot(lv))
    resid = diff - np.outer(k, lv)
    sc = float(np.abs(np.asarray(base.box.vects)).max())
    if np.abs(resid).max() > 1e-9 * sc:
        i = int(np.argmax(np.abs(resid).max(axis=1)))
        ctx.violate(key + ':displacement', f'{label}: atom {i}: position - reference - u(reference - center) = '
                    f'{diff[i].tolist()} is not a multiple of the line vector {lv.tolist()}', info)
        return
    sl = _rel(np, disl.atoms.pos, disl.box)[:, line]
    if sl.min() < -1e-9 or sl.max() > 1 + 1e-9:
        ctx.violate(key + ':wrapped', f'{label}: relative coordinate along the line in [{sl.min()}, {sl.max()}]', info)
        return
    # periodic along the line only; the line vector is unchanged
    exp = [i == line for i in range(3)]
    if list(map(bool, disl.pbc)) != exp:
        ctx.violate(key + ':pbc', f'{label}: pbc {list(disl.pbc)}, expected {exp}', info)
        return
    if np.abs(np.asarray(disl.box.vects)[line] - lv).max() > 1e-12 * sc:
        ctx.violate(key + ':line-vector', f'{label}: the periodic box vector changed', info)
        return
    # boundary: re-typed exactly outside the region
    shape = cfg.get('boundaryshape', 'cylinder')
    if not _check_boundary(ctx, np, d, cfg, base, disl, shape, width, info, label, key):
        return
    if not cfg.get('probe'):
        for pc in _probe_cfgs(np, ctx.rng, d, base, disl, cfg, shape, sc, nmax=10, ties=True):
            pres = run_config(d, pc)
            pinfo = dict(info, cfg=pc)
            plab = label.rsplit(" {'kind'", 1)[0] + ' ' + str(pc)
            if pres[0] == 'err':
                if not (pres[1] == 'assert' and shape == 'cylinder'):
                    ctx.violate(key + ':probe-refusal', f'{plab}: refused ({pres[1:3]}) although the same configuration with '
                                f'boundarywidth {width} was generated', pinfo)
                    return
                continue
            if np.abs(np.asarray(pres[2].atoms.pos) - np.asarray(disl.atoms.pos)).max() > 0.0:
                ctx.violate(key + ':width-moves-atoms', f'{plab}: the positions depend on the boundary width', pinfo)
                return
            if not _check_boundary(ctx, np, d, pc, pres[1], pres[2], shape, pc['boundarywidth'], pinfo, plab, key):
                return
    _disregistry_check(ctx, np, d, base, disl, 'mono', cfg, info, label)


def _oracle_array(ctx, np, case, raw, ucell, d, cfg, res, info, label):
    key = 'array'
    base, disl, d = res[1], res[2], res[3]
    line, cut, motion = d.lineindex, d.cutindex, d.motionindex
    shift = _requested_shift(ctx, np, d, cfg, info, label, key, base)
    if shift is None:
        return
    if d.base_system is not base or d.disl_system is not disl:
        ctx.violate(key + ':attributes', f'{label}: base_system / disl_system of the object are not the returned systems', info)
        return
    if cfg.get('sm_form'):
        ctx.violate(key + ':bad-multipliers-accepted', f'{label}: sizemults = {_sm_form(cfg["sizemults"], cfg["sm_form"])} '
                    f'is not three positive integers, yet a system was generated', info)
        return
    if not cfg.get('probe') and not _check_mults(ctx, np, d, cfg, base, info, label, key):
        return
    qs, center, width = _resolved(d, cfg, ucell)
    bvec = np.asarray(d.dislsol.burgers)
    mvec = np.asarray(d.dislsol.m)
    nvec = np.asarray(d.dislsol.n)
    keys = _oracle_reference(ctx, np, d, base, shift, None, info, label, key + ':reference')
    if keys is None:
        return
    if base.natoms != disl.natoms:
        ctx.violate(key + ':natoms', f'{label}: {disl.natoms} atoms, trimmed reference {base.natoms}', info)
        return
    # documented refusal: an atomic plane on the slip plane (the mid-plane of the cell across the cut) has no defined side
    srel_ = _rel(np, base.atoms.pos, base.box)[:, cut]
    if np.abs(srel_ - 0.5).min() < 1e-10:
        ctx.violate(key + ':atoms-on-slip-plane', f'{label}: {int((np.abs(srel_ - 0.5) < 1e-10).sum())} reference atoms lie on '
                    f'the slip plane (relative coordinate 0.5 across the cut); the generator must refuse (ValueError)', info)
        return
    old = np.asarray(disl.atoms.old_id)
    if len(old) != disl.natoms or np.any(np.diff(old) <= 0):
        ctx.violate(key + ':old_id-order', f'{label}: old_id is not strictly increasing', info)
        return
    # full reference system, independently: the set of lattice sites of the supercell
    bv = np.asarray(base.box.vects)
    V0 = abs(np.linalg.det(bv))
    N0 = int(round(V0 / abs(np.linalg.det(np.asarray(d.rcell.box.vects))))) * d.rcell.natoms
    if old.max(initial=-1) >= N0:
        ctx.violate(key + ':old_id-range', f'{label}: old_id {old.max()} >= {N0}', info)
        return
    # old_id maps to the untrimmed reference: rebuild it with the library's supersize (order is C04's subject)
    sizes = []
    for i in range(3):
        mlt = int(round(np.linalg.norm(bv[i]) / np.linalg.norm(np.asarray(d.rcell.box.vects)[i])))
        sizes.append((0, mlt) if i == line else (-mlt // 2, mlt // 2))
    full = d.rcell.supersize(*sizes)
    full.atoms.pos += shift
    full.wrap()
    if full.natoms != N0:
        ctx.violate(key + ':full-count', f'{label}: full reference has {full.natoms} atoms, expected {N0}', info)
        return
    sc = float(np.abs(bv).max())
    dd = np.asarray(base.atoms.pos) - np.asarray(full.atoms.pos)[old]
    # compare modulo the periodic box vectors of the reference (atoms on a face may wrap either way)
    s = dd.dot(np.linalg.inv(bv))
    dd = dd - np.rint(s).dot(bv)
    if np.abs(dd).max() > 1e-8 * sc or np.any(np.asarray(base.atoms.atype) != np.asarray(full.atoms.atype)[old]):
        i = int(np.argmax(np.abs(dd).max(axis=1)))
        ctx.violate(key + ':old_id-map', f'{label}: remaining atom {i} (old_id {old[i]}) is not reference atom {old[i]}', info)
        return
    # deletion count = natoms * (1 - V'/V), an integer, = natoms |b.m| / (2 L) for a box vector along m
    nv = np.asarray(disl.box.vects)
    tilted = bv.copy()
    tilted[motion] += (-1.0 if bvec.dot(mvec) > 0 else 1.0) * bvec / 2
    V1 = abs(np.linalg.det(tilted))                        # (the returned box is padded across the free surfaces)
    expected = N0 * (1 - V1 / V0)
    deleted = N0 - disl.natoms
    if abs(expected - deleted) > 1e-6 * max(1.0, N0):
        ctx.violate(key + ':deletion-count', f'{label}: {deleted} atoms deleted, volume change implies {expected}', info)
        return
    Lm = bv[motion].dot(mvec)
    if abs(np.linalg.norm(bv[motion]) - abs(Lm)) < 1e-9 * sc and abs(bv[cut].dot(mvec)) < 1e-9 * sc:
        edge = N0 * abs(bvec.dot(mvec)) / (2 * abs(Lm))
        if abs(edge - deleted) > 1e-6 * max(1.0, N0):
            ctx.violate(key + ':edge-count', f'{label}: {deleted} atoms deleted, edge component implies {edge}', info)
            return
    # box: the motion vector tilted by -+ b/2, others unchanged; periodic in the slip plane only
    exp_pbc = [i != cut for i in range(3)]
    if list(map(bool, disl.pbc)) != exp_pbc:
        ctx.violate(key + ':pbc', f'{label}: pbc {list(disl.pbc)}, expected {exp_pbc}', info)
        return
    sgn = -1.0 if bvec.dot(mvec) > 0 else 1.0
    expv = bv.copy()
    expv[motion] += sgn * bvec / 2
    if np.abs(nv[[line, motion]] - expv[[line, motion]]).max() > 1e-9 * sc:
        ctx.violate(key + ':box', f'{label}: periodic box vectors {nv.tolist()}, expected {expv.tolist()}', info)
        return
    # no overlapping atoms across the two periodic directions
    r_nn, _ = _min_image_pairs(np, np.asarray(full.atoms.pos), bv, [True, True, True], 0)
    cutoff = cfg.get('cutoff')
    cutoff = 0.5 if cutoff is None else cutoff
    thresh = min(cutoff, 0.3 * r_nn)
    if disl.natoms <= 1500 and not cfg.get('probe'):
        Lm_ = abs(bv[motion].dot(mvec))
        for rmin, i_, j_ in _close_pairs(np, np.asarray(disl.atoms.pos), nv, exp_pbc, thresh):
            allow = thresh
            if not cfg.get('linear'):
                # the elastic field of one dislocation is not periodic along m: at height y above the slip plane the two
                # faces differ by b/2 - b atan(2y/L)/pi instead of the b/2 the tilted cell provides (isotropic screw
                # value; factor 1.5 for anisotropy and the edge part): neighbours across the faces may approach by that
                ri_ = np.asarray(base.atoms.pos)[[i_, j_]] - center
                if max(np.hypot(ri_.dot(mvec), ri_.dot(nvec))) < float(np.linalg.norm(bvec)):
                    continue                              # both within |b| of the line: the singular core of the solution
                yy = max(abs((np.asarray(base.atoms.pos)[i_] - center).dot(nvec)),
                         abs((np.asarray(base.atoms.pos)[j_] - center).dot(nvec)))
                allow = min(thresh, r_nn - 1.5 * float(np.linalg.norm(bvec)) * math.atan(2 * yy / Lm_) / math.pi)
            if rmin < allow:
                ctx.violate(key + ':overlap', f'{label}: atoms {(i_, j_)} are {rmin:.4f} apart across the periodic directions '
                            f'(nearest-neighbour distance {r_nn:.4f}, cutoff {cutoff}, allowed {allow:.4f})', info)
                return
    # displacement of each remaining atom relative to its reference atom, modulo the periodic vectors
    L = abs(bv[motion].dot(mvec))
    p0 = np.asarray(base.atoms.pos) - center
    lin = np.outer(np.sign(p0.dot(nvec)) * (0.25 - p0.dot(mvec) / (2 * L)), bvec)
    if cfg.get('linear'):
        u = lin
    else:
        u = np.asarray(d.dislsol.displacement(p0))
        u[:, cut] -= u[:, cut].mean()
        y = np.asarray(base.atoms.pos).dot(nvec)
        y0 = np.asarray(base.box.origin).dot(nvec)
        y1 = y0 + bv[cut].dot(nvec)
        lo, hi = min(y0, y1), max(y0, y1)
        surf = (y <= lo + width) | (y >= hi - width)
        amb = (np.abs(y - (lo + width)) < 1e-9 * sc) | (np.abs(y - (hi - width)) < 1e-9 * sc)
        u[surf] = lin[surf]
    diff = np.asarray(disl.atoms.pos) - np.asarray(base.atoms.pos) - u
    s = diff.dot(np.linalg.inv(nv))
    k = np.rint(s)
    k[:, cut] = 0
    resid = diff - k.dot(nv)
    bad = np.abs(resid).max(axis=1) > 1e-8 * sc
    if not cfg.get('linear'):
        bad &= ~amb
    if np.any(bad):
        i = int(np.where(bad)[0][0])
        ctx.violate(key + ':displacement', f'{label}: atom {i}: position - reference - displacement = {diff[i].tolist()} is '
                    f'not a combination of the periodic box vectors', info)
        return
    sp = _rel(np, disl.atoms.pos, disl.box)
    for i in (line, motion):
        if sp[:, i].min() < -1e-9 or sp[:, i].max() > 1 + 1e-9:
            ctx.violate(key + ':wrapped', f'{label}: relative coordinate {i} outside [0, 1]', info)
            return
    if not _check_boundary(ctx, np, d, cfg, base, disl, 'array', width, info, label, key):
        return
    if not cfg.get('probe') and not cfg.get('linear'):
        # elastic arrays: the surface layers (linear field) are chosen by the height of the REFERENCE atoms: widths
        # immediately on either side of the depth of an atomic plane below the lower / upper surface
        yb_ = np.asarray(base.atoms.pos).dot(nvec)
        y0_ = np.asarray(base.box.origin).dot(nvec)
        y1_ = y0_ + bv[cut].dot(nvec)
        lo_, hi_ = min(y0_, y1_), max(y0_, y1_)
        eps = 1e-5 * sc
        ws = []
        for dep in (yb_ - lo_, hi_ - yb_):
            cand = np.unique(np.round(dep[(dep > 50 * eps) & (dep < 0.45 * (hi_ - lo_))], 9))
            if len(cand):
                t = float(cand[ctx.rng.randrange(min(len(cand), 6))])
                ws += [t - eps, t + eps]
        ws += _tie_widths(np, ctx.rng, d, base, disl, 'array', nmax=2)      # atomic planes exactly ON the region's faces
        for w_ in ws:
            pc = {k: v for k, v in cfg.items() if k != 'boundaryscale'}
            pc['boundarywidth'] = float(w_)
            pc['probe'] = True
            pres = run_config(d, pc)
            pinfo = dict(info, cfg=pc)
            plab = label.rsplit(" {'kind'", 1)[0] + ' ' + str(pc)
            if pres[0] == 'err':
                ctx.violate(key + ':probe-refusal', f'{plab}: refused ({pres[1:3]}) although the same configuration with '
                            f'boundarywidth {width} was generated', pinfo)
                return
            _oracle_array(ctx, np, case, raw, ucell, d, pc, pres, pinfo, plab)
    elif not cfg.get('probe'):
        for pc in _probe_cfgs(np, ctx.rng, d, base, disl, cfg, 'array', sc, nmax=6, ties=True):
            pres = run_config(d, pc)
            pinfo = dict(info, cfg=pc)
            plab = label.rsplit(" {'kind'", 1)[0] + ' ' + str(pc)
            if pres[0] == 'err':
                ctx.violate(key + ':probe-refusal', f'{plab}: refused ({pres[1:3]}) although the same configuration with '
                            f'boundarywidth {width} was generated', pinfo)
                return
            if not _check_boundary(ctx, np, d, pc, pres[1], pres[2], 'array', pc['boundarywidth'], pinfo, plab, key):
                return
    if not cfg.get('probe'):
        _disregistry_check(ctx, np, d, base, disl, 'array', cfg, info, label, ucell.box.a)


def _oracle_refusal(ctx, np, d, cfg, res, ucell, info, label):
    """a refusal must be one of the documented ones and must be justified."""
    cls = res[1]
    d = res[3]
    kind = cfg['kind']
    sm = cfg.get('sizemults')
    line = d.lineindex
    if cls == 'solver':
        return
    if cls.startswith('init '):
        # the constructor refused: justified only by its own shift arguments
        try:
            _shift_of(np, d, cfg['init'], None, False, 'init')
        except _Refuse as r:
            if r.cls == cls.split()[1]:
                return
        ctx.violate(kind + ':refusal-construction', f'{label}: Dislocation(..., {cfg["init"]}) raised {cls[5:]}: {res[2]}', info)
        return
    if cls == 'type':
        ok = cfg.get('sm_form') is not None or (
            sm is not None and (any((not isinstance(x, int)) or x <= 0 for x in sm)
                                or any(sm[i] % 2 for i in range(3) if i != line)))
        if not ok:
            ctx.violate(kind + ':refusal-type', f'{label}: TypeError for acceptable multipliers: {res[2]}', info)
        return
    if cfg.get('sm_form') or (sm is not None and (any(x <= 0 for x in sm) or any(sm[i] % 2 for i in range(3) if i != line))):
        ctx.violate(kind + ':odd-accepted', f'{label}: invalid multipliers {sm} {cfg.get("sm_form", "")} did not raise '
                    f'TypeError but {cls}: {res[2]}', info)
        return
    if cls == 'value' and kind == 'mono' and cfg.get('boundaryshape', 'cylinder') not in ('cylinder', 'box'):
        try:
            _expected_shift(np, d, cfg)
            return                                        # 'boundaryshape must be "cylinder" or "box"'
        except _Refuse:
            return
    if cls in ('value', 'index'):
        # the only other documented refusals of these classes concern the way the shift is named in the call
        try:
            _expected_shift(np, d, cfg)
        except _Refuse as r:
            if r.cls == cls and r.where == 'call':
                # a refused call must leave the object as it was
                tr = {t_[0]: t_ for t_ in getattr(d, '_c13_trace', []) if t_[1] == 'ok'}
                if 'before' in tr and 'after-refusal' in tr and tr['before'][2] != tr['after-refusal'][2]:
                    ctx.violate(kind + ':refused-call-changed-shift', f'{label}: the refused call changed the shift of the '
                                f'object from {tr["before"][2]} to {tr["after-refusal"][2]}', info)
                return
        ctx.violate(kind + ':refusal', f'{label}: unexpected refusal {cls}: {res[2]}', info)
        return
    try:
        _expected_shift(np, d, cfg)
    except _Refuse as r:
        if r.where == 'call':
            ctx.violate(kind + ':shift-not-refused', f'{label}: the call names its shift inadmissibly ({r.cls}) and must be '
                        f'refused for that; it was refused with {cls}: {res[2]}', info)
            return
    if cls == 'assert' and kind == 'mono' and 'radius' in res[2]:
        return                                            # boundary wider than the system: Cylinder's assertion
    if cls == 'value slip' and kind == 'array':
        # justified iff an atom of the shifted crystal lies on the plane through the origin
        W = d.rcell.box.vects[d.cutindex, d.cutindex]
        z = np.asarray(d.rcell.atoms.pos)[:, d.cutindex] + np.asarray(d.shift)[d.cutindex]
        zz = np.mod(z + W / 2, W) - W / 2
        if np.abs(zz).min() > 1e-6 * W:
            ctx.violate('array:refusal-slip', f'{label}: refused for atoms on the slip plane, nearest plane at '
                        f'{np.abs(zz).min()}', info)
        return
    if cls in ('value nonint', 'value mismatch') and kind == 'array':
        # documented refusals; they must be justified: the count implied by the edge component (volume change of the
        # tilted cell) is not an integer / differs from the number of coincident atoms of the linearly displaced crystal
        import re
        sizes = []
        for i in range(3):
            s_ = 2 if sm is None else sm[i]
            if sm is None and i == line:
                s_ = 1
            sizes.append(s_)
        qs_, center_, _w = _resolved(d, cfg, ucell)
        for i in range(3):
            if qs_[i] is not None:
                q = qs_[i] + (1 if (i != line and qs_[i] % 2) else 0)
                sizes[i] = max(sizes[i], q)
        bv = np.asarray(d.rcell.box.vects) * np.array(sizes)[:, None]
        b = np.asarray(d.dislsol.burgers)
        mvec = np.asarray(d.dislsol.m)
        nvec = np.asarray(d.dislsol.n)
        N0 = d.rcell.natoms * sizes[0] * sizes[1] * sizes[2]
        rec = np.linalg.inv(bv).T
        implied = N0 * abs(b.dot(rec[d.motionindex])) / 2     # natoms (1 - V'/V) for the shrinking tilt
        frac = abs(implied - round(implied))
        if cls == 'value nonint':
            if frac < 1e-9 * max(1.0, abs(implied)):
                ctx.violate('array:refusal-nonint', f'{label}: refused for a non-integer deletion count, but the edge component '
                            f'implies {implied} atoms ({res[2]})', info)
            return
        mm = re.search(r'expected (-?\d+), found (-?\d+)', res[2])
        if mm and abs(implied - int(mm.group(1))) > 1e-6 * max(1.0, N0):
            ctx.violate('array:refusal-count', f'{label}: refused with expected {mm.group(1)} atoms to delete, the '
                        f'edge component implies {implied}', info)
            return
        if frac > 1e-9 * max(1.0, abs(implied)) or N0 > 1200:
            return
        # independent count of the coincident atoms: whole crystal (not only a strip near the faces), all pairs through
        # the periodic images of the tilted cell
        mo, cut = d.motionindex, d.cutindex
        sizes6 = []
        for i in range(3):
            sizes6 += [0, sizes[i]] if i == line else [-sizes[i] // 2, sizes[i] // 2]
        full = _full_base(np, d, sizes6, np.asarray(d.shift, dtype=float))
        fv = np.asarray(full.box.vects)
        pos = np.array(full.atoms.pos)
        sp = _rel(np, pos, full.box)[:, mo]
        pos[np.isclose(sp, 1.0, rtol=0.0, atol=1e-8)] -= fv[mo]
        L = abs(fv[mo].dot(mvec))
        p0 = pos - center_
        test = pos + np.outer(np.sign(p0.dot(nvec)) * (0.25 - p0.dot(mvec) / (2 * L)), b)
        nv = fv.copy()
        nv[mo] += (-b / 2 if b.dot(mvec) > 0 else b / 2)
        cutoff = cfg.get('cutoff')
        cutoff = 0.5 if cutoff is None else cutoff
        best = np.full((len(test), len(test)), np.inf)
        for a_ in ((-1, 0, 1) if cut != 0 else (0,)):
            for b_ in ((-1, 0, 1) if cut != 1 else (0,)):
                for c_ in ((-1, 0, 1) if cut != 2 else (0,)):
                    dd = test[None, :, :] - test[:, None, :] + (a_ * nv[0] + b_ * nv[1] + c_ * nv[2])
                    best = np.minimum(best, np.sqrt((dd ** 2).sum(axis=2)))
        iu = np.triu_indices(len(test), 1)
        dist = best[iu]
        if np.abs(dist - cutoff).min() < 1e-6 * max(1.0, cutoff):
            return                                        # a pair at the cutoff: either count is acceptable
        close = np.zeros_like(best, dtype=bool)
        close[iu] = dist < cutoff
        found = int(close.any(axis=1).sum())              # atoms with a later atom within the cutoff
        if found == int(round(implied)):
            ctx.violate('array:refusal-mismatch', f'{label}: refused ({res[2]}), but the linearly displaced crystal in the '
                        f'tilted cell has exactly {found} atoms coinciding (within the cutoff {cutoff}) with a later atom, the '
                        f'number the edge component implies', info)
        return
    ctx.violate(kind + ':refusal', f'{label}: unexpected refusal {cls}: {res[2]}', info)


def _search_case(ctx, case, raw, ncfg, stats):
    np = _np()
    rng = ctx.rng
    info = {'op': 'search', 'case': _sample(raw)}
    label = f'{raw["crystal"]} {raw["lp"]} b={raw["burgers"]} xi={raw["xi"]} hkl={raw["hkl"]} m={raw["m"]} n={raw["n"]}'
    canon = ('search', raw['crystal'], tuple(map(str, raw['burgers'])), tuple(raw['xi']), tuple(raw['hkl']), raw['m'], raw['n'],
             tuple(sorted(raw['lp'].items())))
    try:
        ucell, d = make_disl(case)
    except Exception as e:  # noqa
        msg = str(e)
        if 'isotropic' in msg:
            stats['solver_refused'] += 1
            return
        stats['refused'] += 1
        ctx.stats.case('search:refused', canon, nontrivial=False)
        if not isinstance(e, (ValueError, AssertionError)):
            ctx.violate('cells:exception', f'{label}: Dislocation(...) raised {type(e).__name__}: {msg[:120]}', info)
        elif not ('Stroh' in msg or 'eigen' in msg.lower()) and \
                (not ('not aligned' in msg) or (raw['m'], raw['n']) == ('y', 'z')):
            # the generated systems are valid (line and Burgers vector in the plane, lattice directions within the
            # index bound): the only documented refusal is that of a rotated cell that cannot be aligned with the axes
            # of the solution, which cannot happen for the default assignment m = y, n = z (line along a, in-plane vector
            # in the a-b plane: always a LAMMPS-compatible cell)
            ctx.violate('cells:refusal-unjustified', f'{label}: Dislocation(...) refused a valid slip system: '
                        f'{type(e).__name__}: {msg[:160]}', info)
        elif case.get('hex4'):
            # the same slip system in 3-index notation: a refusal cannot depend on the notation
            try:
                make_disl(dict(case, hex4=False))
            except Exception:  # noqa
                return
            ctx.violate('cells:hex4-refused', f'{label}: given with 4-index (Miller-Bravais) vectors the system is refused '
                        f'({type(e).__name__}: {msg[:100]}), with the equivalent 3-index vectors it is accepted', info)
        return
    ctx.stats.case('search:cells:' + raw['crystal'], canon)
    if not _oracle_cells(ctx, case, raw, ucell, d, info, label):
        return
    if case.get('hex4'):
        # 4-index input is notation only: same cells as for the equivalent 3-index input, uvws reported in 4 indices
        try:
            _u3, d3 = make_disl(dict(case, hex4=False))
        except Exception as e:  # noqa
            ctx.violate('cells:hex4-refused', f'{label}: accepted with 4-index vectors, refused with the equivalent 3-index '
                        f'vectors ({type(e).__name__}: {str(e)[:100]})', info)
            return
        uv4, uv3 = np.asarray(d.uvws, dtype=float), np.asarray(d3.uvws, dtype=float)
        sc_ = float(np.abs(np.asarray(d3.rcell.box.vects)).max())

        def differ(a_, b_, tol_):
            a_, b_ = np.asarray(a_, dtype=float), np.asarray(b_, dtype=float)
            return a_.shape != b_.shape or float(np.abs(a_ - b_).max()) > tol_
        if uv4.shape != (3, 4) or uv3.shape != (3, 3) or np.abs(uv4[:, :3].sum(axis=1)).max() > 1e-9 \
                or differ([[r[0] - r[2], r[1] - r[2], r[3]] for r in uv4], uv3, 1e-9) \
                or differ(d.uvws_prim, d3.uvws_prim, 1e-9) \
                or differ(d.rcell.box.vects, d3.rcell.box.vects, 1e-9 * sc_) \
                or differ(d.shifts, d3.shifts, 1e-9 * sc_):
            ctx.violate('cells:hex4', f'{label}: 4-index input gives uvws {uv4.tolist()}, rcell {np.asarray(d.rcell.box.vects).tolist()}; '
                        f'the equivalent 3-index input gives uvws {uv3.tolist()}, rcell {np.asarray(d3.rcell.box.vects).tolist()}', info)
            return
    _oracle_shifts(ctx, d, info, label)
    _oracle_minsizes(ctx, np, d, info, label, canon, ncfg, stats)
    for k in range(ncfg):
        kind = 'mono' if k % 2 == 0 else 'array'
        cfg = gen_config(rng, d, kind)
        cinfo = dict(info, cfg=cfg)
        lab = label + ' ' + str(cfg)
        res = run_config(d, cfg)
        ctx.stats.case('search:' + kind, canon + (tuple(sorted((a, str(b)) for a, b in cfg.items())),),
                       nontrivial=(res[0] == 'ok'))
        stats[kind] += 1
        if res[0] == 'err':
            if res[1] == 'solver':
                # a complex elastic field is only acceptable when an atomic plane lies on the slip plane (the branch
                # cut of the solution), i.e. the documented precondition on the shift is violated
                stats['solver_refused'] += 1
                qs_, center_, _w = _resolved(d, cfg, ucell)
                W = d.rcell.box.vects[d.cutindex, d.cutindex]
                z = np.asarray(d.rcell.atoms.pos)[:, d.cutindex] + np.asarray(res[3].shift)[d.cutindex] - center_[d.cutindex]
                zz = np.mod(z + W / 2, W) - W / 2
                if np.abs(zz).min() > 1e-6 * W:
                    ctx.violate(kind + ':complex-field', f'{lab}: the generator failed on a complex elastic field although no '
                                f'atomic plane lies on the slip plane ({res[2]})', cinfo)
                continue
            stats['refusals'] += 1
            stats['refusal:' + res[1]] = stats.get('refusal:' + res[1], 0) + 1
            _oracle_refusal(ctx, np, d, cfg, res, ucell, cinfo, lab)
            continue
        if res[2].natoms > 2500:
            continue
        if kind == 'mono':
            _oracle_mono(ctx, np, case, raw, ucell, d, cfg, res, cinfo, lab)
        else:
            _oracle_array(ctx, np, case, raw, ucell, d, cfg, res, cinfo, lab)


# ----------------------------------------------------------------------------------------
# atoms EXACTLY on the surface of the boundary region
# ----------------------------------------------------------------------------------------
# crystals whose cell vectors are mutually perpendicular, with lattice constants that are small dyadic numbers
TIE_CRYSTALS = {
    'bcc': [dict(a=2.0), dict(a=4.0), dict(a=3.0), dict(a=2.5), dict(a=1.0)],
    'fcc': [dict(a=2.0), dict(a=4.0), dict(a=3.5), dict(a=8.0)],
    'sc': [dict(a=1.0), dict(a=2.0), dict(a=1.5), dict(a=0.5)],
    'b2': [dict(a=2.0), dict(a=3.0)],
    'l12': [dict(a=4.0), dict(a=2.0)],
    'bcc_p': [dict(a=2.0), dict(a=3.0)],
    'fcc_p': [dict(a=4.0)],
    'bct': [dict(a=2.0, c=3.0), dict(a=3.0, c=3.75), dict(a=4.0, c=2.5)],
    'ortho_c': [dict(a=2.0, b=3.0, c=2.5), dict(a=3.0, b=4.5, c=3.75)],
    'ortho_f': [dict(a=2.0, b=3.0, c=4.0)],
}


def _tie_cases(rng, n):
    """screw dislocations along a cell axis of an orthogonal cell, slip plane another axis plane, Burgers vector one
    (conventional) lattice period along the line, every sign, every m / n assignment: the rotated cell is axis aligned
    and the displacement is purely along the line, so the coordinates across the line stay bit-exact dyadic numbers."""
    out = []
    names = list(TIE_CRYSTALS)
    for k in range(n):
        name = names[k % len(names)] if k < len(names) else rng.choice(names)
        lp = rng.choice(TIE_CRYSTALS[name])
        i = rng.randrange(3)
        j = rng.choice([q for q in range(3) if q != i])
        xi, hkl, b = [0, 0, 0], [0, 0, 0], [0, 0, 0]
        xi[i] = rng.choice([1, -1])
        hkl[j] = rng.choice([1, -1])
        b[i] = rng.choice([1, -1])
        m, nn = rng.choice(MN)
        out.append({'crystal': name, 'lp': lp, 'burgers': [str(x) for x in b], 'xi': xi, 'hkl': hkl,
                    'character': 'axis-screw', 'm': m, 'n': nn, 'hex4': False})
    return out


def _search_ties(ctx, ncases, stats):
    """the clause 're-types as boundary exactly those atoms outside the stated region' where it is decided by a
    comparison alone: atomic rows bit-exactly ON the faces of the box region, on the cylinder (atoms on the axes of the
    cross-section and Pythagorean pairs) and on the faces of the array's boundary region.  The width is the exact depth /
    distance of atoms of the generated system itself; on the surface = not outside (exact rational oracle)."""
    np = _np()
    rng = ctx.rng
    for raw in _tie_cases(rng, ncases):
        case = _fix_case(raw)
        info = {'op': 'search', 'case': _sample(raw)}
        label = f'{raw["crystal"]} {raw["lp"]} b={raw["burgers"]} xi={raw["xi"]} hkl={raw["hkl"]} m={raw["m"]} n={raw["n"]}'
        canon = ('ties', raw['crystal'], tuple(map(str, raw['burgers'])), tuple(raw['xi']), tuple(raw['hkl']), raw['m'],
                 raw['n'], tuple(sorted(raw['lp'].items())))
        try:
            ucell, d = make_disl(case)
        except Exception as e:  # noqa
            stats['ties_refused'] = stats.get('ties_refused', 0) + 1
            ctx.stats.case('search:ties:refused', canon, nontrivial=False)
            if not isinstance(e, (ValueError, AssertionError)):
                ctx.violate('cells:exception', f'{label}: Dislocation(...) raised {type(e).__name__}: {str(e)[:120]}', info)
            continue
        line = d.lineindex
        nat = d.rcell.natoms
        ncase = stats['ties_cases'] = stats.get('ties_cases', 0) + 1
        for kind, shape in (('mono', 'box'), ('mono', 'cylinder'), ('array', 'array')):
            sm = [0, 0, 0]
            big_ = rng.choice([6, 8, 8, 10, 12, 16]) if nat <= 4 else rng.choice([4, 6, 8])
            if kind == 'mono' and nat <= 4 and (ncase <= 2 or rng.random() < 0.04):
                big_ = rng.choice([32, 48, 62, 64])          # a large cross-section (thousands of atoms, long surface rows)
            for q in range(3):
                sm[q] = rng.choice([1, 1, 2]) if q == line else rng.choice([big_, big_, rng.choice([4, 6, 8])])
            cfg = {'kind': kind, 'sizemults': sm, 'boundarywidth': rng.choice([0.5, 1.0, 1.5, 2.0, 0.25, 3.0])}
            if kind == 'mono':
                cfg['boundaryshape'] = shape
            else:
                cfg['linear'] = rng.random() < 0.5
            if len(d.shifts) > 1 and rng.random() < 0.5:
                cfg['shiftindex'] = rng.randrange(len(d.shifts))
            else:
                cfg['shiftindex'] = 0
            if rng.random() < 0.3:
                c = [0.0, 0.0, 0.0]
                c[d.motionindex] = rng.choice([0.25, -0.5, 1.0, 0.125])
                cfg['center'] = c
            cfg['flag_form'] = rng.choice(FLAG_FORMS)
            res = run_config(d, cfg)
            cinfo = dict(info, cfg=cfg)
            lab = label + ' ' + str(cfg)
            ctx.stats.case('search:ties:' + shape, canon + (tuple(sorted((a, str(b)) for a, b in cfg.items())),),
                           nontrivial=(res[0] == 'ok'))
            if res[0] == 'err':
                stats['ties_refusals'] = stats.get('ties_refusals', 0) + 1
                if res[1] != 'solver' and not (res[1] == 'assert' and shape == 'cylinder'):
                    _oracle_refusal(ctx, np, d, cfg, res, ucell, cinfo, lab)
                continue
            base, disl, d2 = res[1], res[2], res[3]
            width = float(cfg['boundarywidth'])
            if not _check_boundary(ctx, np, d2, cfg, base, disl, shape, width, cinfo, lab, kind):
                return
            a_ = float(ucell.box.a)
            for w_ in _tie_widths(np, rng, d2, base, disl, shape, nmax=4):
                pc = dict(cfg, boundarywidth=float(w_), probe=True)
                q_ = rng.random()
                if q_ < 0.3 and (w_ / a_) * a_ == w_:
                    pc['boundarywidth'] = w_ / a_             # the same width in units of the unit cell's a
                    pc['boundaryscale'] = True
                elif q_ < 0.4:
                    pc['boundaryscale'] = False
                pres = run_config(d2, pc)
                pinfo = dict(info, cfg=pc)
                plab = label + ' ' + str(pc)
                stats['ties_probes'] = stats.get('ties_probes', 0) + 1
                if pres[0] == 'err':
                    ctx.violate(kind + ':probe-refusal', f'{plab}: refused ({pres[1:3]}) although the same configuration '
                                f'with boundarywidth {width} was generated', pinfo)
                    return
                if not _check_boundary(ctx, np, pres[3], pc, pres[1], pres[2], shape, float(w_), pinfo, plab, kind):
                    return


def search(ctx, broken):
    rng = ctx.rng
    big = broken or ctx.thorough
    spec = _special_cases(rng, True)
    cases = spec + _case_list(ctx, rng, 10 if big else 3, 2 if big else 1)
    # every m/n assignment for a sample of the generated systems
    extra = []
    for c in cases[len(spec):][:: (2 if big else 4)]:
        for m, n in MN:
            if (m, n) != (c['m'], c['n']):
                extra.append(dict(c, m=m, n=n))
    stats = {'mono': 0, 'array': 0, 'refusals': 0, 'refused': 0, 'solver_refused': 0}
    _search_ties(ctx, 150 if big else 40, stats)
    for raw in cases + extra:
        _search_case(ctx, _fix_case(raw), raw, 4 if big else 2, stats)
    ctx.extra['c13_search'] = stats


def replay(ctx, payload):
    r = payload.get('replay') or {}
    raw = r.get('case')
    if raw is None:
        search(ctx, True)
        return
    raw = dict(raw)
    raw['xi'] = [int(F(x)) if F(x).denominator == 1 else F(x) for x in raw['xi']]
    raw['hkl'] = [int(x) for x in raw['hkl']]
    case = _fix_case(raw)
    stats = {'mono': 0, 'array': 0, 'refusals': 0, 'refused': 0, 'solver_refused': 0, 'cells': 0, 'cells_valid': 0,
             'cells_refused': 0, 'exempt_near': 0}
    np = _np()
    info = {'op': 'replay', 'case': _sample(raw)}
    label = f'{raw["crystal"]} b={raw["burgers"]} xi={raw["xi"]} hkl={raw["hkl"]} m={raw["m"]} n={raw["n"]}'
    cfg = r.get('cfg')
    if cfg is None:
        _search_case(ctx, case, raw, 4, stats)
        if ctx.driver is not None:
            jobs = []
            _correspond_case(ctx, case, raw, 2, stats, jobs)
            _run_jobs(ctx, jobs)
        return
    ucell, d = make_disl(case)
    if not _oracle_cells(ctx, case, raw, ucell, d, info, label):
        return
    res = run_config(d, cfg)
    cinfo = dict(info, cfg=cfg)
    if res[0] == 'err':
        _oracle_refusal(ctx, np, d, cfg, res, ucell, cinfo, label)
    elif cfg['kind'] == 'mono':
        _oracle_mono(ctx, np, case, raw, ucell, d, cfg, res, cinfo, label)
    else:
        _oracle_array(ctx, np, case, raw, ucell, d, cfg, res, cinfo, label)
    if ctx.driver is not None:
        jobs = []
        _correspond_config(ctx, case, raw, ucell, d, cfg, stats, jobs)
        _run_jobs(ctx, jobs)


MANIFEST = {
    'text': 'Lean 4 model of atomman.defect.Dislocation: choice of the three integer cell vectors (in-plane / out-of-plane '
            'searches as folds over product(range(-5,6)), gcd reduction, the six row orders, the alignment refusal), '
            'mid-plane shifts, multiplier handling, reference system = C04.supersize + shift + C05.wrap, monopole (pos + '
            'u(pos - center), pbc along the line, wrap, box / cylinder boundary re-typing in squared form) and periodic '
            'array (face atoms, slip-plane refusal, tilt by -+b/2, linear field, duplicate detection with the shared dvect '
            'model, expected-count test, old_id, blending, boundary), and of atomman.defect.disregistry (adjoining planes, '
            'atomic columns, column means, np.interp), and of the parameter handling (set_shift over histories of calls '
            'on one object: constructor, set_shift, generator calls; centerscale / boundaryscale conversions). '
            'Proved for every ordered field and every '
            'displacement field u: shifts put the slip plane midway between consecutive atomic planes; multipliers even and '
            'symmetric across the line; the reference system is the shifted crystal (count, order, types, lattice '
            'translations); the monopole keeps every atom with pos\' = pos + u(pos - center) modulo the line vector only, is '
            'periodic along the line only, and re-types exactly the atoms outside the region (the cylinder radius is the '
            'distance of the line to the nearest of the four faces, also for tilted cells); disregistry() subtracts the two '
            'planes adjoining planepos, depends on planepos only through that gap, and needs no interpolation at common '
            'columns; selected cell vectors obey the '
            'zone law and are right handed in all six orders; the linear field accumulates exactly one Burgers vector; '
            'the shift used is the shift requested for every way of naming it and either value of shiftscale, a shift '
            'named by index or default lies midway between atomic planes, a generator without shift arguments keeps the '
            'object\'s shift, refused calls change nothing; '
            'old_id maps every remaining atom of an array to its reference atom; the deletion count equals the count '
            'implied by the volume change (partial). Tied to the code by a differential run on fcc/bcc/hcp/bct/orthorhombic/'
            'monoclinic/triclinic cells and slip systems (whole configurations, the region at probe widths beside every face, '
            'disregistry for arbitrary planepos); the clauses (also overlap-freeness and disregistry) are evaluated on the real results by an '
            'independent oracle. SOURCE TIE: translate() regenerates lean/Atomman/Generated/DislocationSource.lean from the '
            'current source with ast (set_shift decision tree, multiplier checks and arithmetic, (lo, hi) pairs, shift / centre / '
            'width / shape handling, boundary guard, plane selection and shift of the regions, Plane.below / PlaneSet.inside / '
            'Shape.outside / Cylinder.inside, cylinder rows / radius / line / intersection helpers, tilt, strip, duplicate test, '
            'expected count, surface layers, linear field; normalised statement pins for the rest) and Proofs/C13_Source.lean '
            'proves each generated definition equal to the model (30 gen_ obligations). API LEVEL: callHead / monopoleCall / '
            'arrayCall model the whole argument handling and the calls end to end (refusals exactly, refusal order, state of '
            'the object after refused calls, monopoleCall_spec / arrayCall_spec); the two searches are proved optimal '
            '(largest cosine, first of equals).',
    'note': 'Trusted: Lean kernel + propext/Classical.choice/Quot.sound; the correspondence harness; the elastic solver as '
            'the supplier of u; the C04/C05 models of supersize/wrap. Partial: deletion count (guard of the code, edge '
            'formula for orthogonal boxes), overlap-freeness and the elastic disregistry (oracle only, stated tail bound). '
            'Four genuine defects were found and fixed in /repo (orientation sign for negative xi axes, missing alignment '
            'refusal, face atoms scattered by rounding in periodic arrays, tuple sizemults / mutated caller list).',
    'technique': 'Lean 4 theorems over a hand-written model + ast translator with gen_..._eq_model obligations and statement '
                 'pins + differential correspondence + clause oracle on the real code',
}
