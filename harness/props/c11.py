"""C11 — elastic constants: one tensor behind every representation; rotation is a tensor rotation.

Translator part: everything that is a table or straight-line arithmetic in
`atomman/core/ElasticConstants.py` is regenerated as Lean on every run:

* Generated/VoigtTables.lean — the literal index tables of the `Cij9`/`Cijkl`/`Sijkl` getters, the unrolled
  assertion lists and literal tables (with their `2.`/`4.` weights) of the `Cij`/`Cij9`/`Cijkl`/`Sijkl` setters,
  the `/2.` slice scalings of the `Sijkl` getter, the two `einsum`s of `transform` (as Lean sums over `Fin 3`)
  and the tolerances that occur as literals / defaults.
* Generated/CrystalCij.lean — for every admissible keyword set, the result of *symbolically executing*
  `__init__` and the crystal-system method it dispatches to (`kwargs.pop`, `if 'C11' in kwargs and ...`,
  derived constants, `np.isclose` assertions, the final 6x6 literal); `normalized_as` for the seven targets and
  the Voigt/Reuss/Hill estimates.
* Generated/IsoPairs.lean — the same symbolic execution for the fifteen isotropic modulus pairs (square roots
  become parameters `root0`, their radicands separate definitions).
"""
from __future__ import annotations

import ast
import itertools
import math
import random
from fractions import Fraction

from .. import common as cm
from ..translate import TranslationError, ExprTranslator, lit, strip_doc

PROP = 'C11'
GENERATED = ['VoigtTables', 'CrystalCij', 'IsoPairs', 'AxesCheck', 'InitRoute']
SRC = 'atomman/core/ElasticConstants.py'
AXES_SRC = 'atomman/tools/axes_check.py'

THEOREMS = [
    'C11.cijkl_table_is_voigt', 'C11.cij9_table_is_voigt', 'C11.minor_symm', 'C11.major_symm',
    'C11.cijkl_roundtrip', "C11.cijkl_roundtrip'", 'C11.cij9_roundtrip', 'C11.sijkl_weights',
    'C11.sijkl_roundtrip', "C11.sijkl_roundtrip'", 'C11.hooke_voigt', 'C11.hooke_inverse_voigt',
    'C11.stiffness_compliance_identity', 'C11.transform_is_tensor_rotation', 'C11.transform_id',
    'C11.transform_comp', 'C11.transform_inv', 'C11.transform_symm', 'C11.energy_invariant',
    'C11.voigt_moduli_invariant', 'C11.reuss_moduli_invariant', 'C11.hill_moduli_invariant',
    'C11.compliance_transforms_as_tensor', 'C11.cij_setter_symm', 'C11.setter_roundtrips',
    'C11.cijkl_setter_complete', 'C11.transform_preserves_symmetry', 'C11.transform_is_rot',
    'C11.system_invariant_isotropic', 'C11.system_invariant_cubic', 'C11.system_invariant_hexagonal',
    'C11.system_invariant_tetragonal', 'C11.system_invariant_rhombohedral', 'C11.three_fold_proper',
    'C11.system_invariant_orthorhombic', 'C11.system_invariant_monoclinic', 'C11.templates_symmetric',
    'C11.named_constants_placed', 'C11.generators_proper', 'C11.invariance_group',
    'C11.hexagonal_inputs_agree', 'C11.rhombohedral_inputs_agree', 'C11.iso_range', 'C11.iso_pair_C11_C12',
    'C11.iso_pair_C11_C44', 'C11.iso_pair_C11_K', 'C11.iso_pair_C12_C44', 'C11.iso_pair_C12_K',
    'C11.iso_pair_C44_K', 'C11.iso_pair_C11_nu', 'C11.iso_pair_C44_nu', 'C11.iso_pair_E_nu',
    'C11.iso_pair_nu_K', 'C11.iso_pair_C44_E', 'C11.iso_pair_E_K', 'C11.iso_pair_C12_nu', 'C11.iso_pair_C11_E',
    'C11.iso_pair_C12_E', 'C11.iso_alias', 'C11.normalized_idem_triclinic', 'C11.normalized_idem_cubic',
    'C11.normalized_idem_hexagonal', 'C11.normalized_idem_tetragonal', 'C11.normalized_idem_rhombohedral',
    'C11.normalized_idem_orthorhombic', 'C11.normalized_idem_isotropic', 'C11.is_normal_of_normalized',
    'C11.normalized_idem_monoclinic', 'C11.sijkl_setter_roundtrip', 'C11.object_step', 'C11.object_reads_pure',
    'C11.object_read_order', 'C11.object_set_overwrites', 'C11.object_refused_set', 'C11.transform_linear',
    'C11.transform_unit_independent', 'C11.setCij_idem', 'C11.setCij_smul', 'C11.setCijkl_of_symm',
    'C11.transform_homogeneous', 'C11.normalized_setter_idem_triclinic', 'C11.normalized_setter_idem_cubic',
    'C11.normalized_setter_idem_tetragonal', 'C11.normalized_setter_idem_orthorhombic',
    'C11.normalized_setter_idem_monoclinic', 'C11.is_normal_of_fixed', 'C11.is_normal_of_normalized_setter',
    # round 5: axes_check regenerated from the source; axes are directions
    'C11.gen_axesCheckU_eq_model', 'C11.gen_axesCheck_eq_model', 'C11.axesCheckT_congr', 'C11.axesCheck_scale_invariant',
    'C11.transform_axes_scale_invariant', 'C11.unitRows_orthogonal', 'C11.axesCheck_normalises',
    'C11.transform_rotates_by_unit_axes', 'C11.axesCheck_refuses_left_handed',
    # __init__ routing over the regenerated if / elif chain
    'C11.init_empty', 'C11.init_matrix_alone', 'C11.init_routes_agree', 'C11.init_matrix_mixed_refused',
    'C11.init_named_route', 'C11.init_type_error_iff',
    # compliance path in closed form (no assumption about the inverse) for the cubic system
    'C11.cubic_mul_cubicS', 'C11.cubicS_mul_cubic', 'C11.cubic_compliance_unique', 'C11.cubic_moduli',
    'C11.hex_mul_hexS', 'C11.hexS_mul_hex', 'C11.hex_compliance_unique', 'C11.hex_bulk',
    'C11.cubic_bulk_every_style', 'C11.cubic_shear_every_style',
]
PARTIAL = {
    'transform_with_cleanups': 'transform_id/comp/inv, energy and moduli invariance and system_invariant_* are proved for '
    'the exact tensor rotation `rot` (= the generated einsums); `transform_is_rot` / `transform_rotates_by_unit_axes` (axis '
    'vectors of any length: rot by their unit vectors) state transform = axes_check, rot, '
    'relative clean-up (|C/Cmax| < tol), Cijkl setter. With the 1e-8/1e-9 clean-ups the group laws hold on the '
    'implementation only up to those thresholds: checked by the tie and the oracle (atol 2.5e-8*max), not a theorem',
    'normalized_with_setter_cleanup': 'through the Cij setter (zeroing of entries <= 1e-9*max included) normalisation is '
    'proved idempotent for triclinic, monoclinic, orthorhombic, tetragonal and cubic (normalized_setter_idem_*: every '
    'template entry is +- one constant, so equal entries are zeroed together).  For hexagonal / rhombohedral '
    '(C66 = (C11-C12)/2 is an entry of its own) and isotropic (C12 = K - 2mu/3) one entry can fall below the threshold '
    'while the constants it derives from do not; the second normalisation then moves constants by at most that '
    'threshold: normalized_idem_{hexagonal,rhombohedral,isotropic} and is_normal_of_normalized are about the generated '
    'formulas before the zeroing, the oracle allows 2e-9*max',
    'unit_independence_of_setters': 'transform_homogeneous: on exactly symmetric tensors the whole of transform (axes_check, '
    'rotation, relative clean-up, Cijkl and Cij setters) commutes with a positive rescaling, refusals included.  On the '
    'implementation the rotated tensor is symmetric only to rounding and the Cijkl / Cij setters compare with ABSOLUTE '
    'atol (numpy default 1e-8 / 1e-9), so what they would refuse is not scale free: the float behaviour at '
    '2^-480..2^480 is checked by the scale sweeps of tie and oracle',
    'compliance_closed_forms': 'the 6x6 inverse is written out and proved two-sided (hence unique) for the isotropic, cubic '
    'and five-constant hexagonal templates (isoS, cubicS, hexS); for rhombohedral, tetragonal, orthorhombic, monoclinic, '
    'triclinic and general tensors it stays a parameter with the hypothesis C*S = 1 and S*C = 1',
    'object_model': 'object_* theorems are about the Lean object model (state = one matrix; reads are functions of it); '
    'that the class has no other state (caches, aliased arrays) is what the `seq` correspondence and the read-order / '
    'set-sequence oracle check on every run, not a theorem about the Python object',
    'redundant_C66_within_isclose': 'a redundant C66 that differs from (C11-C12)/2 within np.isclose is accepted by the '
    'code and stored as given; rhombohedral_inputs_agree / system_invariant_rhombohedral assume exact equality',
}

# ----------------------------------------------------------------------------------------
# translator — helpers on the class AST
# ----------------------------------------------------------------------------------------


def _class_methods(src):
    tree = ast.parse(src)
    cls = [n for n in tree.body if isinstance(n, ast.ClassDef) and n.name == 'ElasticConstants']
    if len(cls) != 1:
        raise TranslationError('class ElasticConstants not found exactly once')
    meth = {}
    for n in cls[0].body:
        if not isinstance(n, ast.FunctionDef):
            continue
        decos = [ast.unparse(d) for d in n.decorator_list]
        if decos == ['property']:
            key = (n.name, 'get')
        elif len(decos) == 1 and decos[0].endswith('.setter'):
            key = (n.name, 'set')
        elif not decos:
            key = (n.name, 'def')
        else:
            raise TranslationError(f'unexpected decorators on {n.name}: {decos}')
        if key in meth:
            raise TranslationError(f'{key} defined twice')
        meth[key] = n
    return meth


def _int(node, env=None):
    """integer-valued index expression (constants, loop variables, + and -)."""
    env = env or {}
    if isinstance(node, ast.Constant) and isinstance(node.value, int) and not isinstance(node.value, bool):
        return node.value
    if isinstance(node, ast.Name) and node.id in env and isinstance(env[node.id], int):
        return env[node.id]
    if isinstance(node, ast.BinOp) and isinstance(node.op, (ast.Add, ast.Sub)):
        a, b = _int(node.left, env), _int(node.right, env)
        return a + b if isinstance(node.op, ast.Add) else a - b
    if isinstance(node, ast.UnaryOp) and isinstance(node.op, ast.USub):
        return -_int(node.operand, env)
    raise TranslationError(f'not an integer index: {ast.unparse(node)}')


def _sub_index(node, arr, rank, env=None, dim=None):
    """`arr[i, j, ...]` with integer-evaluable indices -> tuple of ints (non-negative, < dim)."""
    if not (isinstance(node, ast.Subscript) and isinstance(node.value, ast.Name) and node.value.id == arr):
        raise TranslationError(f'expected {arr}[...] got {ast.unparse(node)}')
    sl = node.slice
    elts = sl.elts if isinstance(sl, ast.Tuple) else [sl]
    if len(elts) != rank:
        raise TranslationError(f'{ast.unparse(node)}: expected {rank} indices')
    idx = tuple(_int(e, env) for e in elts)
    if any(i < 0 for i in idx) or (dim is not None and any(i >= dim for i in idx)):
        raise TranslationError(f'{ast.unparse(node)}: index out of range')
    return idx


def _nested(node):
    """nested ast.List -> (shape, flat leaves)"""
    if isinstance(node, ast.List):
        subs = [_nested(e) for e in node.elts]
        shapes = {s for s, _ in subs}
        if len(shapes) != 1:
            raise TranslationError('ragged array literal')
        sh = shapes.pop()
        return (len(subs),) + sh, [x for _, l in subs for x in l]
    return (), [node]


def _np_array_literal(node, shape):
    if not (isinstance(node, ast.Call) and ast.unparse(node.func) == 'np.array' and len(node.args) == 1
            and isinstance(node.args[0], ast.List)):
        raise TranslationError(f'not an np.array literal: {ast.unparse(node)[:60]}')
    for k in node.keywords:
        if k.arg != 'dtype':
            raise TranslationError('unexpected keyword in np.array literal')
    sh, leaves = _nested(node.args[0])
    if sh != tuple(shape):
        raise TranslationError(f'array literal has shape {sh}, expected {shape}')
    return leaves


def _num(node):
    if isinstance(node, ast.Constant) and isinstance(node.value, (int, float)) and not isinstance(node.value, bool):
        return Fraction(node.value)
    if isinstance(node, ast.UnaryOp) and isinstance(node.op, ast.USub):
        return -_num(node.operand)
    raise TranslationError(f'not a numeric literal: {ast.unparse(node)}')


def _body(fn):
    return strip_doc(fn.body)


def _expect(st, text, what):
    if ast.unparse(st) != text:
        raise TranslationError(f'{what}: expected `{text}`, found `{ast.unparse(st)[:80]}`')


# ---- getters ---------------------------------------------------------------------------

def _getter_table(fn, srcattr, var, shape):
    """`var = self.<srcattr>` [slice scalings] `return np.array([...var[a,b]...])` -> (scalings, [(a,b)])."""
    body = _body(fn)
    if len(body) < 2:
        raise TranslationError(f'{fn.name} getter: too short')
    st0 = body[0]
    if not (isinstance(st0, ast.Assign) and len(st0.targets) == 1 and isinstance(st0.targets[0], ast.Name)
            and ast.unparse(st0.value) == f'self.{srcattr}'):
        raise TranslationError(f'{fn.name} getter: expected `<name> = self.{srcattr}`, found `{ast.unparse(st0)[:60]}`')
    var = st0.targets[0].id          # the local name is free
    scal = []
    for st in body[1:-1]:
        scal.append(_slice_scale(st, var))
    ret = body[-1]
    if not isinstance(ret, ast.Return):
        raise TranslationError(f'{fn.name} getter: no return')
    leaves = _np_array_literal(ret.value, shape)
    return scal, [_sub_index(l, var, 2, dim=6) for l in leaves]


def _slice_bounds(node, n=6):
    if not isinstance(node, ast.Slice) or node.step is not None:
        raise TranslationError('unsupported slice')
    lo = 0 if node.lower is None else _int(node.lower)
    hi = n if node.upper is None else _int(node.upper)
    if not (0 <= lo <= hi <= n):
        raise TranslationError('slice bounds')
    return lo, hi


def _slice_scale(st, var):
    """`s[a:b, c:d] = s[a:b, c:d] / lit` (or `* lit`) -> (rlo, rhi, clo, chi, num, den)"""
    if not (isinstance(st, ast.Assign) and len(st.targets) == 1 and isinstance(st.targets[0], ast.Subscript)
            and isinstance(st.value, ast.BinOp) and isinstance(st.value.op, (ast.Div, ast.Mult))):
        raise TranslationError(f'unsupported statement in getter: {ast.unparse(st)[:80]}')
    tgt = st.targets[0]
    if ast.unparse(tgt) != ast.unparse(st.value.left) or ast.unparse(tgt.value) != var:
        raise TranslationError(f'slice scaling is not in place: {ast.unparse(st)}')
    sl = tgt.slice
    if not (isinstance(sl, ast.Tuple) and len(sl.elts) == 2):
        raise TranslationError('slice scaling: expected two slices')
    r, c = _slice_bounds(sl.elts[0]), _slice_bounds(sl.elts[1])
    f = _num(st.value.right)
    if f == 0:
        raise TranslationError('slice scaled by zero')
    if isinstance(st.value.op, ast.Div):
        f = 1 / f
    if f <= 0:
        raise TranslationError('negative slice scale')
    return (r[0], r[1], c[0], c[1], f.numerator, f.denominator)


# ---- setters: unrolled assertion lists -------------------------------------------------

def _range(node, env):
    if not (isinstance(node, ast.Call) and isinstance(node.func, ast.Name) and node.func.id == 'range'
            and 1 <= len(node.args) <= 2 and not node.keywords):
        raise TranslationError(f'loop is not over range(): {ast.unparse(node)}')
    a = [_int(x, env) for x in node.args]
    return range(*a)


def _unroll(stmts, env, arr, rank, tables, out, dim):
    """integer loops with assertions `np.isclose(arr[..], arr[..][, atol=lit])` / `arr[..] == arr[..]`."""
    for st in stmts:
        if isinstance(st, ast.For) and isinstance(st.target, ast.Name) and not st.orelse:
            for v in _range(st.iter, env):
                _unroll(st.body, {**env, st.target.id: v}, arr, rank, tables, out, dim)
        elif isinstance(st, ast.Assign) and len(st.targets) == 1 and isinstance(st.targets[0], ast.Tuple) \
                and isinstance(st.value, ast.Tuple) and len(st.targets[0].elts) == len(st.value.elts):
            new = dict(env)
            for t, v in zip(st.targets[0].elts, st.value.elts):
                if not isinstance(t, ast.Name):
                    raise TranslationError('tuple assignment target')
                if not (isinstance(v, ast.Subscript) and isinstance(v.value, ast.Name) and v.value.id in tables):
                    raise TranslationError(f'unsupported index source {ast.unparse(v)}')
                tab = tables[v.value.id]
                ij = v.slice.elts if isinstance(v.slice, ast.Tuple) else [v.slice]
                r, c = (_int(e, env) for e in ij)
                if not (0 <= r < len(tab) and 0 <= c < len(tab[r])):
                    raise TranslationError('index table lookup out of range')
                new[t.id] = tab[r][c]
            env = new
        elif isinstance(st, ast.Assert):
            t = st.test
            if isinstance(t, ast.Call) and ast.unparse(t.func) == 'np.isclose' and len(t.args) == 2:
                atol = None
                for k in t.keywords:
                    if k.arg != 'atol':
                        raise TranslationError(f'unsupported isclose keyword {k.arg}')
                    if isinstance(k.value, ast.Name) and isinstance(env.get(k.value.id), tuple):
                        atol = env[k.value.id]          # ('rel', lit): lit * max(1.0, abs(arr).max())
                    else:
                        atol = _num(k.value)
                out.append((_sub_index(t.args[0], arr, rank, env, dim), _sub_index(t.args[1], arr, rank, env, dim),
                            'close', atol))
            elif isinstance(t, ast.Compare) and len(t.ops) == 1 and isinstance(t.ops[0], ast.Eq):
                out.append((_sub_index(t.left, arr, rank, env, dim),
                            _sub_index(t.comparators[0], arr, rank, env, dim), 'eq', None))
            else:
                raise TranslationError(f'unsupported assertion {ast.unparse(st)[:80]}')
        else:
            raise TranslationError(f'unsupported statement in check loop: {ast.unparse(st)[:80]}')


def _index_table(st):
    """`indexes = np.array([[0,0],...], dtype=int)`"""
    if not (isinstance(st, ast.Assign) and len(st.targets) == 1 and isinstance(st.targets[0], ast.Name)):
        raise TranslationError('index table assignment expected')
    v = st.value
    if not (isinstance(v, ast.Call) and ast.unparse(v.func) == 'np.array' and isinstance(v.args[0], ast.List)):
        raise TranslationError('index table is not an np.array literal')
    sh, leaves = _nested(v.args[0])
    if len(sh) != 2:
        raise TranslationError('index table rank')
    vals = [_int(l) for l in leaves]
    return st.targets[0].id, [vals[r * sh[1]:(r + 1) * sh[1]] for r in range(sh[0])]


def _weighted_leaf(node, arr, rank, dim):
    """`arr[...]` or `lit * arr[...]` -> (Fraction weight, index)"""
    if isinstance(node, ast.BinOp) and isinstance(node.op, ast.Mult):
        try:
            w = _num(node.left)
            return w, _sub_index(node.right, arr, rank, dim=dim)
        except TranslationError:
            w = _num(node.right)
            return w, _sub_index(node.left, arr, rank, dim=dim)
    return Fraction(1), _sub_index(node, arr, rank, dim=dim)


def _setter4(fn, var, target):
    """Cijkl / Sijkl setter -> dict(max_assert, checks, table[(w, (i,j,k,l))])"""
    body = _body(fn)
    if isinstance(body[0], ast.Assign) and len(body[0].targets) == 1 and isinstance(body[0].targets[0], ast.Name):
        var = body[0].targets[0].id      # the name of the local is free
    _expect(body[0], f"{var} = np.asarray(value, dtype='float64')", fn.name + ' setter')
    if not (isinstance(body[1], ast.Assert) and ast.unparse(body[1].test) == f'{var}.shape == (3, 3, 3, 3)'):
        raise TranslationError(fn.name + ' setter: shape assertion missing')
    rest = body[2:]
    max_assert = False
    if rest and isinstance(rest[0], ast.Assert) and ast.unparse(rest[0].test) == f'{var}.max() > 0.0':
        max_assert = True
        rest = rest[1:]
    env0 = {}
    st = rest[0]
    if isinstance(st, ast.Assign) and len(st.targets) == 1 and isinstance(st.targets[0], ast.Name) \
            and isinstance(st.value, ast.BinOp) and isinstance(st.value.op, ast.Mult):
        # `<name> = lit * max(1.0, np.abs(var).max())`: absolute tolerance that scales with the array's magnitude
        if ast.unparse(st.value.right) != f'max(1.0, np.abs({var}).max())':
            raise TranslationError(f'{fn.name} setter: tolerance statement not recognised: {ast.unparse(st)[:80]}')
        f = _num(st.value.left)
        if f < 0:
            raise TranslationError('negative tolerance')
        env0[st.targets[0].id] = ('rel', f)
        rest = rest[1:]
    name, tab = _index_table(rest[0])
    checks = []
    _unroll(rest[1:-1], env0, var, 4, {name: tab}, checks, 3)
    last = rest[-1]
    if not (isinstance(last, ast.Assign) and ast.unparse(last.targets[0]) == f'self.{target}'):
        raise TranslationError(f'{fn.name} setter does not end in self.{target} = ...')
    leaves = _np_array_literal(last.value, (6, 6))
    table = [_weighted_leaf(l, var, 4, 3) for l in leaves]
    return {'max_assert': max_assert, 'checks': checks, 'table': table}


def _setter_cij(fn):
    body = _body(fn)
    # np.array (copy: the object owns its matrix) or np.asarray (the caller's float64 array becomes the state): the
    # model is the same function of the values; the difference is observed by the oracle's aliasing clause
    if ast.unparse(body[0]) != "value = np.array(value, dtype='float64')":
        _expect(body[0], "value = np.asarray(value, dtype='float64')", 'Cij setter')
    if not (isinstance(body[1], ast.Assert) and ast.unparse(body[1].test) == 'value.shape == (6, 6)'):
        raise TranslationError('Cij setter: shape assertion missing')
    if not (isinstance(body[2], ast.Assert) and ast.unparse(body[2].test) == 'value.max() > 0.0'):
        raise TranslationError('Cij setter: `assert value.max() > 0.0` missing')
    st = body[3]
    ok = (isinstance(st, ast.Assign) and isinstance(st.targets[0], ast.Subscript)
          and ast.unparse(st.targets[0].value) == 'value' and _num(st.value) == 0)
    if ok:
        c = st.targets[0].slice
        ok = (isinstance(c, ast.Call) and ast.unparse(c.func) == 'np.isclose' and len(c.args) == 2
              and ast.unparse(c.args[0]) == 'value / value.max()' and _num(c.args[1]) == 0
              and [k.arg for k in c.keywords] == ['atol'])
    if not ok:
        raise TranslationError('Cij setter: zeroing statement not recognised: ' + ast.unparse(st)[:80])
    zero_atol = _num(c.keywords[0].value)
    checks = []
    _unroll(body[4:-1], {}, 'value', 2, {}, checks, 6)
    _expect(body[-1], 'self.__c_ij = value', 'Cij setter')
    return {'zero_atol': zero_atol, 'checks': checks}


def _setter_cij9(fn):
    body = _body(fn)
    _expect(body[0], "value = np.asarray(value, dtype='float64')", 'Cij9 setter')
    if not (isinstance(body[1], ast.Assert) and ast.unparse(body[1].test) == 'value.shape == (9, 9)'):
        raise TranslationError('Cij9 setter: shape assertion missing')
    checks = []
    _unroll(body[2:-1], {}, 'value', 2, {}, checks, 9)
    last = body[-1]
    if not (isinstance(last, ast.Assign) and ast.unparse(last.targets[0]) == 'self.Cij'
            and isinstance(last.value, ast.Subscript) and ast.unparse(last.value.value) == 'value'
            and isinstance(last.value.slice, ast.Tuple) and len(last.value.slice.elts) == 2):
        raise TranslationError('Cij9 setter: final assignment not recognised')
    r, c = (_slice_bounds(e, 9) for e in last.value.slice.elts)
    if r[0] != 0 or c[0] != 0:
        raise TranslationError('Cij9 setter: slice does not start at 0')
    return {'checks': checks, 'slice': (r[1], c[1])}


# ---- einsum ----------------------------------------------------------------------------

def _einsum(call, opnames):
    """np.einsum('ab,cd->..', X, Y) -> (output letters, summed letters, [(operand, letters)])"""
    if not (isinstance(call, ast.Call) and ast.unparse(call.func) == 'np.einsum' and call.args
            and isinstance(call.args[0], ast.Constant) and isinstance(call.args[0].value, str)
            and not call.keywords):
        raise TranslationError('einsum call expected')
    spec = call.args[0].value.replace(' ', '')
    if '->' not in spec:
        raise TranslationError('einsum without explicit output')
    ins, out = spec.split('->')
    ins = ins.split(',')
    ops = [ast.unparse(a) for a in call.args[1:]]
    if len(ins) != len(ops):
        raise TranslationError('einsum arity')
    for o in ops:
        if o not in opnames:
            raise TranslationError(f'einsum operand {o} not recognised')
    letters = []
    for s in ins:
        for ch in s:
            if not ch.isalpha():
                raise TranslationError('einsum subscripts')
            if ch not in letters:
                letters.append(ch)
    if len(set(out)) != len(out) or any(ch not in letters for ch in out):
        raise TranslationError('einsum output subscripts')
    if any(len(set(s)) != len(s) for s in ins):
        raise TranslationError('einsum repeated index inside one operand not supported')
    summed = [ch for ch in letters if ch not in out]
    return out, summed, list(zip([opnames[o] for o in ops], ins))


def _einsum_lean(out, summed, factors):
    body = ' * '.join(f'{nm} ' + ' '.join(idx) for nm, idx in factors)
    for ch in reversed(summed):
        body = f'sum3 fun {ch} => {body}'
    return f'fun {" ".join(out)} => {body}'


def _transform(fn):
    """`transform(self, axes, tol=lit)`: a straight-line data flow
         axes --np.asarray(.., dtype='float64')--> array --axes_check--> T --einsum--> Q
         (Q, self.Cijkl, Q) --einsum--> C ;  C[abs(C / C.max()) < tol] = 0.0 ;  return ElasticConstants(Cijkl=C)
    The *names* of the temporaries and the splitting into statements are free (a small abstract interpreter tags
    every local with the stage it holds); any other statement — in particular a conditional / early return, a
    second use of `tol`, another clean-up — is refused, because it changes what is computed."""
    args = [a.arg for a in fn.args.args]
    if len(args) != 3 or args[0] != 'self' or len(fn.args.defaults) != 1 or fn.args.vararg or fn.args.kwarg \
            or fn.args.kwonlyargs:
        raise TranslationError(f'transform: unexpected signature {args}')
    p_axes, p_tol = args[1], args[2]
    tol = _num(fn.args.defaults[0])
    env = {p_axes: ('raw',), p_tol: ('tol',)}
    found = {}

    def ev(node):
        if isinstance(node, ast.Name):
            if node.id not in env:
                raise TranslationError(f'transform: unknown name {node.id}')
            return env[node.id]
        u = ast.unparse(node)
        if u == 'self.Cijkl':
            return ('C4',)
        if isinstance(node, ast.Call):
            f = ast.unparse(node.func)
            if f == 'np.asarray' and len(node.args) == 1 and [k.arg for k in node.keywords] == ['dtype'] \
                    and ast.unparse(node.keywords[0].value) in ("'float64'", 'float', 'np.float64'):
                if ev(node.args[0])[0] not in ('raw', 'arr'):
                    raise TranslationError('transform: np.asarray of something that is not the axes argument')
                return ('arr',)
            if f == 'axes_check' and len(node.args) == 1 and not node.keywords:
                if ev(node.args[0])[0] != 'arr':
                    raise TranslationError('transform: axes_check is not applied to the float64 axes array')
                return ('T',)
            if f == 'np.einsum':
                names = {}
                for a in node.args[1:]:
                    tag = ev(a)[0]
                    if tag not in ('T', 'Q', 'C4'):
                        raise TranslationError(f'transform: einsum operand {ast.unparse(a)} not recognised')
                    names[ast.unparse(a)] = {'T': 'T', 'Q': 'Q', 'C4': 'C'}[tag]
                spec = _einsum(node, names)
                kinds = sorted(nm for nm, _ in spec[2])
                if kinds == ['T', 'T']:
                    if 'q' in found:
                        raise TranslationError('transform: Q computed twice')
                    found['q'] = spec
                    return ('Q',)
                if kinds == ['C', 'Q', 'Q']:
                    if 'c' in found:
                        raise TranslationError('transform: C computed twice')
                    found['c'] = spec
                    return ('Crot', False)
                raise TranslationError(f'transform: unexpected einsum operands {kinds}')
        raise TranslationError(f'transform: unsupported expression `{u[:70]}`')

    body = _body(fn)
    done = False
    for st in body:
        if done:
            raise TranslationError('transform: statements after return')
        if isinstance(st, ast.Assign) and len(st.targets) == 1 and isinstance(st.targets[0], ast.Name):
            env[st.targets[0].id] = ev(st.value)
            continue
        if isinstance(st, ast.Assign) and len(st.targets) == 1 and isinstance(st.targets[0], ast.Subscript) \
                and isinstance(st.targets[0].value, ast.Name):
            nm = st.targets[0].value.id
            if env.get(nm) != ('Crot', False):
                raise TranslationError(f'transform: clean-up of `{nm}` which is not the (uncleaned) rotated tensor')
            want = f'{nm}[abs({nm} / {nm}.max()) < {p_tol}] = 0.0'
            if ast.unparse(st) != want:
                raise TranslationError(f'transform: expected `{want}`, found `{ast.unparse(st)[:80]}`')
            env[nm] = ('Crot', True)
            for k, v in list(env.items()):      # aliases of the same array are cleaned too
                if v == ('Crot', False) and k != nm:
                    raise TranslationError('transform: aliased rotated tensor')
            continue
        if isinstance(st, ast.Return):
            v = st.value
            if not (isinstance(v, ast.Call) and ast.unparse(v.func) == 'ElasticConstants' and not v.args
                    and len(v.keywords) == 1 and v.keywords[0].arg == 'Cijkl'
                    and isinstance(v.keywords[0].value, ast.Name) and env.get(v.keywords[0].value.id) == ('Crot', True)):
                raise TranslationError(f'transform: unexpected return `{ast.unparse(st)[:80]}`')
            done = True
            continue
        raise TranslationError(f'transform: unsupported statement `{ast.unparse(st)[:80]}`')
    if not done or 'q' not in found or 'c' not in found:
        raise TranslationError('transform: no `return ElasticConstants(Cijkl=<cleaned rotated tensor>)`')
    q, c = found['q'], found['c']
    if len(q[0]) != 4 or len(c[0]) != 4 or any(len(ix) != 2 for _, ix in q[2]) or any(len(ix) != 4 for _, ix in c[2]):
        raise TranslationError('transform: einsum ranks')
    return tol, q, c


def _default_of(src, fname, arg):
    tree = ast.parse(src)
    fns = [n for n in ast.walk(tree) if isinstance(n, ast.FunctionDef) and n.name == fname]
    if len(fns) != 1:
        raise TranslationError(f'{fname} not found')
    a = fns[0].args
    names = [x.arg for x in a.args]
    if arg not in names:
        raise TranslationError(f'{fname} has no argument {arg}')
    k = names.index(arg) - (len(names) - len(a.defaults))
    if k < 0:
        raise TranslationError(f'{fname}.{arg} has no default')
    return _num(a.defaults[k])


# ---- tools/axes_check.py: the whole function as generated Lean ---------------------------------------------

def _axes_check_gen(axes_src):
    """`axes_check(axes, tol=lit)` read statement by statement with a small symbolic evaluator on 3x3 arrays whose
    entries are Lean terms in `axes i j`, `norms i` (= `np.linalg.norm(axes, axis=1)[i]`, the one external numeric
    routine) and `tol`:
        np.asarray(x)                      -> x                (int -> float is the identity on the model's scalars)
        x.T, x / y (numpy broadcasting), np.dot, np.cross, x[i], np.identity(3) / np.eye(3)
        assert x.shape == (3, 3)
        if not np.allclose(X, Y, atol=tol): raise E(...)      -> one test (E, atol is tol?, entry pairs of X, Y)
        return x
    Anything else — a conditional around the normalisation, a second return, a norm of something that is not the rows
    of the argument, module-level state — is refused.  Emits Generated/AxesCheck.lean:
    `axesCheckU` (row-major entries of the returned array), `axesCheckTests` (the tests in program order)."""
    tree = ast.parse(axes_src)
    fn = None
    for n in tree.body:
        if isinstance(n, (ast.Import, ast.ImportFrom)):
            continue
        if isinstance(n, ast.Expr) and isinstance(n.value, ast.Constant) and isinstance(n.value.value, str):
            continue
        if isinstance(n, ast.FunctionDef) and n.name == 'axes_check' and fn is None and not n.decorator_list:
            fn = n
            continue
        raise TranslationError(f'axes_check.py: unexpected module-level statement `{ast.unparse(n)[:60]}`')
    if fn is None:
        raise TranslationError('axes_check not found')
    a = fn.args
    if [x.arg for x in a.args] != ['axes', 'tol'] or len(a.defaults) != 1 or a.vararg or a.kwarg or a.kwonlyargs \
            or a.posonlyargs:
        raise TranslationError('axes_check: unexpected signature')
    tol_default = _num(a.defaults[0])
    RAW = [[f'axes {i} {j}' for j in range(3)] for i in range(3)]
    env = {'axes': ('mat', RAW), 'tol': ('tol',)}

    def par(s):
        return s if ' ' not in s else f'({s})'

    def tr(m):
        return [[m[j][i] for j in range(3)] for i in range(3)]

    def ev(node):
        if isinstance(node, ast.Name):
            if node.id not in env:
                raise TranslationError(f'axes_check: unknown name {node.id}')
            return env[node.id]
        if isinstance(node, ast.Attribute) and node.attr == 'T':
            v = ev(node.value)
            if v[0] != 'mat':
                raise TranslationError('axes_check: .T of a non-matrix')
            return ('mat', tr(v[1]))
        if isinstance(node, ast.Subscript):
            v = ev(node.value)
            k = _int(node.slice)
            if v[0] != 'mat' or not 0 <= k < 3:
                raise TranslationError(f'axes_check: unsupported subscript `{ast.unparse(node)}`')
            return ('vec', list(v[1][k]))
        if isinstance(node, ast.BinOp) and isinstance(node.op, (ast.Div, ast.Mult, ast.Sub, ast.Add)):
            op = {ast.Div: '/', ast.Mult: '*', ast.Sub: '-', ast.Add: '+'}[type(node.op)]
            x, y = ev(node.left), ev(node.right)

            def f(p, q):
                return f'{par(p)} {op} {par(q)}'
            if x[0] == 'mat' and y[0] == 'vec':      # broadcasting along the last axis
                return ('mat', [[f(x[1][i][j], y[1][j]) for j in range(3)] for i in range(3)])
            if x[0] == 'mat' and y[0] == 'mat':
                return ('mat', [[f(x[1][i][j], y[1][i][j]) for j in range(3)] for i in range(3)])
            if x[0] == 'vec' and y[0] == 'vec':
                return ('vec', [f(x[1][i], y[1][i]) for i in range(3)])
            raise TranslationError(f'axes_check: unsupported operands in `{ast.unparse(node)[:60]}`')
        if isinstance(node, ast.Call):
            fname = ast.unparse(node.func)
            kw = {k.arg: k.value for k in node.keywords}
            if fname == 'np.asarray' and len(node.args) == 1 and (not kw or (list(kw) == ['dtype'] and ast.unparse(
                    kw['dtype']) in ("'float64'", 'float', 'np.float64'))):
                v = ev(node.args[0])
                if v[0] != 'mat':
                    raise TranslationError('axes_check: np.asarray of a non-matrix')
                return v
            if fname == 'np.linalg.norm' and len(node.args) == 1 and list(kw) == ['axis']:
                v = ev(node.args[0])
                ax = _int(kw['axis'])
                if v[0] == 'mat' and ((v[1] == RAW and ax in (1, -1)) or (v[1] == tr(RAW) and ax == 0)):
                    return ('vec', [f'norms {i}' for i in range(3)])
                raise TranslationError('axes_check: np.linalg.norm is not taken over the rows of the axes argument')
            if fname == 'np.dot' and len(node.args) == 2 and not kw:
                x, y = ev(node.args[0]), ev(node.args[1])
                if x[0] == 'mat' and y[0] == 'mat':
                    return ('mat', [[' + '.join(f'{par(x[1][i][k])} * {par(y[1][k][j])}' for k in range(3))
                                     for j in range(3)] for i in range(3)])
                raise TranslationError('axes_check: np.dot of non-matrices')
            if fname in ('np.identity', 'np.eye') and len(node.args) == 1 and not kw and _int(node.args[0]) == 3:
                return ('mat', [['((1 : Nat) : K)' if i == j else '((0 : Nat) : K)' for j in range(3)] for i in range(3)])
            if fname == 'np.cross' and len(node.args) == 2 and not kw:
                x, y = ev(node.args[0]), ev(node.args[1])
                if x[0] == 'vec' and y[0] == 'vec':
                    p, q = x[1], y[1]
                    return ('vec', [f'{par(p[(i + 1) % 3])} * {par(q[(i + 2) % 3])} - {par(p[(i + 2) % 3])} * '
                                    f'{par(q[(i + 1) % 3])}' for i in range(3)])
                raise TranslationError('axes_check: np.cross of non-vectors')
        raise TranslationError(f'axes_check: unsupported expression `{ast.unparse(node)[:70]}`')

    tests, ret = [], None
    for st in _body(fn):
        if ret is not None:
            raise TranslationError('axes_check: statements after return')
        if isinstance(st, ast.Assign) and len(st.targets) == 1 and isinstance(st.targets[0], ast.Name):
            if st.targets[0].id == 'tol':
                raise TranslationError('axes_check: tol reassigned')
            env[st.targets[0].id] = ev(st.value)
            continue
        if isinstance(st, ast.Assert):
            t = st.test
            if isinstance(t, ast.Compare) and len(t.ops) == 1 and isinstance(t.ops[0], ast.Eq) \
                    and isinstance(t.left, ast.Attribute) and t.left.attr == 'shape' and ev(t.left.value)[0] == 'mat' \
                    and ast.unparse(t.comparators[0]) == '(3, 3)':
                continue
            raise TranslationError(f'axes_check: unexpected assertion `{ast.unparse(st)[:70]}`')
        if isinstance(st, ast.If) and not st.orelse and len(st.body) == 1 and isinstance(st.body[0], ast.Raise) \
                and isinstance(st.test, ast.UnaryOp) and isinstance(st.test.op, ast.Not) \
                and isinstance(st.test.operand, ast.Call) and ast.unparse(st.test.operand.func) == 'np.allclose':
            c = st.test.operand
            kw = {k.arg: k.value for k in c.keywords}
            if len(c.args) != 2 or set(kw) - {'atol'}:
                raise TranslationError(f'axes_check: unexpected allclose call `{ast.unparse(c)[:70]}`')
            if 'atol' in kw and not (isinstance(kw['atol'], ast.Name) and env.get(kw['atol'].id) == ('tol',)):
                raise TranslationError('axes_check: allclose atol is not the tol argument')
            x, y = ev(c.args[0]), ev(c.args[1])
            if x[0] != y[0] or x[0] not in ('mat', 'vec'):
                raise TranslationError('axes_check: allclose of different shapes')
            flat = (lambda v: [e for row in v[1] for e in row]) if x[0] == 'mat' else (lambda v: list(v[1]))
            exc = st.body[0].exc
            if not (isinstance(exc, ast.Call) and isinstance(exc.func, ast.Name)):
                raise TranslationError('axes_check: unexpected raise')
            tests.append((exc.func.id, 'atol' in kw, list(zip(flat(x), flat(y)))))
            continue
        if isinstance(st, ast.Return) and st.value is not None:
            ret = ev(st.value)
            if ret[0] != 'mat':
                raise TranslationError('axes_check: does not return a matrix')
            continue
        raise TranslationError(f'axes_check: unsupported statement `{ast.unparse(st)[:80]}`')
    if ret is None:
        raise TranslationError('axes_check: no return')
    SIG = '{K : Type} [Add K] [Sub K] [Mul K] [Div K] [NatCast K] (axes : Fin 3 → Fin 3 → K) (norms : Fin 3 → K)'
    P = ['/- GENERATED by harness/props/c11.py from atomman/tools/axes_check.py — do not edit. -/',
         'set_option linter.unusedVariables false', 'namespace Atomman.Gen', '',
         '/-- `axes_check`: row-major entries of the returned array; `norms i` stands for '
         '`np.linalg.norm(axes, axis=1)[i]`. -/',
         f'def axesCheckU {SIG} : List K :=\n  [' + ',\n   '.join(e for row in ret[1] for e in row) + ']', '',
         '/-- `axes_check`: the `if not np.allclose(X, Y, atol=tol): raise E` tests in program order: '
         '`(E, atol is the tol argument, entry pairs (x, y))`. -/',
         f'def axesCheckTests {SIG} :\n    List (String × Bool × List (K × K)) :=\n  ['
         + ',\n   '.join(f'("{e}", {"true" if t else "false"},\n    [' + ',\n     '.join(f'({x}, {y})' for x, y in prs) + '])'
                         for e, t, prs in tests) + ']', '',
         '/-- default `tol` of `axes_check`. -/', f'def axesCheckTol {KCLS} : K := {lit(tol_default)}', '',
         'end Atomman.Gen', '']
    return '\n'.join(P)


# ---- ElasticConstants.__init__: the if / elif chain as generated Lean ------------------------------------------

def _init_chain_gen(methods, infos):
    """`__init__(self, **kwargs)`: one if / elif chain; tests `len(kwargs) == n [or len(kwargs) == m]` and
    `'X' in kwargs`; bodies `self.__c_ij = np.zeros((6, 6), dtype='float64')`, `assert len(kwargs) == 1; self.X =
    kwargs['X']`, `self.m(**kwargs)`, `if 'K' in kwargs: self.a(**kwargs) else: self.b(**kwargs)`; final
    `else: raise E(...)`.  Emits Generated/InitRoute.lean: the chain in program order (`initChain`, `initElse`) and,
    from the symbolic execution of every keyword set (`infos`), the method each set ends up in (`ctorRoutes`)."""
    fn = methods.get(('__init__', 'def'))
    if fn is None:
        raise TranslationError('__init__ not found')
    a = fn.args
    if [x.arg for x in a.args] != ['self'] or a.vararg or a.kwonlyargs or a.defaults or a.kwarg is None:
        raise TranslationError('__init__: unexpected signature')
    kw = a.kwarg.arg
    body = _body(fn)
    if len(body) != 1 or not isinstance(body[0], ast.If):
        raise TranslationError('__init__: body is not one if / elif chain')

    def test(t):
        u = ast.unparse(t)
        if isinstance(t, ast.Compare) and len(t.ops) == 1 and isinstance(t.ops[0], ast.Eq) \
                and ast.unparse(t.left) == f'len({kw})':
            return f'.lenIn [{_int(t.comparators[0])}]', None
        if isinstance(t, ast.BoolOp) and isinstance(t.op, ast.Or):
            ns = []
            for v in t.values:
                if not (isinstance(v, ast.Compare) and len(v.ops) == 1 and isinstance(v.ops[0], ast.Eq)
                        and ast.unparse(v.left) == f'len({kw})'):
                    raise TranslationError(f'__init__: unsupported test `{u}`')
                ns.append(_int(v.comparators[0]))
            return '.lenIn [' + ', '.join(map(str, ns)) + ']', None
        if isinstance(t, ast.Compare) and len(t.ops) == 1 and isinstance(t.ops[0], ast.In) \
                and isinstance(t.left, ast.Constant) and isinstance(t.left.value, str) \
                and ast.unparse(t.comparators[0]) == kw:
            return f'.has "{t.left.value}"', t.left.value
        raise TranslationError(f'__init__: unsupported test `{u}`')

    def call(st):
        if isinstance(st, ast.Expr) and isinstance(st.value, ast.Call) and isinstance(st.value.func, ast.Attribute) \
                and ast.unparse(st.value.func.value) == 'self' and not st.value.args \
                and len(st.value.keywords) == 1 and st.value.keywords[0].arg is None \
                and ast.unparse(st.value.keywords[0].value) == kw:
            return st.value.func.attr
        raise TranslationError(f'__init__: unsupported statement `{ast.unparse(st)[:70]}`')

    def action(stmts, key):
        if len(stmts) == 1 and ast.unparse(stmts[0]) == "self.__c_ij = np.zeros((6, 6), dtype='float64')":
            return '.zeros'
        if len(stmts) == 2 and isinstance(stmts[0], ast.Assert) and key is not None:
            t = stmts[0].test
            if isinstance(t, ast.Compare) and len(t.ops) == 1 and isinstance(t.ops[0], ast.Eq) \
                    and ast.unparse(t.left) == f'len({kw})' \
                    and ast.unparse(stmts[1]) == f"self.{key} = {kw}['{key}']":
                return f'.setter "{key}" {_int(t.comparators[0])}'
            raise TranslationError(f'__init__: unsupported branch for {key}')
        if len(stmts) == 1 and isinstance(stmts[0], ast.If) and len(stmts[0].body) == 1 and len(stmts[0].orelse) == 1:
            tt, k2 = test(stmts[0].test)
            if k2 is None:
                raise TranslationError('__init__: nested test is not a keyword test')
            return f'.callIf "{k2}" "{call(stmts[0].body[0])}" "{call(stmts[0].orelse[0])}"'
        if len(stmts) == 1:
            return f'.call "{call(stmts[0])}"'
        raise TranslationError(f'__init__: unsupported branch `{ast.unparse(stmts[0])[:60]}`')

    chain, node, els = [], body[0], None
    while True:
        t, key = test(node.test)
        chain.append((t, action(node.body, key)))
        if len(node.orelse) == 1 and isinstance(node.orelse[0], ast.If):
            node = node.orelse[0]
            continue
        oe = node.orelse
        if len(oe) == 1 and isinstance(oe[0], ast.Raise) and isinstance(oe[0].exc, ast.Call) \
                and isinstance(oe[0].exc.func, ast.Name):
            els = oe[0].exc.func.id
            break
        raise TranslationError('__init__: the chain does not end in `else: raise E(...)`')
    routes = []
    for i in infos:
        rt = i.get('route') or []
        if len(rt) >= 2 and rt[0] == '__init__':
            routes.append('([' + ', '.join(f'"{k}"' for k in i['keys']) + f'], "{rt[1]}")')
    P = ['/- GENERATED by harness/props/c11.py from atomman/core/ElasticConstants.py (__init__) — do not edit. -/',
         'namespace Atomman.Gen', '',
         '/-- a test of the `__init__` chain: `len(kwargs) in ns` / `\'k\' in kwargs`. -/',
         'inductive InitTest where\n  | lenIn (ns : List Nat)\n  | has (k : String)\n  deriving Repr, DecidableEq', '',
         '/-- a branch body: zero matrix / `assert len(kwargs) == n; self.k = kwargs[k]` / `self.m(**kwargs)` / '
         '`if k in kwargs: self.a(**kwargs) else: self.b(**kwargs)`. -/',
         'inductive InitAct where\n  | zeros\n  | setter (k : String) (assertLen : Nat)\n  | call (m : String)\n'
         '  | callIf (k a b : String)\n  deriving Repr, DecidableEq', '',
         '/-- the if / elif chain of `ElasticConstants.__init__` in program order. -/',
         'def initChain : List (InitTest × InitAct) :=\n  [' + ',\n   '.join(f'({t}, {a_})' for t, a_ in chain) + ']', '',
         '/-- the exception of the final `else`. -/', f'def initElse : String := "{els}"', '',
         '/-- for every keyword set that the symbolic execution follows through `__init__`: the method it enters. -/',
         'def ctorRoutes : List (List String × String) :=\n  [' + ',\n   '.join(routes) + ']', '',
         'end Atomman.Gen', '']
    return '\n'.join(P)


# ---- Lean emitters ---------------------------------------------------------------------

def _tup(t):
    return '(' + ', '.join(str(x) for x in t) + ')'


def _lst(items, per=9):
    rows = [', '.join(items[i:i + per]) for i in range(0, len(items), per)]
    return '[' + ',\n   '.join(rows) + ']'


KCLS = '{K : Type} [NatCast K] [Div K] [Neg K]'


def _voigt_tables(src, axes_src):
    import inspect
    import numpy
    m = _class_methods(src)
    for key in [('Cij', 'get'), ('Cij', 'set'), ('Sij', 'get'), ('Sij', 'set'), ('Cij9', 'get'), ('Cij9', 'set'),
                ('Cijkl', 'get'), ('Cijkl', 'set'), ('Sijkl', 'get'), ('Sijkl', 'set'), ('transform', 'def')]:
        if key not in m:
            raise TranslationError(f'{key[0]} {key[1]} not found')
    # Cij getter / Sij getter / Sij setter are fixed one-liners
    _expect(_body(m[('Cij', 'get')])[0], 'return deepcopy(self.__c_ij)', 'Cij getter')
    _expect(_body(m[('Sij', 'get')])[0], 'return np.linalg.inv(self.Cij)', 'Sij getter')
    b = _body(m[('Sij', 'set')])
    _expect(b[0], "value = np.asarray(value, dtype='float64')", 'Sij setter')
    _expect(b[-1], 'self.Cij = np.linalg.inv(value)', 'Sij setter')
    sc9, t9 = _getter_table(m[('Cij9', 'get')], 'Cij', 'c', (9, 9))
    sc4, t4 = _getter_table(m[('Cijkl', 'get')], 'Cij', 'c', (3, 3, 3, 3))
    scs, ts = _getter_table(m[('Sijkl', 'get')], 'Sij', 's', (3, 3, 3, 3))
    if sc9 or sc4:
        raise TranslationError('unexpected scaling in a stiffness getter')
    cij = _setter_cij(m[('Cij', 'set')])
    cij9 = _setter_cij9(m[('Cij9', 'set')])
    c4 = _setter4(m[('Cijkl', 'set')], 'c', 'Cij')
    s4 = _setter4(m[('Sijkl', 'set')], 's', 'Sij')
    if any(w != 1 for w, _ in c4['table']):
        # a weighted stiffness table is representable: keep the weights
        pass
    tol, q, c = _transform(m[('transform', 'def')])
    sig = inspect.signature(numpy.isclose).parameters
    rtol, atol = Fraction(sig['rtol'].default), Fraction(sig['atol'].default)
    sig2 = inspect.signature(numpy.allclose).parameters
    if Fraction(sig2['rtol'].default) != rtol or Fraction(sig2['atol'].default) != atol:
        raise TranslationError('numpy allclose/isclose defaults differ')
    isn_atol = _default_of(src, 'is_normal', 'atol')
    isn_rtol = _default_of(src, 'is_normal', 'rtol')

    def checks(lst):
        kinds = {(k, a) for _, _, k, a in lst}
        if len(kinds) != 1:
            raise TranslationError('mixed assertion kinds in one setter')
        return kinds.pop(), _lst([f'({_tup(p)}, {_tup(q_)})' for p, q_, _, _ in lst], 4)

    P = ['/- GENERATED by harness/props/c11.py from atomman/core/ElasticConstants.py — do not edit. -/',
         'namespace Atomman.Gen', '',
         '/-- `f 0 + f 1 + f 2`: the sum over one repeated einsum index. -/',
         'def sum3 {K : Type} [Add K] (f : Fin 3 → K) : K := f 0 + f 1 + f 2', '',
         '/-- `Cij9` getter: row-major 9x9 literal, entry `(a, b)` stands for `c[a, b]`. -/',
         'def cij9GetTab : List (Nat × Nat) :=\n  ' + _lst([_tup(t) for t in t9]), '',
         '/-- `Cijkl` getter: row-major 3x3x3x3 literal, entry `(a, b)` stands for `c[a, b]`. -/',
         'def cijklGetTab : List (Nat × Nat) :=\n  ' + _lst([_tup(t) for t in t4]), '',
         '/-- `Sijkl` getter: row-major 3x3x3x3 literal, entry `(a, b)` stands for `s[a, b]` (after the scalings). -/',
         'def sijklGetTab : List (Nat × Nat) :=\n  ' + _lst([_tup(t) for t in ts]), '',
         '/-- `Sijkl` getter: in-place slice scalings `s[r0:r1, c0:c1] *= num/den`, in program order. -/',
         'def sijklGetScale : List (Nat × Nat × Nat × Nat × Nat × Nat) :=\n  ' + _lst([_tup(t) for t in scs], 3), '']
    kind, text = checks(cij['checks'])
    if kind[0] != 'close' or kind[1] is None:
        raise TranslationError('Cij setter symmetry assertion is not isclose(..., atol=lit)')
    P += ['/-- `Cij` setter: `value[isclose(value/value.max(), 0, atol=…)] = 0`. -/',
          f'def cijSetZeroAtol {KCLS} : K := {lit(cij["zero_atol"])}',
          '/-- `Cij` setter: `atol` of the symmetry assertions. -/',
          f'def cijSetSymAtol {KCLS} : K := {lit(kind[1])}',
          '/-- `Cij` setter: unrolled `assert isclose(value[p], value[q], atol)`. -/',
          'def cijSetChecks : List ((Nat × Nat) × (Nat × Nat)) :=\n  ' + text, '']
    kind, text = checks(cij9['checks'])
    if kind != ('eq', None):
        raise TranslationError('Cij9 setter assertions are not exact equalities')
    P += ['/-- `Cij9` setter: unrolled `assert value[p] == value[q]`. -/',
          'def cij9SetChecks : List ((Nat × Nat) × (Nat × Nat)) :=\n  ' + text,
          '/-- `Cij9` setter: `self.Cij = value[:r, :c]`. -/',
          f'def cij9SetSlice : Nat × Nat := {_tup(cij9["slice"])}', '']
    for nm, d in (('cijkl', c4), ('sijkl', s4)):
        kind, text = checks(d['checks'])
        if kind[0] != 'close':
            raise TranslationError(f'{nm} setter assertions are not isclose')
        if kind[1] is None:
            a_rel, a_val = False, atol
        elif isinstance(kind[1], tuple):
            a_rel, a_val = True, kind[1][1]
        else:
            a_rel, a_val = False, kind[1]
        P += [f'/-- `{nm.capitalize()}` setter: `atol` of the symmetry assertions; if `…Rel` it is multiplied by '
              '`max(1.0, abs(x).max())`. -/',
              f'def {nm}SetAtol {KCLS} : K := {lit(a_val)}',
              f'def {nm}SetAtolRel : Bool := {"true" if a_rel else "false"}']
        P += [f'/-- `{nm.capitalize()}` setter: is `assert value.max() > 0.0` present. -/',
              f'def {nm}SetMaxAssert : Bool := {"true" if d["max_assert"] else "false"}',
              f'/-- `{nm.capitalize()}` setter: unrolled `assert np.isclose(x[p], x[q])`. -/',
              f'def {nm}SetChecks : List ((Nat × Nat × Nat × Nat) × (Nat × Nat × Nat × Nat)) :=\n  ' + text,
              f'/-- `{nm.capitalize()}` setter: row-major 6x6 literal, entry `((num, den), (i,j,k,l))` stands for '
              '`num/den * x[i,j,k,l]`. -/',
              f'def {nm}SetTab : List ((Nat × Nat) × (Nat × Nat × Nat × Nat)) :=\n  '
              + _lst([f'({_tup((w.numerator, w.denominator))}, {_tup(ix)})' for w, ix in d['table']], 3), '']
        if any(w <= 0 for w, _ in d['table']):
            raise TranslationError(f'{nm} setter: non-positive weight')
    P += ['/-- default `tol` of `transform`. -/', f'def transformTol {KCLS} : K := {lit(tol)}',
          '/-- numpy `isclose`/`allclose` defaults. -/', f'def npRtol {KCLS} : K := {lit(rtol)}',
          f'def npAtol {KCLS} : K := {lit(atol)}',
          '/-- `is_normal` defaults. -/', f'def isNormalAtol {KCLS} : K := {lit(isn_atol)}',
          f'def isNormalRtol {KCLS} : K := {lit(isn_rtol)}', '',
          f"/-- `Q = np.einsum('{','.join(ix for _, ix in q[2])}->{q[0]}', T, T)`. -/",
          'def transQ {K : Type} [Add K] [Mul K] (T : Fin 3 → Fin 3 → K) : Fin 3 → Fin 3 → Fin 3 → Fin 3 → K :=\n  '
          + _einsum_lean(*q),
          f"/-- `C = np.einsum('{','.join(ix for _, ix in c[2])}->{c[0]}', Q, self.Cijkl, Q)`. -/",
          'def transC {K : Type} [Add K] [Mul K] (Q C : Fin 3 → Fin 3 → Fin 3 → Fin 3 → K) :\n'
          '    Fin 3 → Fin 3 → Fin 3 → Fin 3 → K :=\n  ' + _einsum_lean(*c), '',
          'end Atomman.Gen', '']
    return '\n'.join(P)


# ----------------------------------------------------------------------------------------
# translator — symbolic execution of __init__ / crystal-system methods / normalized_as / bulk / shear
# ----------------------------------------------------------------------------------------
CIJ_KEYS = [f'C{i}{j}' for i in range(1, 7) for j in range(i, 7)]
KEY_ORDER = CIJ_KEYS + ['M', 'lambda', 'mu', 'E', 'nu', 'K']
MATRIX_KEYS = ['Cij', 'Sij', 'Cij9', 'Cijkl', 'Sijkl', 'model']
ARITH = '{K : Type} [Add K] [Sub K] [Mul K] [Div K] [Neg K] [NatCast K]'


def keyname(keys):
    ks = sorted(keys, key=KEY_ORDER.index)
    return ','.join(ks)


class _PyRaise(Exception):
    """a Python exception raised inside the symbolically executed code"""

    def __init__(self, kind):
        super().__init__(kind)
        self.kind = kind


class _Done(Exception):
    """`self.Cij = <6x6 literal>` reached (the methods end there)"""


class SymExec:
    """Executes one call `ElasticConstants(**{k: v_k})` (or a crystal-system method) for a *concrete key set* and
    symbolic values.  Control flow may depend only on the key set; anything else raises TranslationError."""

    def __init__(self, methods, keys):
        self.m = methods
        self.params = {k: 'v' + k for k in keys}
        self.lets = []
        self.asserts = []
        self.roots = []          # (param name, radicand lean expr, number of lets before it)
        self.template = None
        self.route = []
        self.conc = {}           # concrete python values (strings) of locals such as crystal_system / style
        self.mats = {}           # python local -> lean matrix name ('c' / 's')

    # -- expressions ------------------------------------------------------------------
    def _special(self, kwargs, env):
        def sp(node, tr):
            if isinstance(node, ast.Name):
                if node.id in env:
                    return env[node.id], 'K'
                raise _PyRaise('NameError')
            if isinstance(node, ast.Subscript) and isinstance(node.value, ast.Name):
                if node.value.id == 'kwargs':
                    k = node.slice
                    if not (isinstance(k, ast.Constant) and isinstance(k.value, str)):
                        raise TranslationError('kwargs[...] with a non-literal key')
                    if k.value not in kwargs:
                        raise _PyRaise('KeyError')
                    return kwargs[k.value], 'K'
                if node.value.id in self.mats:
                    a, b = _sub_index(node, node.value.id, 2, dim=6)
                    return f'({self.mats[node.value.id]} {a} {b})', 'K'
            if isinstance(node, ast.Call) and ast.unparse(node.func) == 'kwargs.pop':
                if not (len(node.args) == 1 and isinstance(node.args[0], ast.Constant)):
                    raise TranslationError('kwargs.pop with default / non-literal key')
                k = node.args[0].value
                if k not in kwargs:
                    raise _PyRaise('KeyError')
                return kwargs.pop(k), 'K'
            if isinstance(node, ast.Call) and ast.unparse(node.func) in ('self.bulk', 'self.shear'):
                which = node.func.attr
                if node.keywords or len(node.args) > 1:
                    raise TranslationError('estimate call form')
                if node.args:
                    if not (isinstance(node.args[0], ast.Constant) and isinstance(node.args[0].value, str)):
                        raise TranslationError('estimate style not literal')
                    style = node.args[0].value
                else:
                    style = _str_default(self.m[(which, 'def')], 'style')
                if style not in ('Hill', 'Voigt', 'Reuss'):
                    raise TranslationError('unknown estimate style in call')
                args = {'Hill': 'c s', 'Voigt': 'c', 'Reuss': 's'}[style]
                self.uses_s = getattr(self, 'uses_s', False) or style != 'Voigt'
                return f'({which}{style} {args})', 'K'
            if isinstance(node, ast.BinOp) and isinstance(node.op, ast.Pow) and isinstance(node.right, ast.Constant) \
                    and node.right.value == 0.5 and isinstance(node.right.value, float):
                rad, t = tr.tr(node.left)
                name = f'root{len(self.roots)}'
                self.roots.append((name, rad, len(self.lets)))
                return name, 'K'
            return None
        return sp

    def expr(self, node, kwargs, env):
        tr = ExprTranslator({}, special=self._special(kwargs, env))
        s, t = tr.tr(node)
        if t != 'K':
            raise TranslationError('non-scalar expression')
        return s

    # -- conditions (concrete) --------------------------------------------------------
    def cond(self, node, kwargs):
        if isinstance(node, ast.Constant) and isinstance(node.value, bool):
            return node.value
        if isinstance(node, ast.BoolOp):
            vals = [self.cond(v, kwargs) for v in node.values]
            return all(vals) if isinstance(node.op, ast.And) else any(vals)
        if isinstance(node, ast.Compare) and len(node.ops) == 1:
            l, op, r = node.left, node.ops[0], node.comparators[0]
            if isinstance(op, ast.In) and isinstance(l, ast.Constant) and isinstance(l.value, str) \
                    and isinstance(r, ast.Name) and r.id == 'kwargs':
                return l.value in kwargs

            def val(n):
                if ast.unparse(n) == 'len(kwargs)':
                    return len(kwargs)
                if isinstance(n, ast.Constant) and isinstance(n.value, (int, str)):
                    return n.value
                if isinstance(n, ast.Name) and n.id in self.conc:
                    return self.conc[n.id]
                raise TranslationError(f'condition not decidable from the keyword set: {ast.unparse(node)}')
            a, b = val(l), val(r)
            if type(a) is not type(b):
                raise TranslationError('condition compares different kinds')
            if isinstance(op, ast.Eq):
                return a == b
            if isinstance(op, ast.NotEq):
                return a != b
            if isinstance(a, int):
                if isinstance(op, ast.GtE):
                    return a >= b
                if isinstance(op, ast.LtE):
                    return a <= b
                if isinstance(op, ast.Gt):
                    return a > b
                if isinstance(op, ast.Lt):
                    return a < b
        raise TranslationError(f'condition not decidable from the keyword set: {ast.unparse(node)}')

    # -- statements -------------------------------------------------------------------
    def block(self, stmts, kwargs, env):
        for st in stmts:
            self.stmt(st, kwargs, env)

    def stmt(self, st, kwargs, env):
        if isinstance(st, ast.Expr) and isinstance(st.value, ast.Constant):
            return
        if isinstance(st, ast.Try):
            if not (len(st.handlers) == 1 and st.handlers[0].type is None and not st.orelse and not st.finalbody
                    and len(st.handlers[0].body) == 1 and isinstance(st.handlers[0].body[0], ast.Raise)):
                raise TranslationError('unsupported try block')
            try:
                self.block(st.body, kwargs, env)
            except _PyRaise:
                self.stmt(st.handlers[0].body[0], kwargs, env)
            return
        if isinstance(st, ast.Raise):
            exc = st.exc
            if isinstance(exc, ast.Call) and isinstance(exc.func, ast.Name):
                raise _PyRaise(exc.func.id)
            raise TranslationError('unsupported raise')
        if isinstance(st, ast.If):
            self.block(st.body if self.cond(st.test, kwargs) else st.orelse, kwargs, env)
            return
        if isinstance(st, ast.Assert):
            t = st.test
            if isinstance(t, ast.Call) and ast.unparse(t.func) == 'np.isclose':
                if len(t.args) != 2 or t.keywords:
                    raise TranslationError('isclose form')
                self.asserts.append((self.expr(t.args[0], kwargs, env), self.expr(t.args[1], kwargs, env),
                                     len(self.lets)))
                return
            if not self.cond(t, kwargs):
                raise _PyRaise('AssertionError')
            return
        if isinstance(st, ast.Assign) and len(st.targets) == 1:
            tg = st.targets[0]
            if isinstance(tg, ast.Name):
                u = ast.unparse(st.value)
                if u in ('self.Cij', 'self.Sij'):
                    self.mats[tg.id] = 'c' if u == 'self.Cij' else 's'
                    if u == 'self.Sij':
                        self.uses_s = True
                    return
                if tg.id == 'kwargs' and u == '{key: float(value) for key, value in kwargs.items()}':
                    return      # conversion of the given numbers to python floats: the identity on the model's scalars
                if u == '{}':
                    self.dicts = getattr(self, 'dicts', {})
                    self.dicts[tg.id] = {}
                    return
                s = self.expr(st.value, kwargs, env)
                name = tg.id + '_'
                used = [l[0] for l in self.lets]
                n = 0
                while name in used:     # re-assignment on one path: a fresh Lean name shadows the old one
                    n += 1
                    name = f'{tg.id}_{n}'
                self.lets.append((name, s))
                env[tg.id] = name
                return
            if isinstance(tg, ast.Subscript) and isinstance(tg.value, ast.Name) \
                    and isinstance(tg.slice, ast.Constant) and isinstance(tg.slice.value, str):
                if tg.value.id == 'kwargs':
                    kwargs[tg.slice.value] = self.expr(st.value, kwargs, env)
                    return
                if tg.value.id in getattr(self, 'dicts', {}):
                    s = self.expr(st.value, kwargs, env)
                    name = 'n' + tg.slice.value
                    self.lets.append((name, s))
                    self.dicts[tg.value.id][tg.slice.value] = name
                    return
            if ast.unparse(tg) == 'self.Cij':
                leaves = _np_array_literal(st.value, (6, 6))
                self.template = [self.expr(l, kwargs, env) for l in leaves]
                raise _Done()
        if isinstance(st, ast.Expr) and isinstance(st.value, ast.Call):
            c = st.value
            f = ast.unparse(c.func)
            if f.startswith('self.') and not c.args and len(c.keywords) == 1 and c.keywords[0].arg is None \
                    and ast.unparse(c.keywords[0].value) == 'kwargs':
                self.call_method(f[5:], dict(kwargs))
                return
        if isinstance(st, ast.Return):
            c = st.value
            if isinstance(c, ast.Call) and ast.unparse(c.func) == 'ElasticConstants' and not c.args \
                    and len(c.keywords) == 1:
                k = c.keywords[0]
                if k.arg is None and isinstance(k.value, ast.Name) and k.value.id in getattr(self, 'dicts', {}):
                    self.ret = ('ctor', dict(self.dicts[k.value.id]))
                    raise _Done()
                if k.arg == 'Cij' and ast.unparse(k.value) == 'self.Cij':
                    self.ret = ('cij', None)
                    raise _Done()
        raise TranslationError(f'unsupported statement: {ast.unparse(st)[:90]}')

    def call_method(self, name, kwargs):
        fn = self.m.get((name, 'def'))
        if fn is None:
            raise TranslationError(f'method {name} not found')
        if fn.args.args and [a.arg for a in fn.args.args] != ['self'] or fn.args.kwarg is None \
                or fn.args.kwarg.arg != 'kwargs':
            raise TranslationError(f'{name}: expected signature (self, **kwargs)')
        self.route.append(name)
        self.block(_body(fn), kwargs, {})
        raise TranslationError(f'{name}: fell off the end without setting self.Cij')

    def init(self):
        """ElasticConstants(**params). Returns 'ok' or the exception class name."""
        fn = self.m[('__init__', 'def')]
        kwargs = dict(self.params)
        try:
            self.route.append('__init__')
            self.block(_body(fn), kwargs, {})
        except _Done:
            return 'ok'
        except _PyRaise as e:
            return e.kind
        raise TranslationError('__init__: fell off the end')

    def method(self, name):
        try:
            self.call_method(name, dict(self.params))
        except _Done:
            return 'ok'
        except _PyRaise as e:
            return e.kind


def _str_default(fn, arg):
    names = [x.arg for x in fn.args.args]
    k = names.index(arg) - (len(names) - len(fn.args.defaults))
    d = fn.args.defaults[k]
    if not (isinstance(d, ast.Constant) and isinstance(d.value, str)):
        raise TranslationError('default is not a string')
    return d.value


def _lets(lets, upto=None):
    lets = lets if upto is None else lets[:upto]
    return ''.join(f'  let {n} := {s}\n' for n, s in lets)


def _ctor_def(methods, keys, via=None):
    """-> (status, name, lean text, info)"""
    ks = sorted(keys, key=KEY_ORDER.index)
    ex = SymExec(methods, ks)
    status = ex.init() if via is None else ex.method(via)
    name = ('ctor_' if via is None else via + '_') + '_'.join(ks)
    info = {'keys': ks, 'status': status, 'route': ex.route, 'nroots': len(ex.roots), 'nasserts': len(ex.asserts),
            'name': name, 'via': via}
    if status != 'ok':
        return status, name, '', info
    params = ' '.join('v' + k for k in ks)
    roots = ' '.join(r for r, _, _ in ex.roots)
    sig = f'({params}{" " + roots if roots else ""} : K)'
    call = ('ElasticConstants(' if via is None else f'ElasticConstants().{via}(') + ', '.join(k + '=' for k in ks) + ')'
    T = [f'/-- `{call}` (route {" -> ".join(ex.route)}): the 6x6 literal handed to the `Cij` setter, row-major. -/',
         f'def {name} {ARITH} {sig} : List K :=\n' + _lets(ex.lets)
         + '  ' + _lst(ex.template, 6).replace('\n   ', '\n   ')]
    for i, (r, rad, n) in enumerate(ex.roots):
        prev = ' '.join(x for x, _, _ in ex.roots[:i])
        T.append(f'/-- radicand of `{r}` (`(...)**0.5`) in `{call}`. -/')
        T.append(f'def {name}_radicand{i} {ARITH} ({params}{" " + prev if prev else ""} : K) : K :=\n'
                 + _lets(ex.lets, n) + '  ' + rad)
    T.append(f'/-- pairs that must pass `np.isclose` in `{call}`. -/')
    body = '[' + ', '.join(f'({a}, {b})' for a, b, _ in ex.asserts) + ']'
    T.append(f'def {name}_asserts {ARITH} {sig} : List (K × K) :=\n' + _lets(ex.lets) + '  ' + body)
    return status, name, '\n'.join(T) + '\n', info


def _iso_keysets():
    names = ['C11', 'C12', 'C44', 'M', 'lambda', 'mu', 'E', 'nu', 'K']
    return [set(p) for p in itertools.combinations(names, 2)]


def _crystal_keysets():
    out = [{'C11', 'C12', 'C44'}]
    base_h = {'C33', 'C13', 'C44'}
    two = [{'C11', 'C12'}, {'C11', 'C66'}, {'C12', 'C66'}]
    out += [base_h | t for t in two]
    base_r = base_h | {'C14'}
    for t in two + [{'C11', 'C12', 'C66'}]:
        out += [base_r | t, base_r | t | {'C15'}]
    tet = {'C11', 'C33', 'C12', 'C13', 'C44', 'C66'}
    out += [tet, tet | {'C16'}]
    out.append({'C11', 'C22', 'C33', 'C12', 'C13', 'C23', 'C44', 'C55', 'C66'})
    out.append({'C11', 'C12', 'C13', 'C15', 'C22', 'C23', 'C25', 'C33', 'C35', 'C44', 'C46', 'C55', 'C66'})
    out.append(set(CIJ_KEYS))
    return out


def _bad_keysets():
    """keyword sets on which the real constructor must raise TypeError (kept small; also exercised by the tie)."""
    return [{'C11'}, {'C11', 'C12', 'C66'}, {'C11', 'C12', 'C13', 'C33'}, {'C11', 'C12', 'C13', 'C33', 'C66'},
            {'C11', 'C12', 'C13', 'C14', 'C33', 'C55'}, {'C11', 'C12', 'C13', 'C33', 'C44', 'C55'},
            {'C11', 'C12', 'C13', 'C14', 'C16', 'C33', 'C44'},
            {'C11', 'C12', 'C13', 'C14', 'C15', 'C16', 'C33', 'C44'},
            {'C11', 'C22', 'C33', 'C12', 'C13', 'C23', 'C44', 'C55', 'C16'},
            set(CIJ_KEYS[:10]), set(CIJ_KEYS) - {'C66'} | {'K'},
            {'E', 'C13'}, {'nu', 'C66'},
            # a foreign keyword next to a complete set (the leftover must not be ignored)
            {'C11', 'C66', 'C13', 'C14', 'C15', 'C33', 'C44', 'C55'}, {'C12', 'C66', 'C13', 'C14', 'C15', 'C33', 'C44', 'C16'},
            {'C11', 'C12', 'C13', 'C33', 'C44', 'C66', 'C15'}, {'C11', 'C12', 'C44', 'C13'}]




def _estimates(methods):
    """bulk / shear for the three styles -> lean text"""
    T = []
    for which in ('bulk', 'shear'):
        fn = methods.get((which, 'def'))
        if fn is None or [a.arg for a in fn.args.args] != ['self', 'style']:
            raise TranslationError(f'{which}: signature')
        for style in ('Voigt', 'Reuss', 'Hill'):
            ex = SymExec(methods, [])
            ex.conc['style'] = style
            res = []

            def run(stmts):
                for st in stmts:
                    if isinstance(st, ast.Expr) and isinstance(st.value, ast.Constant):
                        continue
                    if isinstance(st, ast.If):
                        run(st.body if ex.cond(st.test, {}) else st.orelse)
                        return
                    if isinstance(st, ast.Return):
                        res.append(ex.expr(st.value, {}, {}))
                        return
                    if isinstance(st, ast.Assign) and ast.unparse(st.value) in ('self.Cij', 'self.Sij'):
                        ex.stmt(st, {}, {})
                        continue
                    raise TranslationError(f'{which}: unsupported statement {ast.unparse(st)[:80]}')
            run(_body(fn))
            if len(res) != 1:
                raise TranslationError(f'{which}({style}): no result')
            mats = sorted(set(ex.mats.values()))
            if style == 'Hill':
                mats = ['c', 's']
            if (style == 'Voigt' and mats != ['c']) or (style == 'Reuss' and mats != ['s']):
                raise TranslationError(f'{which}({style}) reads {mats}')
            T.append(f"/-- `{which}('{style}')`; `c = self.Cij`, `s = self.Sij` (the inverse is a parameter). -/")
            T.append(f'def {which}{style} {ARITH} ({" ".join(mats)} : Fin 6 → Fin 6 → K) : K :=\n  {res[0]}\n')
    return '\n'.join(T)


SYSTEMS = ['triclinic', 'isotropic', 'cubic', 'hexagonal', 'tetragonal', 'rhombohedral', 'orthorhombic', 'monoclinic']


def _normalized(methods, have):
    """normalized_as for each crystal system -> lean text; `have`: key name -> ctor def name"""
    fn = methods.get(('normalized_as', 'def'))
    if fn is None or [a.arg for a in fn.args.args] != ['self', 'crystal_system']:
        raise TranslationError('normalized_as: signature')
    T = []
    for sysname in SYSTEMS:
        ex = SymExec(methods, [])
        ex.conc['crystal_system'] = sysname
        ex.uses_s = False
        try:
            ex.block(_body(fn), {}, {})
            raise TranslationError('normalized_as: no return')
        except _Done:
            pass
        except _PyRaise as e:
            T.append(f'/-- `normalized_as({sysname!r})` raises {e.kind}. -/')
            T.append(f'def normalized_{sysname}_raises : String := "{e.kind}"\n')
            continue
        mats = 'c s' if ex.uses_s else 'c'
        if ex.ret[0] == 'cij':
            T.append(f'/-- `normalized_as({sysname!r})` = `ElasticConstants(Cij=self.Cij)`. -/')
            T.append(f'def normalized_{sysname} {ARITH} (c : Fin 6 → Fin 6 → K) : List K :=\n'
                     '  [c 0 0, c 0 1, c 0 2, c 0 3, c 0 4, c 0 5,\n   c 1 0, c 1 1, c 1 2, c 1 3, c 1 4, c 1 5,\n'
                     '   c 2 0, c 2 1, c 2 2, c 2 3, c 2 4, c 2 5,\n   c 3 0, c 3 1, c 3 2, c 3 3, c 3 4, c 3 5,\n'
                     '   c 4 0, c 4 1, c 4 2, c 4 3, c 4 4, c 4 5,\n   c 5 0, c 5 1, c 5 2, c 5 3, c 5 4, c 5 5]\n')
            continue
        d = ex.ret[1]
        kn = keyname(d.keys())
        if kn not in have:
            raise TranslationError(f'normalized_as({sysname}): keyword set {kn} is not a generated constructor')
        info = have[kn]
        if info['status'] != 'ok' or info['nroots'] or info['nasserts']:
            raise TranslationError(f'normalized_as({sysname}): constructor {kn} raises / needs roots / asserts')
        args = ' '.join(d[k] for k in info['keys'])
        T.append(f'/-- `normalized_as({sysname!r})`: `ElasticConstants(**c_dict)` with keys {kn} '
                 f'(route {" -> ".join(info["route"])}). -/')
        T.append(f'def normalized_{sysname} {ARITH} ({mats} : Fin 6 → Fin 6 → K) : List K :=\n' + _lets(ex.lets)
                 + f'  {info["name"]} {args}\n')
        T.append(f'/-- the named constants computed by `normalized_as({sysname!r})`, in the order {kn}. -/')
        T.append(f'def normalized_{sysname}_consts {ARITH} ({mats} : Fin 6 → Fin 6 → K) : List K :=\n'
                 + _lets(ex.lets) + '  [' + ', '.join(d[k] for k in info['keys']) + ']\n')
    return '\n'.join(T)


def _dispatch(name, infos):
    """keyword-set string -> constructor (generated lookup used by the driver)"""
    T = [f'/-- result of the constructor for a keyword set given as the comma-joined key list (order {KEY_ORDER[:3]}…):',
         '    `none` = keyword set not generated, `some (.error e)` = the call raises `e`, otherwise the 6x6 literal and',
         '    the `isclose` pairs.  `vals` in key order, then the square-root parameters. -/',
         f'def {name} {ARITH} (keys : String) (vals roots : List K) : Option (Except String (List K × List (K × K))) :=']
    for info in infos:
        kn = ','.join(info['keys'])
        if info['status'] != 'ok':
            T.append(f'  if keys = "{kn}" then some (.error "{info["status"]}") else')
            continue
        vs = ', '.join('v' + k for k in info['keys'])
        rs = ', '.join(f'r{i}' for i in range(info['nroots']))
        args = ' '.join(['v' + k for k in info['keys']] + [f'r{i}' for i in range(info['nroots'])])
        T.append(f'  if keys = "{kn}" then (match vals, roots with\n'
                 f'    | [{vs}], [{rs}] => some (.ok ({info["name"]} {args}, {info["name"]}_asserts {args}))\n'
                 f'    | _, _ => none) else')
    T.append('  none\n')
    return '\n'.join(T)


def _radicand_dispatch(infos):
    T = ['/-- radicands of the square roots of a keyword set (in order), `none` if the set is unknown. -/',
         f'def isoRadicands {ARITH} (keys : String) (vals : List K) : Option (List K) :=']
    for info in infos:
        if info['status'] != 'ok' or info['nroots'] == 0:
            continue
        if info['nroots'] != 1:
            raise TranslationError('more than one square root on one path')
        kn = ','.join(info['keys'])
        vs = ', '.join('v' + k for k in info['keys'])
        args = ' '.join('v' + k for k in info['keys'])
        T.append(f'  if keys = "{kn}" then (match vals with\n'
                 f'    | [{vs}] => some [{info["name"]}_radicand0 {args}]\n    | _ => none) else')
    T.append('  some []\n')
    return '\n'.join(T)


def _ctor_all(methods):
    """symbolic execution of every generated keyword set -> (infos, texts, iso_infos, iso_texts)"""
    infos, texts = [], []
    for ks in _crystal_keysets() + _bad_keysets():
        st, name, text, info = _ctor_def(methods, ks)
        infos.append(info)
        if text:
            texts.append(text)
    for ks in _crystal_keysets():
        i = [x for x in infos if x['keys'] == sorted(ks, key=KEY_ORDER.index)][0]
        if i['status'] != 'ok':
            raise TranslationError(f'admissible keyword set {keyname(ks)} raises {i["status"]}')
    for ks in _bad_keysets():
        i = [x for x in infos if x['keys'] == sorted(ks, key=KEY_ORDER.index)][0]
        if i['status'] != 'TypeError':
            raise TranslationError(f'keyword set {keyname(ks)} is not a documented one and must raise TypeError; the '
                                   f'source now gives: {i["status"]}')
    iso_infos, iso_texts = [], []
    for ks in _iso_keysets():
        st, name, text, info = _ctor_def(methods, ks)
        iso_infos.append(info)
        if text:
            iso_texts.append(text)
    canon = [i for i in iso_infos if set(i['keys']) <= {'C11', 'C12', 'C44', 'E', 'nu', 'K'}]
    if len(canon) != 15 or any(i['status'] != 'ok' for i in canon):
        raise TranslationError('an isotropic modulus pair raises: '
                               + ', '.join(','.join(i['keys']) for i in canon if i['status'] != 'ok'))
    return infos, texts, iso_infos, iso_texts


def _translate_all():
    src = cm.source(SRC)
    axes_src = cm.source(AXES_SRC)
    methods = _class_methods(src)
    out = {'VoigtTables': _voigt_tables(src, axes_src), 'AxesCheck': _axes_check_gen(axes_src)}
    infos, texts, iso_infos, iso_texts = _ctor_all(methods)
    have = {','.join(i['keys']): i for i in infos + iso_infos}
    head = ['/- GENERATED by harness/props/c11.py from atomman/core/ElasticConstants.py — do not edit. -/']
    out['IsoPairs'] = '\n'.join(head + ['set_option linter.unusedVariables false', 'namespace Atomman.Gen', '']
                                + iso_texts + [_dispatch('isoDispatch', iso_infos), _radicand_dispatch(iso_infos),
                                               'end Atomman.Gen', ''])
    out['CrystalCij'] = '\n'.join(head + ['import Atomman.Generated.IsoPairs', 'set_option linter.unusedVariables false',
                                          'namespace Atomman.Gen', ''] + texts
                                  + [_dispatch('crystalDispatch', infos), _estimates(methods),
                                     _normalized(methods, have), 'end Atomman.Gen', ''])
    out['InitRoute'] = _init_chain_gen(methods, infos + iso_infos)
    return out, infos, iso_infos


def _static_infos():
    """what the keyword sets are *expected* to do (used by the tie only when the translator no longer applies, so
    that the run can still exhibit where the implementation differs from the committed model)."""
    def route(ks):
        n = len(ks)
        if n == 2:
            return 'isotropic'
        return {3: 'cubic', 5: 'hexagonal', 8: 'rhombohedral', 9: 'orthorhombic', 13: 'monoclinic',
                21: 'triclinic'}.get(n, 'rhombohedral' if 'C14' in ks else 'tetragonal')

    def mk(ks, status):
        ks = sorted(ks, key=KEY_ORDER.index)
        return {'keys': ks, 'status': status, 'route': ['__init__', route(ks)], 'nroots': int('E' in ks and len(ks) == 2
                and bool({'C11', 'M', 'C12', 'lambda'} & set(ks))), 'name': 'ctor_' + '_'.join(ks), 'via': None,
                'nasserts': int({'C11', 'C12', 'C66', 'C14'} <= set(ks) and len(ks) <= 8)}
    infos = [mk(ks, 'ok') for ks in _crystal_keysets()] + [mk(ks, 'TypeError') for ks in _bad_keysets()]
    same = [{'C11', 'M'}, {'C12', 'lambda'}, {'C44', 'mu'}]
    iso = [mk(ks, 'TypeError' if ks in same else 'ok') for ks in _iso_keysets()]
    return infos, iso


def _infos():
    try:
        _, infos, iso_infos = _translate_all_cached()
        return infos, iso_infos
    except TranslationError:
        try:
            infos, _, iso_infos, _ = _ctor_all(_class_methods(cm.source(SRC)))
            return infos, iso_infos
        except TranslationError:
            return _static_infos()


def translate():
    return _translate_all()[0]


# ----------------------------------------------------------------------------------------
# correspondence: compiled Lean model (drv_c11) vs the real class on identical exact inputs
# ----------------------------------------------------------------------------------------
RULE = ('Cij inputs: the 21 symmetric basis matrices (index probing), random symmetric positive-definite dyadic '
        'matrices (exact regime: index placement, signed-permutation rotations, dyadic constants compared exactly) '
        'and random float SPD matrices with condition number <= ~50 (tolerance regime, rtol 1e-9*cond); entries '
        'scaled to straddle the 1e-9/1e-8 clean-up thresholds; setters fed symmetric, within-tolerance and '
        'out-of-tolerance asymmetric arrays; axes: the 24 proper signed permutations, rational rotations from '
        'integer quaternions, scaled rows, non-orthogonal and left-handed triples; every generated keyword set of '
        'the seven crystal systems and 36 isotropic pairs (with aliases) incl. sets that must raise; all '
        'normalized_as targets and the three estimate styles.  Unit systems: every tensor class is also presented '
        'rescaled by exact powers of two 2^-40..2^40 (numbers ~1e-12..1e12; rescaling is exact in binary floating '
        'point, so model and oracle stay exact) and every clause is evaluated at a tolerance relative to the '
        "tensor's own largest entry.  Weak anisotropy: isotropic/cubic/hexagonal/tetragonal/rhombohedral/"
        'orthorhombic tensors plus 1e-9..1e-2 (relative) of a general symmetric perturbation.  Rotations also by '
        '1e-7.5..1e-1 rad about random axes.  SPD with condition number 1e2..1e5.  Objects: operation sequences on '
        'ONE object (driver op `seq` = Lean `run`): every ordered pair and random permutations / repetitions of '
        'the reads Cij Sij Cij9 Cijkl Sijkl bulk shear normalized_as is_normal transform str, the caller '
        'overwriting every returned array / re-initialising every returned object, set -> reads -> slightly '
        'different set (relative change 1e-7..1e-2, through each of the seven entry points) -> reads, refused '
        'sets; each read compared with the same read on a fresh object.  Cross-cutting classes (oracle, decided '
        'by tables written in the harness): keyword sets = every documented set of every crystal-system method '
        'with one keyword added / replaced by a typo or a foreign constant / removed, through the constructor and '
        'the method; left-handed axes with every row negated / every pair exchanged, tilted rows, unknown styles '
        'and systems, malformed arrays; transform tol default / keyword / positional / 0 on signed-permutation '
        'axes with planted entries 3e-10..2e-3 of the maximum; is_normal with absolute-only / relative-only '
        'tolerances; arrays as list / tuple / Fortran / read-only / strided / float32 / int64 / int32, named '
        'constants as python and numpy ints and floats and 0-d arrays mixed in one call at magnitudes 1..1e11; '
        'axes_check directly; the data model under six working-unit systems, SI and a random seed incl. a change '
        'between two calls; scales also 2^+-100..2^+-480; nu = 0 with non-dyadic moduli, lambda/mu up to 2000; '
        'general tensors under the 24 cube rotations.  Structured tensors (tie section 9 and search): every '
        'crystal-system template in three settings (unique axis along z, x, y) rotated about each principal axis '
        'by multiples of 30 / 45 degrees and by generic / tiny angles; coincidences a system does not force '
        '(C11=C33, C12=C13, C44=C66, 2C66=C11-C12 ..., singly and as tetragonal / hexagonal / cubic / isotropic / '
        'rhombohedral "looks") on the matrix and on the named constants; an SPD matrix for every partition of '
        'the six Voigt indices into blocks, the same plus one entry, dense minus one entry.  distinct = distinct canonical driver '
        'line; non-trivial = non-error case with a non-diagonal / non-identity input')
ASSUMPTIONS = [
    'numpy.linalg.inv returns the inverse: the model takes the exact rational inverse (hypothesis C*S = 1 and S*C = 1 '
    'in the theorems); compared with rtol 1e-9*cond.  For the isotropic and the cubic template the inverse is written '
    'out and proved (isoS, cubicS, hexS: cubic_mul_cubicS, cubicS_mul_cubic, cubic_compliance_unique, hex_*): no assumption there',
    'float square roots (isotropic E-pairs, row norms in axes_check) are parameters: the harness passes the correctly '
    'rounded double of the exact radicand / the numpy row norms; theorems assume r*r = radicand, r >= 0 (axes_check: '
    'norms i > 0 and norms i * norms i = sum_k axes i k ^ 2, for rows of ANY length: axesCheck_normalises, '
    'transform_rotates_by_unit_axes)',
    'python keyword names of one call are distinct: initRoute takes the keyword SET as a list of distinct strings',
    'IEEE rounding of einsum/arithmetics is bounded by rtol 1e-9 (1e-9*cond where an inverse is involved); entries '
    'whose exact value lies within a factor (1 +- 1e-6) of a clean-up threshold (|C/Cmax| = 1e-9 or tol) are exempt',
    'numpy einsum computes the contraction its subscripts denote; np.isclose(a,b) is |a-b| <= atol + rtol*|b|',
]
TRUSTED = ['numpy (einsum, linalg.inv/norm, isclose/allclose)', 'fractions.Fraction oracle in search()',
           'symbolic executor for kwargs dispatch in harness/props/c11.py',
           'symbolic 3x3-array evaluator for tools/axes_check.py and the if/elif chain parser for __init__ in '
           'harness/props/c11.py (numpy broadcasting of matrix / vector, np.dot, np.cross as written there)']


def _np():
    import numpy as np
    return np


def _errclass(e):
    np = _np()
    if isinstance(e, AssertionError):
        return 'err:assert'
    if isinstance(e, TypeError):
        return 'err:type'
    if isinstance(e, ValueError):       # includes numpy.linalg.LinAlgError
        return 'err:value'
    return 'err:other:' + type(e).__name__


def _call(f, *a, **k):
    np = _np()
    try:
        with np.errstate(all='ignore'):
            return f(*a, **k), None
    except Exception as e:  # noqa
        return None, _errclass(e)


def _spd_dyadic(rng, bits=3, scale=1.0):
    """symmetric, strictly diagonally dominant with positive diagonal (hence SPD), entries multiples of 2^-bits"""
    np = _np()
    n = 6
    A = [[0.0] * n for _ in range(n)]
    for i in range(n):
        for j in range(i):
            v = cm.dyadic(rng, -2, 2, bits) if rng.random() < 0.8 else 0.0
            A[i][j] = A[j][i] = v
    for i in range(n):
        A[i][i] = sum(abs(x) for x in A[i]) + cm.dyadic(rng, 0.5, 6, bits)
    return np.array(A) * scale


def _spd_float(rng, scale=1.0):
    np = _np()
    while True:
        G = np.array([[rng.gauss(0, 1) for _ in range(6)] for _ in range(6)])
        C = G @ G.T + 3.0 * np.eye(6)
        if np.linalg.cond(C) < 60:
            return C * scale


def _signed_perms():
    """the 24 proper rotations with entries 0, +-1"""
    np = _np()
    out = []
    for p in itertools.permutations(range(3)):
        for s in itertools.product([1.0, -1.0], repeat=3):
            M = np.zeros((3, 3))
            for i in range(3):
                M[i, p[i]] = s[i]
            if round(np.linalg.det(M)) == 1:
                out.append(M)
    return out


def _quat_rot(rng):
    """exactly orthogonal rational rotation from an integer quaternion"""
    np = _np()
    while True:
        a, b, c, d = (rng.randint(-4, 4) for _ in range(4))
        n = a * a + b * b + c * c + d * d
        if n and (b or c or d):
            break
    R = [[a * a + b * b - c * c - d * d, 2 * (b * c - a * d), 2 * (b * d + a * c)],
         [2 * (b * c + a * d), a * a - b * b + c * c - d * d, 2 * (c * d - a * b)],
         [2 * (b * d - a * c), 2 * (c * d + a * b), a * a - b * b - c * c + d * d]]
    return np.array(R, dtype=float) / n, [[Fraction(x, n) for x in r] for r in R]


def _vals(line):
    return [Fraction(t) for t in line.split()]


class _Cmp:
    """entrywise comparison impl (floats) vs model (Fractions) with a clean-up-threshold exemption"""

    def __init__(self, rtol=1e-9, atol_rel=1e-13, thresh=None):
        self.rtol, self.atol_rel, self.thresh = rtol, atol_rel, thresh

    def __call__(self, impl, model):
        impl = [float(x) for x in impl]
        if len(impl) != len(model):
            return False
        mx = max([abs(float(m)) for m in model] + [abs(x) for x in impl] + [0.0])
        for a, m in zip(impl, model):
            mf = float(m)
            if abs(a - mf) <= self.rtol * abs(mf) + self.atol_rel * mx:
                continue
            if self.thresh is not None and (a == 0.0 or mf == 0.0) and abs(a - mf) <= self.thresh * mx * (1 + 1e-6):
                continue     # one side cleaned an entry sitting at the threshold
            return False
        return True


def _exact(impl, model):
    impl = list(impl)
    return len(impl) == len(model) and all(Fraction(float(a)) == m for a, m in zip(impl, model))


class _Batch:
    def __init__(self, ctx):
        self.ctx = ctx
        self.items = []

    def add(self, kind, line, impl, err, cmp, info, nontrivial=True, strip_ok=True):
        self.ctx.stats.case(kind, line, nontrivial=nontrivial and err is None,
                            sample={'op': kind, **info} if info is not None else None)
        self.items.append((kind, line, impl, err, cmp, info, strip_ok))

    def run(self):
        np = _np()
        outs = self.ctx.driver.ask_many([it[1] for it in self.items])
        for (kind, line, impl, err, cmp, info, strip_ok), out in zip(self.items, outs):
            rep = {'op': kind, 'line': line if len(line) < 4000 else line[:4000] + '…', 'input': info}
            if err is not None or out.startswith('err:'):
                if err != out:
                    self.ctx.disagree(kind, f'{kind}: implementation {"raised " + err if err else "returned a value"}, '
                                      f'model {out[:60]}', {**rep, 'impl': err or _tolist(impl), 'model': out[:200]})
                continue
            body = out[3:] if (strip_ok and out.startswith('ok ')) else ('' if out == 'ok' else out)
            model = _vals(body)
            flat = np.asarray(impl, dtype=float).ravel().tolist()
            if not cmp(flat, model):
                d = max((abs(a - float(m)) for a, m in zip(flat, model)), default=float('nan'))
                self.ctx.disagree(kind, f'{kind}: implementation and model differ (max abs diff {d:.3e})',
                                  {**rep, 'impl': flat, 'model': [str(m) for m in model][:90]})
        self.items = []


def _tolist(x):
    np = _np()
    try:
        return np.asarray(x, dtype=float).ravel().tolist()
    except Exception:  # noqa
        return repr(x)[:200]


def _basis_matrices():
    np = _np()
    out = []
    for a in range(6):
        for b in range(a, 6):
            M = np.zeros((6, 6))
            M[a, b] = M[b, a] = 1.0 + 0.25 * a + 0.125 * b
            out.append(((a, b), M))
    return out


def _shuffled(rng, d):
    """the same keyword arguments in another order at the call site (keywords are named, not positional)"""
    items = list(d.items())
    rng.shuffle(items)
    return dict(items)


def _sym_consts(rng, keys, dy=True):
    """values for named constants: positive normal constants dominating the shear/cross ones"""
    vals = {}
    keys = list(keys)
    rng.shuffle(keys)
    for k in keys:
        i, j = int(k[1]), int(k[2])
        if i == j:
            vals[k] = cm.dyadic(rng, 4, 12, 3) if dy else rng.uniform(4, 12)
        else:
            vals[k] = cm.dyadic(rng, -1.5, 1.5, 3) if dy else rng.uniform(-1.5, 1.5)
    return vals


def _iso_truth(lam, mu):
    """textbook moduli from Lame constants (Fractions)"""
    lam, mu = Fraction(lam), Fraction(mu)
    return {'C11': lam + 2 * mu, 'M': lam + 2 * mu, 'C12': lam, 'lambda': lam, 'C44': mu, 'mu': mu,
            'E': mu * (3 * lam + 2 * mu) / (lam + mu), 'nu': lam / (2 * (lam + mu)), 'K': lam + Fraction(2, 3) * mu}


def _iso_matrix(lam, mu):
    c11, c12, c44 = lam + 2 * mu, lam, mu
    M = [[0] * 6 for _ in range(6)]
    for i in range(3):
        for j in range(3):
            M[i][j] = c11 if i == j else c12
        M[i + 3][i + 3] = c44
    return M


def _ctor_line(ctx, keys, vals):
    """driver line for ElasticConstants(**vals): the square roots are computed here from the exact radicands"""
    kn = keyname(keys)
    ks = kn.split(',')
    vs = [vals[k] for k in ks]
    roots = []
    if set(ks) & {'E'} and len(ks) == 2:
        r = ctx.driver.ask('radicands ' + kn + ' ' + cm.frs(vs))
        if r.startswith('ok'):
            for t in r.split()[1:]:
                f = Fraction(t)
                roots.append(math.sqrt(f) if f >= 0 else float('nan'))
    if any(isinstance(x, float) and math.isnan(x) for x in roots):
        return None
    return f'ctor {kn} {len(vs)} ' + cm.frs(vs) + (' ' + cm.frs(roots) if roots else '')


def correspond(ctx):
    np = _np()
    import atomman as am
    EC = am.ElasticConstants
    rng = ctx.rng
    B = _Batch(ctx)
    infos, iso_infos = _infos()

    # ---- 1. index probing with the 21 symmetric basis matrices (exact) --------------------------
    for (a, b), M in _basis_matrices():
        line = cm.frs(M)
        ec = EC(Cij=M)
        B.add('basis:cij9', 'cij9 ' + line, ec.Cij9, None, _exact, {'ab': [a, b]})
        B.add('basis:cijkl', 'cijkl ' + line, ec.Cijkl, None, _exact, {'ab': [a, b]})
        W = 8.0 * np.eye(6) + M
        ecw = EC(Cij=W)
        r, e = _call(lambda: ecw.Sijkl)
        B.add('basis:sijkl', 'sijkl ' + cm.frs(W), r, e, _Cmp(1e-11), {'ab': [a, b]})
    B.run()

    # ---- 2. getters / round trips on random SPD matrices ----------------------------------------
    mats = []
    for it in range(ctx.n(60, 600)):
        sc = rng.choice([1.0, 1.0, 16.0, 2.0 ** -6, 1e3, 160.2176621])
        if it % 3 == 2:
            mats.append(('float', _spd_float(rng, sc)))
        else:
            mats.append(('dyadic', _spd_dyadic(rng, 3, sc if sc in (1.0, 16.0, 2.0 ** -6) else 1.0)))
    for kind, C in mats:
        line = cm.frs(C)
        ec = EC(Cij=C)
        cond = float(np.linalg.cond(C))
        info = {'Cij': C.tolist()}
        B.add('setcij', 'setcij ' + line, ec.Cij, None, _exact, info)
        B.add('cij9', 'cij9 ' + line, ec.Cij9, None, _exact, info)
        B.add('cijkl', 'cijkl ' + line, ec.Cijkl, None, _exact, info)
        B.add('sij', 'sij ' + line, ec.Sij, None, _Cmp(1e-11 * cond), info)
        B.add('sijkl', 'sijkl ' + line, ec.Sijkl, None, _Cmp(1e-11 * cond), info)
        # setters fed with the getters' output
        for nm, arr, op in (('Cij9', ec.Cij9, 'setcij9'), ('Cijkl', ec.Cijkl, 'setcijkl')):
            r, e = _call(lambda: EC(**{nm: arr}).Cij)
            B.add(op, op + ' ' + cm.frs(arr), r, e, _exact, info)
        S4 = ec.Sijkl
        r, e = _call(lambda: EC(Sijkl=S4).Cij)
        B.add('setsijkl', 'setsijkl ' + cm.frs(S4), r, e, _Cmp(1e-10 * cond, thresh=1e-9), info)
        Sm = ec.Sij
        r, e = _call(lambda: EC(Sij=Sm).Cij)
        B.add('setsij', 'setsij ' + cm.frs(Sm), r, e, _Cmp(1e-10 * cond, thresh=1e-9), info)
    B.run()

    # ---- 3. setters: clean-up thresholds, asymmetric input, equality assertions ------------------
    for it in range(ctx.n(80, 800)):
        C = _spd_dyadic(rng, 3)
        mx = C.max()
        V = C.copy()
        kind = it % 8
        a, b = rng.sample(range(6), 2)
        if kind == 0:      # tiny symmetric entry below / above the zeroing threshold
            f = rng.choice([0.4e-9, 0.9e-9, 1.1e-9, 3e-9])
            V[a, b] = V[b, a] = f * mx
        elif kind == 1:    # asymmetry inside / outside isclose(atol=1e-9, rtol=1e-5)
            V[a, b] = V[b, a] + rng.choice([0.5e-9, 2e-9, 0.5e-5 * abs(V[b, a]), 3e-5 * abs(V[b, a]) + 2e-9, 0.25])
        elif kind == 2:    # non-positive maximum
            V = -C if rng.random() < 0.5 else np.zeros((6, 6))
        elif kind == 3:    # negative tiny entries
            V[a, b] = V[b, a] = -rng.choice([0.5e-9, 2e-9]) * mx
        if kind <= 3:
            r, e = _call(lambda: EC(Cij=V.copy()).Cij)
            B.add('setcij:edge', 'setcij ' + cm.frs(V), r, e, _exact, {'Cij': V.tolist(), 'kind': kind},
                  nontrivial=True)
            continue
        ec = EC(Cij=C)
        if kind == 4:      # Cijkl with one entry off by a fraction of the isclose tolerance
            T = ec.Cijkl
            idx = tuple(rng.randrange(3) for _ in range(4))
            T[idx] += rng.choice([0.0, 0.3e-8, 0.3e-5 * abs(T[idx]), 4e-5 * abs(T[idx]) + 4e-8, 0.5])
            r, e = _call(lambda: EC(Cijkl=T.copy()).Cij)
            B.add('setcijkl:edge', 'setcijkl ' + cm.frs(T), r, e, _exact, {'Cijkl': T.ravel().tolist()})
        elif kind == 5:    # Cij9 with one mismatching duplicate
            T = ec.Cij9
            if rng.random() < 0.7:
                i, j = rng.randrange(9), rng.randrange(9)
                T[i, j] += rng.choice([2.0 ** -20, 1.0])
            r, e = _call(lambda: EC(Cij9=T.copy()).Cij)
            B.add('setcij9:edge', 'setcij9 ' + cm.frs(T), r, e, _exact, {'Cij9': T.ravel().tolist()})
        elif kind == 6:    # Sijkl with asymmetric perturbation
            cond = float(np.linalg.cond(C))
            T = ec.Sijkl
            idx = tuple(rng.randrange(3) for _ in range(4))
            T[idx] += rng.choice([0.3e-8, 0.5, 4e-5 * abs(T[idx]) + 4e-8])
            r, e = _call(lambda: EC(Sijkl=T.copy()).Cij)
            B.add('setsijkl:edge', 'setsijkl ' + cm.frs(T), r, e, _Cmp(1e-10 * cond, thresh=1e-9),
                  {'Sijkl': T.ravel().tolist()})
        else:              # singular compliance
            Z = np.zeros((6, 6))
            Z[:3, :3] = 1.0
            r, e = _call(lambda: EC(Sij=Z).Cij)
            B.add('setsij:singular', 'setsij ' + cm.frs(Z), r, e, _exact, {'Sij': Z.tolist()}, nontrivial=False)
    B.run()

    # ---- 3a. __init__ routing (generated chain): a probe subclass records which setter / method __init__ enters -----
    named_methods = ['isotropic', 'cubic', 'hexagonal', 'tetragonal', 'rhombohedral', 'orthorhombic', 'monoclinic',
                     'triclinic', 'model']

    class Probe(EC):
        pass

    def _mk_method(m):
        def f(self, **kw):
            self.__dict__.setdefault('_log', []).append('call ' + m)
        return f

    def _mk_setter(k):
        def f(self, v):
            self.__dict__.setdefault('_log', []).append('set ' + k)
        return f
    for m_ in named_methods:
        setattr(Probe, m_, _mk_method(m_))
    for k_ in MATRIX_KEYS[:5]:
        setattr(Probe, k_, property(getattr(EC, k_).fget, _mk_setter(k_)))
    pool = CIJ_KEYS + ['M', 'lambda', 'mu', 'E', 'nu', 'K']
    for it in range(ctx.n(150, 1500)):
        n_ = [0, 1, 2, 3, 4, 5, 6, 7, 8, 9, 10, 12, 13, 14, 20, 21, 22][it % 17] if it % 3 else rng.randint(0, 24)
        keys = rng.sample(pool + _TYPOS[:4], min(n_, len(pool) + 4))
        r_ = rng.random()
        if r_ < 0.25:
            keys = rng.sample(MATRIX_KEYS[:5], rng.choice([1, 1, 2])) + (keys if rng.random() < 0.7 else [])
        elif r_ < 0.32:
            keys = keys + ['model']
        elif r_ < 0.37:
            keys = ['model'] + rng.sample(MATRIX_KEYS[:5], 1) + keys[:2]
        rng.shuffle(keys)
        p_, e = _call(lambda: Probe(**{k: 1.0 for k in keys}))
        if e is None:
            log = p_.__dict__.get('_log', [])
            obs = log[0] if len(log) == 1 else ('zeros' if not log and not p_.Cij.any() else 'log:' + ';'.join(log))
        else:
            obs = {'err:assert': 'assert', 'err:type': 'raise TypeError', 'err:value': 'raise ValueError'}.get(e, e)
        out = ctx.driver.ask('initroute ' + ' '.join(keys))
        ctx.stats.case('initroute', tuple(sorted(keys)), sample={'op': 'initroute', 'keys': keys} if it < 3 else None)
        if out != obs:
            ctx.disagree('initroute', f'__init__({sorted(keys)}): implementation {obs!r}, model {out!r}',
                         {'op': 'initroute', 'keys': keys, 'impl': obs, 'model': out})

    # ---- 3b. tools.axes_check on its own (generated model): rows of every length, tilted, left-handed; tol forms ---
    from atomman.tools import axes_check
    for it in range(ctx.n(60, 600)):
        label, A = _any_length_axes(rng, it % 7)
        what = it % 5
        tol = [None, None, 1e-3, 1e-12, 1e-5, 0.25][rng.randrange(6)]
        t = 1e-8 if tol is None else tol
        if what == 3:      # tilted by 0.3 tol (accepted) / 3 tol (refused): decided away from the threshold
            k0, k1 = rng.sample(range(3), 2)
            fac = rng.choice([0.3, 3.0])
            if t * fac > 1e-15:
                A = A.copy()
                A[k0] = A[k0] + t * fac * A[k1] * (np.linalg.norm(A[k0]) / np.linalg.norm(A[k1]))
                label += f'+tilt {fac} tol'
        elif what == 4:    # left-handed
            A = A.copy()
            if rng.random() < 0.5:
                k_ = rng.randrange(3)
                A[k_] = -A[k_]
            else:
                k_ = rng.randrange(3)
                A[[k_, (k_ + 1) % 3]] = A[[(k_ + 1) % 3, k_]]
            label += '+left-handed'
        line = 'axescheck ' + cm.frs(A) + ' ' + cm.frs(np.linalg.norm(A, axis=1)) + ('' if tol is None else ' ' + cm.fr(tol))
        how = rng.randrange(2)
        r, e = _call(lambda: axes_check(A) if tol is None else axes_check(A, tol) if how else axes_check(A, tol=tol))
        B.add('axescheck:' + label.split('-')[0].split('+')[0], line, r, e, _Cmp(1e-14, atol_rel=4e-16),
              {'axes': A.tolist(), 'tol': tol, 'lengths': label})
    B.run()

    # ---- 4. transform --------------------------------------------------------------------------
    sp = _signed_perms()
    ntr = ctx.n(98, 900)
    for it in range(ntr):
        dy = it % 3 != 2
        C = _spd_dyadic(rng, 2) if dy else _spd_float(rng, rng.choice([1.0, 160.2176621]))
        ec = EC(Cij=C)
        mode = it % 7
        exact = False
        if mode in (0, 1):
            R = sp[rng.randrange(len(sp))]
            exact = dy
        elif mode in (2, 3):
            R, _ = _quat_rot(rng)
        elif mode == 4:    # axes are directions: rows of any length, far from / a hair off 1, typed decimals
            if (it // 7) % 4 == 0:
                R0, _ = _quat_rot(rng)
                R = R0 * np.array([[rng.choice([1.0, 2.0, 0.5, 3.0])] for _ in range(3)])
            else:
                R = _any_length_axes(rng, (it // 7) % 7)[1]
        elif mode == 5:    # left-handed / non-orthogonal
            R0, _ = _quat_rot(rng)
            R = R0.copy()
            flip = rng.randrange(3)
            if flip == 0:
                k_ = rng.randrange(3)
                R[k_] = -R[k_]                    # improper: any one row negated
            elif flip == 1:
                k_ = rng.randrange(3)
                R[[k_, (k_ + 1) % 3]] = R[[(k_ + 1) % 3, k_]]        # improper: two rows exchanged
            else:
                R[0] = R[0] + rng.choice([1e-9, 1e-7, 1e-3]) * R[1]
        else:              # composition of two rotations, model fed with its own intermediate result
            R, _ = _quat_rot(rng)
        norms = np.linalg.norm(R, axis=1)
        info = {'Cij': C.tolist(), 'axes': R.tolist()}
        line = 'transform ' + cm.frs(C) + ' ' + cm.frs(R) + ' ' + cm.frs(norms)
        r, e = _call(lambda: ec.transform(R).Cij)
        cmp = _exact if exact else _Cmp(1e-9, thresh=1e-8)
        B.add('transform:' + ['perm', 'perm', 'quat', 'quat', 'scaled', 'invalid', 'first'][mode], line, r, e, cmp, info)
        if mode == 6 and e is None:
            out = ctx.driver.ask(line)
            if out.startswith('ok '):
                R2, _ = _quat_rot(rng)
                n2 = np.linalg.norm(R2, axis=1)
                r2, e2 = _call(lambda: ec.transform(R).transform(R2).Cij)
                B.add('transform:second', 'transform ' + out[3:] + ' ' + cm.frs(R2) + ' ' + cm.frs(n2), r2, e2,
                      _Cmp(1e-9, thresh=3e-8), {**info, 'axes2': R2.tolist()})
        if it % 9 == 0:    # entries around the clean-up thresholds under an exact (signed-permutation) rotation
            Ct = C.copy()
            mxv = Ct.max()
            a_, b_ = rng.sample(range(6), 2)
            Ct[a_, b_] = Ct[b_, a_] = rng.choice([0.4e-8, 0.9e-8, 1.2e-8, 3e-8, 0.5e-9, 2e-9, -0.9e-8, -2e-8]) * mxv
            Rp = sp[rng.randrange(len(sp))]
            ect, et = _call(lambda: EC(Cij=Ct.copy()))
            if et is None:
                r, e = _call(lambda: ect.transform(Rp).Cij)
                B.add('transform:threshold', 'transform ' + cm.frs(Ct) + ' ' + cm.frs(Rp) + ' 1 1 1', r, e, _exact,
                      {'Cij': Ct.tolist(), 'axes': Rp.tolist()})
        if it % 5 == 0:    # explicit tol: keyword / positional, zero included
            tol = rng.choice([1e-3, 0.25, 1e-12, 0.0, 0])
            r, e = _call(lambda: (ec.transform(R, tol=tol) if it % 10 else ec.transform(R, tol)).Cij)
            B.add('transform:tol', line + ' ' + cm.fr(tol), r, e, _Cmp(1e-9, thresh=max(tol, 1e-8)),
                  {**info, 'tol': tol})
    B.run()

    # ---- 5. constructors from named constants ---------------------------------------------------
    for rep in range(ctx.n(4, 40)):
        for info in infos:
            ks = info['keys']
            dy = rep % 2 == 0
            vals = _sym_consts(rng, ks, dy) if all(k in CIJ_KEYS for k in ks) else {k: 1.0 + i for i, k in enumerate(ks)}
            if 'C66' in ks and {'C11', 'C12'} <= set(ks) and 'C16' not in ks and info['nasserts']:
                # redundant C66: consistent / within isclose / inconsistent
                c66 = (vals['C11'] - vals['C12']) / 2
                vals['C66'] = c66 + rng.choice([0.0, 0.0, 1e-7 * abs(c66), 1e-3, 0.5])
            if rep % 4 == 3 and info['status'] == 'ok':
                vals = {k: -abs(v) for k, v in vals.items()}       # Cij setter must refuse (max <= 0)
            if rep % 4 == 1:                                       # optional / coupling constants given as zero
                vals = {k: (0.0 if (k in CIJ_KEYS and k[1] != k[2] and int(k[2]) > 3) else v) for k, v in vals.items()}
            r, e = _call(lambda: EC(**vals).Cij)
            line = _ctor_line(ctx, ks, vals)
            B.add('ctor:' + (info['route'][-1] if info['status'] == 'ok' else 'raises'), line, r, e,
                  _exact if dy else _Cmp(1e-12), {'kwargs': vals}, nontrivial=info['status'] == 'ok')
    for rep in range(ctx.n(6, 60)):
        lam = Fraction(rng.randint(0, 40), 8)
        mu = Fraction(rng.randint(1, 40), 8)
        if rep % 4 == 3:
            lam, mu = Fraction(rng.uniform(0.05, 9.0)), Fraction(rng.uniform(0.5, 9.0))
        tr = _iso_truth(lam, mu)
        for info in iso_infos:
            ks = info['keys']
            if info['status'] == 'ok' and lam == 0 and ('nu' in ks and ({'C12', 'lambda'} & set(ks))):
                continue    # (lambda, nu) = (0, 0) does not determine the material
            vals = _shuffled(rng, {k: float(tr[k]) for k in ks})
            r, e = _call(lambda: EC(**vals).Cij)
            line = _ctor_line(ctx, ks, vals)
            if line is None:
                continue
            B.add('ctor:iso' if info['status'] == 'ok' else 'ctor:iso-raises', line, r, e, _Cmp(1e-7),
                  {'kwargs': vals, 'lambda': str(lam), 'mu': str(mu)}, nontrivial=info['status'] == 'ok')
    B.run()

    # ---- 6. normalized_as / is_normal / estimates ------------------------------------------------
    for it in range(ctx.n(30, 300)):
        C = _spd_dyadic(rng, 3) if it % 2 == 0 else _spd_float(rng, rng.choice([1.0, 160.2176621]))
        ec = EC(Cij=C)
        line = cm.frs(C)
        cond = float(np.linalg.cond(C))
        info = {'Cij': C.tolist()}
        for sysname in SYSTEMS + ['nonsense', 'Cubic']:
            r, e = _call(lambda: ec.normalized_as(sysname).Cij)
            B.add('normalized:' + sysname, f'normalized {sysname} ' + line, r, e,
                  _Cmp(1e-11 * (cond if sysname == 'isotropic' else 1.0), thresh=1e-9), info)
            if sysname in SYSTEMS:
                for rt, at in ((1e-4, 1e-4), (0.5, 0.25)):
                    r, e = _call(lambda: [1.0 if (ec.is_normal(sysname, atol=at, rtol=rt) if it % 2 else
                                                  ec.is_normal(sysname, at, rt)) else 0.0])
                    B.add('is_normal', f'isnormal {sysname} {line} {cm.fr(rt)} {cm.fr(at)}', r, e, _exact, info,
                          strip_ok=False)
        for which in ('bulk', 'shear'):
            for style in ('Hill', 'Voigt', 'Reuss', 'Other'):
                r, e = _call(lambda: [getattr(ec, which)(style)])
                B.add(f'{which}:{style}', f'estimate {which} {style} ' + line, r, e,
                      _Cmp(1e-12 * (1.0 if style == 'Voigt' else cond)), info, strip_ok=False)
    B.run()


    # ---- 7. unit systems / weak anisotropy / small rotations (the model is exact at every scale) ------
    kinds = ['isotropic', 'cubic', 'hexagonal', 'tetragonal', 'rhombohedral', 'orthorhombic']
    for it in range(ctx.n(60, 700)):
        ex = SCALE_EXPS[(it // 2) % len(SCALE_EXPS)] if it % 2 == 0 else rng.choice([0, 0, 7, -7])
        if it % 10 == 9:
            ex = rng.choice(BIG_EXPS)
        if it % 3 == 0:
            C, what = _spd_dyadic(rng, 2), 'spd'
        elif it % 3 == 1 and (it // 3) % 2 == 0:
            C, what = _near_symmetric(rng, kinds[it % len(kinds)], 0, dy=True), 'exact-' + kinds[it % len(kinds)]
        else:
            C = _near_symmetric(rng, kinds[it % len(kinds)], ANISO[(it // 3) % len(ANISO)], dy=True)
            what = 'near-' + kinds[it % len(kinds)]
        C = C * 2.0 ** ex
        ec, e0 = _call(lambda: EC(Cij=C.copy()))
        if e0 is not None:
            B.add('scale:ctor', 'setcij ' + cm.frs(C), None, e0, _exact, {'Cij': C.tolist()})
            continue
        info = {'Cij': C.tolist(), 'scale_exp': ex, 'what': what}
        mode = it % 4
        if mode in (0, 1):
            R, cmp = sp[rng.randrange(len(sp))], _exact
        elif mode == 2:
            R, cmp = _quat_rot(rng)[0], _Cmp(1e-9, thresh=1e-8)
        else:
            R, cmp = _small_rotation(rng, 10.0 ** rng.uniform(-7, -2)), _Cmp(1e-9, thresh=1e-8)
        norms = np.linalg.norm(R, axis=1)
        r, e = _call(lambda: ec.transform(R).Cij)
        B.add('transform:scale:' + ['perm', 'perm', 'quat', 'small-angle'][mode],
              'transform ' + cm.frs(C) + ' ' + cm.frs(R) + ' ' + cm.frs(norms), r, e, cmp, {**info, 'axes': R.tolist()})
        line = cm.frs(C)
        if it % 2 == 0:
            cond = float(np.linalg.cond(C))
            r, e = _call(lambda: ec.Sijkl)
            B.add('sijkl:scale', 'sijkl ' + line, r, e, _Cmp(1e-11 * cond), info)
            S4 = r
            if e is None:
                r, e = _call(lambda: EC(Sijkl=S4).Cij)
                B.add('setsijkl:scale', 'setsijkl ' + cm.frs(S4), r, e, _Cmp(1e-10 * cond, thresh=1e-9), info)
            for sysname in ('isotropic', 'cubic', 'hexagonal', 'monoclinic'):
                r, e = _call(lambda: [1.0 if ec.is_normal(sysname) else 0.0])
                B.add('is_normal:scale', f'isnormal {sysname} {line} {cm.fr(1e-4)} {cm.fr(1e-4)}', r, e, _exact, info,
                      strip_ok=False)
    B.run()

    # ---- 8. one object, sequences of operations (driver op `seq`: the Lean object model) --------------
    for it in range(ctx.n(50, 600)):
        _correspond_sequence(ctx, rng, it)

    # ---- 9. structured tensors: templates in three settings, coincidental ties, block patterns; compliance,
    #         estimates, normalisation and rotations about the principal axes --------------------------------
    pool = _struct_pool(rng, 0, ctx.thorough)
    fams = sorted({p_[1] for p_ in pool})
    per = ctx.n(14, 400)
    chosen = []
    for f in fams:
        members = [p_ for p_ in pool if p_[1] == f]
        chosen += members if len(members) <= per else rng.sample(members, per)
    for label, fam, info0 in chosen:
        ec, e0 = _call(lambda: EC(Cij=np.array(info0['Cij'])) if 'Cij' in info0 else EC(**info0['kwargs']))
        if e0 is not None:
            continue            # (the search reports a refused admissible tensor with its input)
        C = ec.Cij
        line = cm.frs(C)
        cond = float(np.linalg.cond(C))
        info = {'Cij': C.tolist(), 'family': fam, 'what': label}
        r, e = _call(lambda: ec.Sij)
        B.add('struct:sij', 'sij ' + line, r, e, _Cmp(1e-11 * cond), info)
        r, e = _call(lambda: ec.Sijkl)
        B.add('struct:sijkl', 'sijkl ' + line, r, e, _Cmp(1e-11 * cond), info)
        for which in ('bulk', 'shear'):
            for style in ('Voigt', 'Reuss', 'Hill'):
                r, e = _call(lambda: [getattr(ec, which)(style)])
                B.add(f'struct:{which}:{style}', f'estimate {which} {style} ' + line, r, e,
                      _Cmp(1e-12 * (1.0 if style == 'Voigt' else cond)), info, strip_ok=False)
        for sysname in rng.sample(SYSTEMS, 3):
            r, e = _call(lambda: ec.normalized_as(sysname).Cij)
            B.add('struct:normalized:' + sysname, f'normalized {sysname} ' + line, r, e,
                  _Cmp(1e-11 * (cond if sysname == 'isotropic' else 1.0), thresh=1e-9), info)
        axis = rng.randrange(3)
        for lab, R in _axis_rotations(rng, axis, 1, 1):
            norms = np.linalg.norm(R, axis=1)
            r, e = _call(lambda: ec.transform(R).Cij)
            B.add('struct:transform', 'transform ' + line + ' ' + cm.frs(R) + ' ' + cm.frs(norms), r, e,
                  _Cmp(1e-9, thresh=1e-8), {**info, 'axes': R.tolist(), 'rotation': lab})
    B.run()


_SEQ_READS = [('get', 'cij'), ('get', 'sij'), ('get', 'cij9'), ('get', 'cijkl'), ('get', 'sijkl'),
              ('est', 'bulk', 'Voigt'), ('est', 'bulk', 'Reuss'), ('est', 'bulk', 'Hill'), ('est', 'shear', 'Voigt'),
              ('est', 'shear', 'Reuss'), ('est', 'shear', 'Hill'), ('est', 'shear', 'Other')] \
    + [('norm', s) for s in SYSTEMS] + [('isn', s) for s in SYSTEMS] + [('tr',)] * 4


def _correspond_sequence(ctx, rng, it):
    """a random sequence of setters (incl. refused ones and slightly changed values) and reads on ONE real object and
    on the Lean object model (`run`), compared observation by observation."""
    np = _np()
    import atomman as am
    EC = am.ElasticConstants
    ec = EC()
    toks, obs, descr = [], [], []
    exact_state = True
    C = _spd_dyadic(rng, 3) * 2.0 ** rng.choice([0, 0, 0, 10, -10, -33, 33])
    sp = _signed_perms()

    def setter():
        nonlocal C, exact_state
        kind = rng.choice(['cij', 'cij', 'sij', 'cij9', 'cijkl', 'sijkl', 'named', 'bad'])
        how = rng.randrange(4)
        if how == 0:       # slightly different tensor
            a, b = rng.sample(range(6), 2)
            C = C.copy()
            C[a, b] = C[b, a] = C[a, b] + float(C.max()) * 2.0 ** -rng.choice([8, 14, 20, 27])
        elif how == 1:     # another tensor / another unit system
            C = _spd_dyadic(rng, 3) * 2.0 ** rng.choice([0, 3, -17, 20])
        donor = EC(Cij=C.copy())
        if kind == 'bad':
            V = C.copy()
            V[0, 1] += 0.5 * float(C.max())
            f, tk = (lambda: setattr(ec, 'Cij', V)), 'set cij ' + cm.frs(V)
        elif kind == 'named':
            sysname = rng.choice(['cubic', 'hexagonal', 'tetragonal', 'orthorhombic', 'monoclinic'])
            vals = _shuffled(rng, {k: cm.dyadic(rng, 4, 12, 3) if k[1] == k[2] else cm.dyadic(rng, -1.5, 1.5, 3)
                                   for k in SYS_KEYS[sysname]})
            tk = 'set named ' + _ctor_line(ctx, list(vals), vals)[5:]
            f = lambda: ec.__init__(**vals)          # noqa: E731
            Cn, en = _call(lambda: EC(**vals).Cij)
            if en is None:
                C = Cn
        else:
            attr = {'cij': 'Cij', 'sij': 'Sij', 'cij9': 'Cij9', 'cijkl': 'Cijkl', 'sijkl': 'Sijkl'}[kind]
            V = getattr(donor, attr)
            f, tk = (lambda: setattr(ec, attr, V.copy())), f'set {kind} ' + cm.frs(V)
            if kind in ('sij', 'sijkl'):
                exact_state = False
        return f, tk, 'set ' + kind

    def reader():
        op = rng.choice(_SEQ_READS)
        if op[0] == 'get':
            nm = {'cij': 'Cij', 'sij': 'Sij', 'cij9': 'Cij9', 'cijkl': 'Cijkl', 'sijkl': 'Sijkl'}[op[1]]
            return (lambda: getattr(ec, nm)), ' '.join(op), ' '.join(op)
        if op[0] == 'est':
            return (lambda: [getattr(ec, op[1])(op[2])]), ' '.join(op), ' '.join(op)
        if op[0] == 'norm':
            return (lambda: ec.normalized_as(op[1]).Cij), ' '.join(op), ' '.join(op)
        if op[0] == 'isn':
            return (lambda: [1.0 if ec.is_normal(op[1]) else 0.0]), f'isn {op[1]} {cm.fr(1e-4)} {cm.fr(1e-4)}', ' '.join(op)
        R = sp[rng.randrange(len(sp))] if rng.random() < 0.5 else _quat_rot(rng)[0] * rng.choice([1.0, 2.0]) \
            if rng.random() < 0.4 else _any_length_axes(rng)[1]
        return (lambda: ec.transform(R).Cij), 'tr ' + cm.frs(R) + ' ' + cm.frs(np.linalg.norm(R, axis=1)), 'tr'

    nops = rng.randint(4, 10)
    conds = []
    for k in range(nops):
        f, tk, d = setter() if (k == 0 and rng.random() < 0.9) or (k > 0 and rng.random() < 0.3) else reader()
        r, e = _call(f)
        toks.append(tk)
        descr.append(d)
        obs.append((None if d.startswith('set') else r, e))
        cur = ec.Cij
        conds.append(float(np.linalg.cond(cur)) if np.any(cur) else 1.0)
    line = 'seq ' + ' ; '.join(toks)
    ctx.stats.case('object:sequence', line, sample={'op': 'seq', 'ops': descr})
    out = ctx.driver.ask(line)
    parts = [p.strip() for p in out.split('|')]
    rep = {'op': 'seq', 'ops': descr, 'line': line if len(line) < 6000 else line[:6000] + '…'}
    if len(parts) != nops:
        ctx.disagree('object:sequence', f'model answered {out[:80]!r} to a sequence of {nops} operations', rep)
        return
    for k, ((r, e), part, d) in enumerate(zip(obs, parts, descr)):
        if e is not None or part.startswith('err:'):
            if e != part:
                ctx.disagree('object:sequence:' + d.split()[0], f'operation {k} ({d}) after {descr[:k]}: implementation '
                             f'{"raised " + e if e else "returned a value"}, model {part[:40]}', rep)
                return
            continue
        if r is None:
            continue
        model = _vals(part[2:].strip())
        flat = np.asarray(r, dtype=float).ravel().tolist()
        cond = max(conds[:k + 1])
        cmp = _exact if (exact_state and d in ('get cij', 'get cij9', 'get cijkl')) else _Cmp(1e-9 * cond, thresh=1e-8)
        if d.startswith('isn'):
            cmp = _exact
        if not cmp(flat, model):
            dmax = max((abs(a - float(m)) for a, m in zip(flat, model)), default=float('nan'))
            ctx.disagree('object:sequence:' + d.split()[0], f'operation {k} ({d}) after {descr[:k]} on one object differs '
                         f'from the model (max abs diff {dmax:.3e})', {**rep, 'impl': flat[:40], 'model': [str(m) for m in model][:40]})
            return


_CACHE = {}


def _translate_all_cached():
    if 'v' not in _CACHE:
        _CACHE['v'] = _translate_all()
    return _CACHE['v']


# ----------------------------------------------------------------------------------------
# search: the property's clauses evaluated on the REAL class with an independent exact oracle.
# Nothing below uses the Lean model or the generated tables: the Voigt map, the compliance weights, the tensor
# rotation and the textbook isotropic relations are written out again here over fractions.Fraction.
# ----------------------------------------------------------------------------------------
_VOIGT = {(0, 0): 0, (1, 1): 1, (2, 2): 2, (1, 2): 3, (2, 1): 3, (0, 2): 4, (2, 0): 4, (0, 1): 5, (1, 0): 5}
_IDX3 = list(itertools.product(range(3), repeat=2))
_IDX4 = list(itertools.product(range(3), repeat=4))


def _F(a):
    np = _np()
    return [Fraction(float(x)) for x in np.asarray(a, dtype=float).ravel()]


def _rot4(T, C4):
    """C'_ijkl = T_ig T_jh T_km T_ln C_ghmn over Fractions; C4 flat row-major list of 81, T 3x3 of Fractions"""
    def contract(X, slot):
        out = [Fraction(0)] * 81
        for idx in _IDX4:
            s = Fraction(0)
            for g in range(3):
                src = list(idx)
                src[slot] = g
                s += T[idx[slot]][g] * X[27 * src[0] + 9 * src[1] + 3 * src[2] + src[3]]
            out[27 * idx[0] + 9 * idx[1] + 3 * idx[2] + idx[3]] = s
        return out
    X = C4
    for slot in range(4):
        X = contract(X, slot)
    return X


def _energy(C4, eps):
    return sum(eps[i][j] * C4[27 * i + 9 * j + 3 * k + l] * eps[k][l] for i, j, k, l in _IDX4)


def _gen_rotations():
    """(name, system list, float matrix) — generating symmetry rotations of the crystal systems"""
    np = _np()
    s3 = math.sqrt(3.0) / 2

    def rz(c, s):
        return np.array([[c, s, 0.0], [-s, c, 0.0], [0.0, 0.0, 1.0]])
    R4z = rz(0.0, 1.0)
    R4x = np.array([[1.0, 0, 0], [0, 0, 1.0], [0, -1.0, 0]])
    R4y = np.array([[0, 0, -1.0], [0, 1.0, 0], [1.0, 0, 0]])
    R3d = np.array([[0, 1.0, 0], [0, 0, 1.0], [1.0, 0, 0]])
    R2x = np.diag([1.0, -1.0, -1.0])
    R2y = np.diag([-1.0, 1.0, -1.0])
    R2z = np.diag([-1.0, -1.0, 1.0])
    R3z = rz(-0.5, s3)
    return {'R4z': R4z, 'R4x': R4x, 'R4y': R4y, 'R3[111]': R3d, 'R2x': R2x, 'R2y': R2y, 'R2z': R2z, 'R3z': R3z,
            'R3z^-1': rz(-0.5, -s3), 'R6z': rz(0.5, s3), 'rz': None}


SYS_KEYS = {
    'cubic': ['C11', 'C12', 'C44'],
    'hexagonal': ['C11', 'C12', 'C13', 'C33', 'C44'],
    'tetragonal': ['C11', 'C12', 'C13', 'C16', 'C33', 'C44', 'C66'],
    'tetragonal6': ['C11', 'C12', 'C13', 'C33', 'C44', 'C66'],
    'rhombohedral': ['C11', 'C12', 'C13', 'C14', 'C15', 'C33', 'C44'],
    'rhombohedral6': ['C11', 'C12', 'C13', 'C14', 'C33', 'C44'],
    'orthorhombic': ['C11', 'C12', 'C13', 'C22', 'C23', 'C33', 'C44', 'C55', 'C66'],
    'monoclinic': ['C11', 'C12', 'C13', 'C15', 'C22', 'C23', 'C25', 'C33', 'C35', 'C44', 'C46', 'C55', 'C66'],
}
SYS_ROTS = {
    'cubic': ['R4z', 'R4x', 'R4y', 'R3[111]', 'R2x'],
    'hexagonal': ['R6z', 'R3z', 'R4z', 'R2x', 'rz'],
    'tetragonal': ['R4z', 'R2z'],
    'tetragonal6': ['R4z', 'R2x', 'R2y'],
    'rhombohedral': ['R3z', 'R3z^-1'],
    'rhombohedral6': ['R3z', 'R2x'],
    'orthorhombic': ['R2x', 'R2y', 'R2z'],
    'monoclinic': ['R2y'],
}


def _where(tb):
    import traceback
    fr = [f for f in traceback.extract_tb(tb) if 'atomman' in f.filename and 'harness' not in f.filename]
    return f' at {fr[-1].filename.split("atomman/", 1)[-1]}:{fr[-1].lineno} in {fr[-1].name}' if fr else ''


def _clause(op):
    """an exception escaping a clause evaluation comes from the implementation (the harness is quiet on the unchanged
    tree): it is reported as an observation with the input at hand, never a harness crash"""
    def deco(f):
        import functools

        @functools.wraps(f)
        def g(ctx, *a, **k):
            try:
                return f(ctx, *a, **k)
            except cm.InfraError:
                raise
            except Exception as e:  # noqa
                info = next((x for x in list(a) + list(k.values()) if isinstance(x, dict)), {})
                tag = next((x for x in reversed(a) if isinstance(x, str)), op)
                ctx.violate(f'raises:{op}', f'{tag}: evaluating the {op} clauses raised {type(e).__name__}: {e}'
                            + _where(e.__traceback__), {'op': op, **info})
        return g
    return deco


def _new(ctx, info, tag, **kw):
    """ElasticConstants(**kw) for an admissible input; a refusal is a violation with the input, not a crash"""
    import atomman as am
    try:
        return am.ElasticConstants(**kw)
    except Exception as e:  # noqa
        ctx.violate('ctor:raises', f'{tag}: ElasticConstants({", ".join(kw)}=...) raised {type(e).__name__}: {e}'
                    + _where(e.__traceback__), {'op': 'representations', **info})
        return None


@_clause('representations')
def _check_tensor_clauses(ctx, ec, info, tag):
    """representations of ONE object: index symmetries, round trips, C:S = symmetric identity."""
    np = _np()
    import atomman as am
    c = ec.Cij
    C4, C9 = ec.Cijkl, ec.Cij9
    ctx.stats.case('oracle:representations', (tag, cm.frs(c)))
    bad = []
    # a matrix that came in through Cij / Cij9 / Cijkl / named constants is stored exactly symmetric; one that was
    # obtained by a float inversion (Sij=, Sijkl=) is symmetric up to the rounding of that inversion only
    sym_exact = bool(np.array_equal(c, c.T))
    sym_tol = 0.0 if sym_exact else 1e-13 * float(np.linalg.cond(c)) * float(np.abs(c).max())
    for i, j, k, l in _IDX4:
        want = c[_VOIGT[i, j], _VOIGT[k, l]]
        if C4[i, j, k, l] != want:
            bad.append(f'Cijkl[{i},{j},{k},{l}]={C4[i, j, k, l]} but Cij[{_VOIGT[i, j]},{_VOIGT[k, l]}]={want}')
        if C4[i, j, k, l] != C4[j, i, k, l] or C4[i, j, k, l] != C4[i, j, l, k]:
            bad.append(f'minor symmetry fails at {i}{j}{k}{l}')
        if C4[i, j, k, l] != C4[k, l, i, j] and (sym_exact or abs(C4[i, j, k, l] - C4[k, l, i, j]) > sym_tol):
            bad.append(f'major symmetry fails at {i}{j}{k}{l}')
    nine = [(0, 0), (1, 1), (2, 2), (1, 2), (0, 2), (0, 1), (2, 1), (2, 0), (1, 0)]
    for p, (i, j) in enumerate(nine):
        for q, (k, l) in enumerate(nine):
            if C9[p, q] != C4[i, j, k, l]:
                bad.append(f'Cij9[{p},{q}] != Cijkl[{i},{j},{k},{l}]')
    if bad:
        ctx.violate('representation:index', f'{tag}: ' + '; '.join(bad[:3]), {**info, 'op': 'representations'})
    for nm, arr in (('Cijkl', C4), ('Cij9', C9)):
        r, e = _call(lambda: am.ElasticConstants(**{nm: arr}).Cij)
        if e is not None or not np.array_equal(r, c):
            ctx.violate(f'roundtrip:{nm}', f'{tag}: ElasticConstants({nm}=ec.{nm}).Cij != ec.Cij ({e})',
                        {**info, 'op': 'representations'})
    cond = float(np.linalg.cond(c))
    # getters are pure: a second call returns the same arrays and the stored matrix is untouched
    for nm in ('Cijkl', 'Cij9', 'Sij', 'Sijkl', 'Cij'):
        if cond >= 1e6 and nm.startswith('S'):
            continue
        a1, a2 = getattr(ec, nm), getattr(ec, nm)
        if not np.array_equal(a1, a2) or not np.array_equal(ec.Cij, c):
            ctx.violate(f'getter:impure:{nm}', f'{tag}: two successive reads of .{nm} differ (or change .Cij)',
                        {**info, 'op': 'representations'})
    if cond < 1e6:
        S4 = ec.Sijkl
        mx = float(np.abs(c).max())
        # stiffness : compliance = symmetric identity (exact sums of the float outputs)
        Fc, Fs = _F(C4), _F(S4)
        worst = 0.0
        for i, j, m, n in _IDX4:
            s = sum(Fc[27 * i + 9 * j + 3 * k + l] * Fs[27 * k + 9 * l + 3 * m + n] for k, l in _IDX3)
            want = Fraction((i == m) * (j == n) + (i == n) * (j == m), 2)
            worst = max(worst, abs(float(s - want)))
        if worst > 1e-12 * cond * 10:
            ctx.violate('contraction:CS', f'{tag}: Cijkl:Sijkl differs from the symmetric identity by {worst:.3e} '
                        f'(cond {cond:.1f})', {**info, 'op': 'representations'})
        for nm, arr in (('Sijkl', S4), ('Sij', ec.Sij)):
            r, e = _call(lambda: am.ElasticConstants(**{nm: arr}).Cij)
            if e is not None or not np.allclose(r, c, rtol=1e-10 * cond, atol=2e-9 * mx):
                ctx.violate(f'roundtrip:{nm}', f'{tag}: ElasticConstants({nm}=ec.{nm}).Cij != ec.Cij ({e})',
                            {**info, 'op': 'representations'})


def _rot_tol(mx):
    # each transform() zeroes entries below 1e-8*max, the Cij setter below 1e-9*max
    return 2.5e-8 * mx


# ---- axes are DIRECTIONS: lengths of the axis vectors at every scale -----------------------------------------
# (round 5: a tester skipped the normalisation in axes_check "when the rows are unit vectors already", decided with
#  np.allclose's default rtol 1e-5: typed decimals such as 0.707107 and rotation matrices a few ppm off unit length
#  were then used as they are.  Every generator that hands axes to transform / axes_check draws the three row lengths
#  from this family: far from 1, a hair off 1 on one / some / all rows with independent signs, equal and unequal.)
HAIRS = [1e-13, 1e-11, 1e-10, 1e-9, 1e-8, 1e-7, 1e-6, 2e-6, 3e-6, 4e-6, 8e-6, 9.9e-6, 1.01e-5, 2e-5, 5e-5, 1e-4, 1e-3,
         1e-2, 0.1]
FARS = [2.0, 0.5, 3.0, 1.0 / 3.0, 7.25, 1e3, 1e-3, 2.0 ** 20, 2.0 ** -20, 1e8, 1e-8]


def _row_lengths(rng, kind=None):
    """(label, [f0, f1, f2]): factors for the three rows of a rotation matrix."""
    kind = rng.randrange(7) if kind is None else kind
    def hair():
        return 1.0 + rng.choice([-1.0, 1.0]) * rng.choice(HAIRS)
    if kind == 0:
        return 'far', [rng.choice(FARS) for _ in range(3)]
    if kind == 1:
        f = rng.choice(FARS)
        return 'far-uniform', [f, f, f]
    if kind == 2:
        return 'hair', [hair() for _ in range(3)]
    if kind == 3:
        f = hair()
        return 'hair-uniform', [f, f, f]
    if kind == 4:
        fs = [1.0, 1.0, 1.0]
        fs[rng.randrange(3)] = hair()
        return 'hair-one-row', fs
    if kind == 5:
        fs = [hair() for _ in range(3)]
        fs[rng.randrange(3)] = rng.choice(FARS)
        return 'hair+far', fs
    h = rng.choice([1e-6, 2e-6, 4e-6, 8e-6])          # all rows within numpy's default rtol of unit length
    return 'hair-ppm', [1.0 + rng.choice([-1.0, 1.0]) * h * rng.uniform(0.3, 1.0) for _ in range(3)]


def _decimal_axes(rng):
    """axes as somebody types them: a rotation about a principal axis with cos / sin rounded to k decimals (rows stay
    exactly orthogonal, their length is not 1), the principal axis anywhere, optionally all rows times a typed factor."""
    np = _np()
    k = rng.choice([3, 4, 5, 6, 6, 6, 7, 8, 10, 12])
    ang = rng.choice([math.pi / 4, math.pi / 6, math.pi / 3, rng.uniform(0.05, 3.0), math.radians(37.0)])
    c, s = round(math.cos(ang), k), round(math.sin(ang), k)
    M = np.array([[c, s, 0.0], [-s, c, 0.0], [0.0, 0.0, 1.0]])
    sh = rng.randrange(3)
    M = np.roll(np.roll(M, sh, axis=0), sh, axis=1)
    return f'decimals-{k}', M


def _any_length_axes(rng, kind=None):
    """(label, axes): a proper rotation (general, or about a principal axis) with rows of drawn lengths, or typed decimals"""
    np = _np()
    if rng.random() < 0.25:
        return _decimal_axes(rng)
    base = _rand_rotation(rng) if rng.random() < 0.7 else _axis_rotations(rng, rng.randrange(3), 1, 0)[0][1]
    label, fs = _row_lengths(rng, kind)
    return label, np.asarray(base, dtype=float) * np.array(fs)[:, None]


def _fsqrt(q):
    """square root of a positive Fraction to ~1e-30 relative (integer square root)."""
    S = 10 ** 30
    return Fraction(math.isqrt(q.numerator * q.denominator * S * S), q.denominator * S)


def _unit_rows_exact(R):
    """the rows of R divided by their lengths, in exact arithmetic (independent of numpy / axes_check)."""
    out = []
    for row in R:
        fr = [Fraction(float(x)) for x in row]
        n = _fsqrt(sum(x * x for x in fr))
        out.append([x / n for x in fr])
    return out


_VP = ((0, 0), (1, 1), (2, 2), (1, 2), (0, 2), (0, 1))


@_clause('axislengths')
def _check_axis_lengths(ctx, ec, R, label, eps, info, tag):
    """rotation = tensor rotation by the NORMALISED axes, whatever the lengths of the axis vectors handed in: the
    rotated tensor against T T T T C with T = rows / |rows| in exact arithmetic (entries the clean-ups cannot touch:
    to 1e-11 of the largest), strain energy of the strain co-rotated by T, Voigt bulk modulus, and axes_check itself."""
    np = _np()
    from atomman.tools import axes_check
    c = ec.Cij
    mx = float(np.abs(c).max())
    rep = {**info, 'axes': np.asarray(R).tolist(), 'op': 'axislengths', 'strain': eps, 'lengths': label}
    ctx.stats.case('oracle:axis-lengths', (tag, label, cm.frs(c), cm.frs(R)), sample=rep if tag.endswith(':0') else None)
    TF = _unit_rows_exact(R)
    u, e = _call(lambda: axes_check(np.array(R, dtype=float)))
    if e is not None:
        ctx.violate('axes_check:refused', f'{tag}: axes_check refused orthogonal right-handed axes with row lengths '
                    f'[{label}] {np.linalg.norm(R, axis=1).tolist()}: {e}', rep)
    elif max(abs(float(TF[i][j]) - u[i, j]) for i in range(3) for j in range(3)) > 4e-16:
        d = max(abs(float(TF[i][j]) - u[i, j]) for i in range(3) for j in range(3))
        ctx.violate('axes_check:value', f'{tag}: axes_check does not return the unit vectors of rows of lengths [{label}] '
                    f'{np.linalg.norm(R, axis=1).tolist()} (off by {d:.2e})', rep)
    got, e = _call(lambda: ec.transform(np.array(R, dtype=float)))
    if e is not None:
        ctx.violate('transform:raises', f'{tag}: transform raised for axes with row lengths [{label}]: {e}', rep)
        return
    want = _rot4(TF, _F(ec.Cijkl))
    g4 = got.Cijkl.ravel()
    wmx = max(abs(float(w)) for w in want)
    d = max((abs(float(w) - g) for w, g in zip(want, g4) if abs(float(w)) >= 1e-6 * wmx), default=0.0)
    dall = max(abs(float(w) - g) for w, g in zip(want, g4))
    if d > 1e-11 * wmx or dall > _rot_tol(wmx) + 1e-11 * wmx:
        ctx.violate('transform:axis-lengths', f'{tag}: transform(axes) with row lengths [{label}] '
                    f'{np.linalg.norm(R, axis=1).tolist()} differs from the rotation by the unit vectors of the rows by '
                    f'{max(d, dall) / wmx:.2e} of the largest entry', rep)
    E = [[Fraction(x) for x in row] for row in eps]
    E2 = [[sum(TF[i][a] * E[a][b] * TF[j][b] for a in range(3) for b in range(3)) for j in range(3)] for i in range(3)]
    w0, w1 = _energy(_F(ec.Cijkl), E), _energy(_F(got.Cijkl), E2)
    n2 = float(sum(x * x for r in E for x in r))
    nz = int((got.Cij == 0.0).sum())
    if abs(float(w1 - w0)) > 81 * 1e-8 * mx * n2 * (nz > 0) + 1e-10 * mx * n2:
        ctx.violate('transform:energy', f'{tag}: axes with row lengths [{label}]: strain energy {float(w0)!r} becomes '
                    f'{float(w1)!r} for the co-rotated strain', rep)
    kv = lambda m: (m[0, 0] + m[1, 1] + m[2, 2] + 2 * (m[0, 1] + m[0, 2] + m[1, 2])) / 9
    if abs(kv(got.Cij) - kv(c)) > 1e-8 * mx * (nz > 0) + 1e-11 * mx or abs(got.bulk('Voigt') - ec.bulk('Voigt')) > \
            1e-8 * mx * (nz > 0) + 1e-11 * mx:
        ctx.violate('moduli:bulk:Voigt', f'{tag}: axes with row lengths [{label}]: Voigt bulk modulus {ec.bulk("Voigt")!r} '
                    f'becomes {got.bulk("Voigt")!r}', rep)


def _search_axis_lengths(ctx, rng, big):
    """every kind of row-length pattern x general / principal-axis / typed-decimal axes x dense and structured tensors"""
    np = _np()
    import atomman as am
    EC = am.ElasticConstants
    n = ctx.n(140, 1200) * big
    for it in range(n):
        if it % 3 == 0:
            C = _spd_float(rng, rng.choice([1.0, 160.2176621, 2.0 ** -33, 2.0 ** 37]))
        elif it % 3 == 1:
            C = _spd_dyadic(rng, 3) * 2.0 ** rng.choice([0, 0, -20, 20])
        else:
            C = _struct_matrix(rng, rng.choice(STRUCT_KINDS), dy=False)[0]
        ec, e = _call(lambda: EC(Cij=np.array(C, dtype=float)))
        if e is not None:
            continue
        if it % 4 == 3:
            label, R = _decimal_axes(rng)
            if rng.random() < 0.3:
                lab2, fs = _row_lengths(rng)
                label, R = label + '*' + lab2, R * np.array(fs)[:, None]
        else:
            base = _rand_rotation(rng) if it % 4 else _axis_rotations(rng, rng.randrange(3), 1, 1)[rng.randrange(2)][1]
            label, fs = _row_lengths(rng, it % 7)
            R = np.asarray(base, dtype=float) * np.array(fs)[:, None]
        _check_axis_lengths(ctx, ec, R, label, _rand_strain(rng), {'Cij': ec.Cij.tolist()}, f'axis-lengths:{it}')


@_clause('rotation')
def _check_rotation_clauses(ctx, ec, R, R2, eps, info, tag):
    if ec is None:
        return
    np = _np()
    c = ec.Cij
    mx = float(np.abs(c).max())
    ctx.stats.case('oracle:rotation', (tag, cm.frs(c), cm.frs(R)))
    rep = {**info, 'axes': R.tolist(), 'axes2': R2.tolist(), 'op': 'rotation'}
    try:
        e1 = ec.transform(R)
        back = e1.transform(R.T)
        e12 = e1.transform(R2)
        edir = ec.transform(R2 @ R)
        eid = ec.transform(np.eye(3))
    except Exception as e:  # noqa
        ctx.violate('transform:raises', f'{tag}: transform raised {type(e).__name__}: {e}', rep)
        return
    # identity axes: the einsums are exact (0/1 factors); only the documented clean-up (|C/Cmax| < 1e-8 -> 0) may act
    ci = eid.Cij
    keep = np.abs(c) >= 1e-8 * mx * (1 + 1e-6)
    if not np.array_equal(ci[keep], c[keep]) or np.any((ci[~keep] != 0.0) & (ci[~keep] != c[~keep])):
        ctx.violate('transform:identity', f'{tag}: transform(identity) changes Cij beyond the 1e-8 clean-up', rep)
    if not np.array_equal(ec.Cij, c):
        ctx.violate('transform:mutates', f'{tag}: transform changes the object it is called on', rep)
    # axes are directions: positive rescaling of the rows must not matter
    # (far from unit length, and - drawn from the axes themselves, so that a replay sees the same - a hair off it)
    prng = random.Random(cm.frs(R))
    for lab, fs in (('fixed', [2.0, 0.5, 3.0]), _row_lengths(prng, 2 + prng.randrange(4)), _row_lengths(prng, 6)):
        scal = np.array(fs)[:, None]
        rs, es = _call(lambda: ec.transform(R * scal).Cij)
        keep = np.abs(e1.Cij) >= 1e-6 * mx
        if es is not None or not np.allclose(rs, e1.Cij, rtol=1e-9, atol=_rot_tol(mx)) \
                or not np.allclose(rs[keep], e1.Cij[keep], rtol=0, atol=1e-11 * mx):
            ctx.violate('transform:axes-scaling', f'{tag}: transform with the axis vectors rescaled by {fs} [{lab}] differs '
                        f'from transform with the unit axes ({es or np.abs(rs - e1.Cij).max()})', rep)
    if not np.allclose(back.Cij, c, rtol=1e-9, atol=2 * _rot_tol(mx)):
        ctx.violate('transform:inverse', f'{tag}: transform(R) then transform(R^T) does not return the original '
                    f'(max diff {np.abs(back.Cij - c).max():.3e})', rep)
    if not np.allclose(e12.Cij, edir.Cij, rtol=1e-9, atol=2 * _rot_tol(mx)):
        ctx.violate('transform:composition', f'{tag}: transform(R1).transform(R2) != transform(R2 R1) '
                    f'(max diff {np.abs(e12.Cij - edir.Cij).max():.3e})', rep)
    # independent tensor rotation of the full tensor
    TF = [[Fraction(float(x)) for x in row] for row in R]
    want = _rot4(TF, _F(ec.Cijkl))
    got = e1.Cijkl.ravel()
    d = max(abs(float(w) - g) for w, g in zip(want, got))
    if d > _rot_tol(mx) + 1e-9 * mx:
        ctx.violate('transform:tensor', f'{tag}: transform(R).Cijkl differs from T T T T C by {d:.3e}', rep)
    # strain energy of co-rotated strains
    E = [[Fraction(x) for x in row] for row in eps]
    E2 = [[sum(TF[i][a] * E[a][b] * TF[j][b] for a in range(3) for b in range(3)) for j in range(3)]
          for i in range(3)]
    w0 = _energy(_F(ec.Cijkl), E)
    w1 = _energy(_F(e1.Cijkl), E2)
    n2 = float(sum(x * x for r in E for x in r))
    if abs(float(w1 - w0)) > 81 * _rot_tol(mx) * n2 + 1e-9 * abs(float(w0)):
        ctx.violate('transform:energy', f'{tag}: strain energy {float(w0)} becomes {float(w1)} for the co-rotated '
                    'strain', {**rep, 'strain': eps})
    cond = float(np.linalg.cond(c))
    for which in ('bulk', 'shear'):
        for style in ('Voigt', 'Reuss', 'Hill'):
            a, b = getattr(ec, which)(style), getattr(e1, which)(style)
            tol = 40 * _rot_tol(mx) * (1.0 if style == 'Voigt' else cond) + 1e-9 * abs(a)
            if abs(a - b) > tol:
                ctx.violate(f'moduli:{which}:{style}', f'{tag}: {which}({style}) {a} becomes {b} after rotation', rep)


def _rand_rotation(rng):
    np = _np()
    q = np.array([rng.gauss(0, 1) for _ in range(4)])
    q /= np.linalg.norm(q)
    a, b, c, d = q
    return np.array([[a * a + b * b - c * c - d * d, 2 * (b * c - a * d), 2 * (b * d + a * c)],
                     [2 * (b * c + a * d), a * a - b * b + c * c - d * d, 2 * (c * d - a * b)],
                     [2 * (b * d - a * c), 2 * (c * d + a * b), a * a - b * b - c * c + d * d]])


def _rand_strain(rng):
    e = [[0.0] * 3 for _ in range(3)]
    for i in range(3):
        for j in range(i, 3):
            e[i][j] = e[j][i] = cm.dyadic(rng, -1, 1, 4)
    if not any(any(r) for r in e):
        e[0][1] = e[1][0] = 0.5
    return e


def _system_consts(rng, sysname):
    """admissible (positive definite) constant sets: strong diagonal, weak coupling"""
    keys = SYS_KEYS[sysname]
    vals = {}
    for k in keys:
        i, j = int(k[1]), int(k[2])
        if i == j:
            vals[k] = rng.uniform(6.0, 14.0) * (0.4 if i > 3 else 1.0)
        elif i <= 3 and j <= 3:
            vals[k] = rng.uniform(1.0, 4.0)
        else:
            vals[k] = rng.uniform(-1.0, 1.0)
    if sysname.startswith('hexagonal') or sysname.startswith('rhombohedral'):
        vals['C12'] = min(vals['C12'], vals['C11'] - 2.0)
    return _shuffled(rng, vals)


# ---- unit systems, near-symmetric tensors, small rotations, ill-conditioned tensors -----------------------
# Powers of two: rescaling a float tensor by 2^k is exact, so the SAME material is presented in unit systems whose
# numbers run from ~1e-12 to ~1e+12 (GPa ~ 1e2, Pa ~ 1e11, eV/A^3 ~ 1, Mbar ~ 1, "atomic" ~ 1e-3 ...).  Every
# clause is evaluated at a tolerance relative to the tensor's own magnitude (`_rot_tol(mx)`), never absolute.
SCALE_EXPS = [-40, -36, -30, -27, -23, -20, -17, -14, -13, -12, -10, -7, -3, 3, 7, 10, 14, 17, 20, 27, 33, 37, 40]
ANISO = [1e-9, 1e-8, 1e-7, 1e-6, 1e-5, 3e-5, 1e-4, 3e-4, 1e-3, 1e-2]
# far out: up to where the squares formed by the modulus-pair formulas (E**2, c11**2) are still normal doubles
BIG_EXPS = [-480, -300, -200, -100, 100, 200, 300, 480]


def _template(kind, v):
    """6x6 of a crystal system written out independently of the code under test (standard settings)."""
    np = _np()
    M = np.zeros((6, 6))

    def put(a, b, x):
        M[a, b] = M[b, a] = x
    if kind == 'isotropic':
        lam, mu = v['lambda'], v['mu']
        for i in range(3):
            for j in range(3):
                M[i, j] = lam + 2 * mu if i == j else lam
            M[i + 3, i + 3] = mu
    elif kind == 'cubic':
        for i in range(3):
            for j in range(3):
                M[i, j] = v['C11'] if i == j else v['C12']
            M[i + 3, i + 3] = v['C44']
    elif kind in ('hexagonal', 'rhombohedral', 'tetragonal'):
        put(0, 0, v['C11']); put(1, 1, v['C11']); put(2, 2, v['C33'])
        put(0, 1, v['C12']); put(0, 2, v['C13']); put(1, 2, v['C13'])
        put(3, 3, v['C44']); put(4, 4, v['C44'])
        put(5, 5, v['C66'] if kind == 'tetragonal' else (v['C11'] - v['C12']) / 2)
        if kind == 'rhombohedral':
            put(0, 3, v['C14']); put(1, 3, -v['C14']); put(4, 5, v['C14'])
            if v.get('C15'):
                put(0, 4, v['C15']); put(1, 4, -v['C15']); put(3, 5, -v['C15'])
        if kind == 'tetragonal' and v.get('C16'):
            put(0, 5, v['C16']); put(1, 5, -v['C16'])
    elif kind in ('orthorhombic', 'monoclinic', 'triclinic'):
        for k, x in v.items():
            put(int(k[1]) - 1, int(k[2]) - 1, x)
    else:
        raise ValueError(kind)
    return M


def _near_symmetric(rng, kind, eps, dy=False):
    """a tensor of the crystal system `kind` plus eps*max times a general symmetric perturbation: weakly
    anisotropic / weakly lower-symmetric materials (polycrystal texture, strained cubic crystal, alloy ...)."""
    np = _np()

    def val(lo, hi):
        return cm.dyadic(rng, lo, hi, 3) if dy else rng.uniform(lo, hi)
    if kind == 'isotropic':
        base = _template(kind, {'lambda': val(1, 8), 'mu': val(1, 6)})
    else:
        keys = {'cubic': ['C11', 'C12', 'C44'], 'hexagonal': ['C11', 'C12', 'C13', 'C33', 'C44'],
                'rhombohedral': ['C11', 'C12', 'C13', 'C14', 'C33', 'C44'],
                'tetragonal': ['C11', 'C12', 'C13', 'C16', 'C33', 'C44', 'C66'],
                'orthorhombic': ['C11', 'C12', 'C13', 'C22', 'C23', 'C33', 'C44', 'C55', 'C66']}[kind]
        v = {}
        for k in keys:
            i, j = int(k[1]), int(k[2])
            v[k] = val(8, 14) * (0.5 if i > 3 else 1.0) if i == j else (val(1, 4) if j <= 3 else val(-1, 1))
        base = _template(kind, v)
    P = np.zeros((6, 6))
    for a in range(6):
        for b in range(a, 6):
            P[a, b] = P[b, a] = val(-1, 1)
    if eps == 0:
        return base          # the exact crystal tensor (structural zeros)
    e = 2.0 ** round(math.log2(eps)) if dy else eps
    return base + e * float(base.max()) * P


def _small_rotation(rng, angle):
    """rotation by `angle` about a random axis (Rodrigues); orthogonal to rounding"""
    np = _np()
    n = np.array([rng.gauss(0, 1) for _ in range(3)])
    n /= np.linalg.norm(n)
    Kx = np.array([[0, -n[2], n[1]], [n[2], 0, -n[0]], [-n[1], n[0], 0]])
    return np.eye(3) + math.sin(angle) * Kx + (1 - math.cos(angle)) * (Kx @ Kx)


def _spd_cond(rng, cond):
    """SPD with prescribed condition number: nearly incompressible / nearly unstable materials"""
    np = _np()
    G = np.array([[rng.gauss(0, 1) for _ in range(6)] for _ in range(6)])
    Q, _ = np.linalg.qr(G)
    ev = np.array([cond ** (-k / 5.0) for k in range(6)])
    rng.shuffle(ev)
    C = (Q * ev) @ Q.T
    C = (C + C.T) / 2
    return C * rng.choice([1.0, 100.0])


# ---- structured tensors: templates in every setting x rotations about the principal axes, coincidental ties,
# sparsity patterns ------------------------------------------------------------------------------------------
# Dense random SPD matrices and exact crystal templates under their own symmetry rotations never reach code that
# switches on the SHAPE of a tensor (entries that coincide, blocks that vanish, a rotation about one coordinate axis).
# The pool below is built from three families, each crossed with the others:
#   (a) every crystal-system template (standard setting and the settings with the unique axis along x / y, i.e. the
#       template carried along by an axis permutation), rotated about EACH principal axis by special angles (multiples
#       of 30 and 45 degrees, written with exact 0, 1/2, 1 entries where they exist) and by generic / tiny angles;
#   (b) coincidences between constants that the system does not force (C11 = C33, C12 = C13, C44 = C66,
#       2 C66 = C11 - C12 ..., one at a time and all together), on the named constants and on the matrix;
#   (c) sparsity patterns: for every partition of the six Voigt indices into blocks an SPD matrix that couples
#       everything inside a block and nothing between blocks; the same with one extra entry between two blocks; dense
#       matrices with one entry removed.
# Every member is an ordinary admissible stiffness, so every clause of the property applies to it unchanged.
STRUCT_KINDS = ['isotropic', 'cubic', 'hexagonal', 'tetragonal', 'tetragonal6', 'rhombohedral', 'rhombohedral6',
                'orthorhombic', 'monoclinic', 'triclinic']
_S3 = math.sqrt(3.0) / 2
_R2 = math.sqrt(0.5)
# (degrees, cos, sin) with the exactly representable entries written as such
SPECIAL_ANGLES = [(90, 0.0, 1.0), (180, -1.0, 0.0), (270, 0.0, -1.0), (120, -0.5, _S3), (240, -0.5, -_S3),
                  (60, 0.5, _S3), (300, 0.5, -_S3), (45, _R2, _R2), (135, -_R2, _R2), (30, _S3, 0.5), (150, -_S3, 0.5)]


def _axis_rotation(axis, c, s):
    """proper rotation about the coordinate axis `axis` (0, 1, 2) with cos = c, sin = s (rows are the new axes)"""
    np = _np()
    i, j = [(1, 2), (2, 0), (0, 1)][axis]
    R = np.zeros((3, 3))
    R[axis, axis] = 1.0
    R[i, i] = R[j, j] = c
    R[i, j] = s
    R[j, i] = -s
    return R


def _axis_rotations(rng, axis, nspecial, ngeneric):
    """[(label, R)]: rotations about one principal axis by special and generic angles"""
    out = []
    for deg, c, s in rng.sample(SPECIAL_ANGLES, min(nspecial, len(SPECIAL_ANGLES))):
        if rng.random() < 0.3:          # the same angle through cos / sin of the float angle (entries like 6e-17)
            c, s = math.cos(math.radians(deg)), math.sin(math.radians(deg))
        out.append((f'{deg} deg about {"xyz"[axis]}', _axis_rotation(axis, c, s)))
    for k in range(ngeneric):
        th = [math.radians(37.0), rng.uniform(0, 2 * math.pi), 10.0 ** rng.uniform(-6, -2),
              math.radians(rng.choice([90, 120, 180])) + 10.0 ** rng.uniform(-7, -4)][(k + rng.randrange(4)) % 4]
        out.append((f'{math.degrees(th):.6g} deg about {"xyz"[axis]}', _axis_rotation(axis, math.cos(th), math.sin(th))))
    return out


def _voigt_rotate_exact(R, C):
    """the 6x6 of the tensor C rotated by the signed permutation R, entries moved exactly (Fractions)"""
    np = _np()
    C4 = [Fraction(float(C[_VOIGT[i, j], _VOIGT[k, l]])) for i, j, k, l in _IDX4]
    W = _rot4([[Fraction(float(x)) for x in row] for row in R], C4)
    pr = ((0, 0), (1, 1), (2, 2), (1, 2), (0, 2), (0, 1))
    return np.array([[float(W[27 * i + 9 * j + 3 * k + l]) for (k, l) in pr] for (i, j) in pr])


_AXIS_SETTINGS = None


def _axis_settings():
    """identity and the two cyclic axis permutations: the unique axis of a template along z, x, y"""
    global _AXIS_SETTINGS
    if _AXIS_SETTINGS is None:
        np = _np()
        # rows are the new axes: [[0,1,0],[0,0,1],[1,0,0]] has new y = old z
        _AXIS_SETTINGS = [('z', np.eye(3)), ('y', np.array([[0, 1.0, 0], [0, 0, 1.0], [1.0, 0, 0]])),
                          ('x', np.array([[0, 0, 1.0], [1.0, 0, 0], [0, 1.0, 0]]))]
    return _AXIS_SETTINGS


def _struct_consts(rng, kind, dy):
    """named constants of one system (or lambda, mu / a dense matrix): strong diagonal, moderate coupling"""
    def val(lo, hi):
        return cm.dyadic(rng, lo, hi, 3) if dy else rng.uniform(lo, hi)
    if kind == 'isotropic':
        return {'lambda': val(1, 8), 'mu': val(1, 6)}
    if kind == 'triclinic':
        return None
    v = {}
    for k in SYS_KEYS[kind]:
        i, j = int(k[1]), int(k[2])
        if i == j:
            v[k] = val(8, 14) * (0.5 if i > 3 else 1.0)
        elif j <= 3:
            v[k] = val(1, 4)
        else:
            x = val(0.25, 1.5)
            v[k] = x if rng.random() < 0.5 else -x
    return v


def _struct_matrix(rng, kind, dy=False):
    """(6x6 in the standard setting written out here, named constants or None)"""
    if kind == 'triclinic':
        return (_spd_dyadic(rng, 3) if dy else _spd_float(rng)), None
    v = _struct_consts(rng, kind, dy)
    base = kind.rstrip('6')
    if base in ('hexagonal', 'rhombohedral'):
        v['C12'] = min(v['C12'], v['C11'] - 4.0)
    return _template(base, v), (None if kind == 'isotropic' else v)


def _is_spd(M, margin=0.02):
    np = _np()
    w = np.linalg.eigvalsh(M)
    return bool(w.min() > margin * w.max())


# coincidences, applied to a 6x6 (name, [(target position, function of the matrix)]).  Sources are chosen such that a
# relation a higher system forces anyway stays intact (C66 of the hexagonal family is the source of the shear ties).
def _tie_ops():
    def at(a, b):
        return lambda M: M[a, b]
    half = lambda M: (M[0, 0] - M[0, 1]) / 2                       # noqa: E731
    single = {
        'C22=C11': [((1, 1), at(0, 0))], 'C33=C11': [((2, 2), at(0, 0))], 'C33=C22': [((2, 2), at(1, 1))],
        'C13=C12': [((0, 2), at(0, 1))], 'C23=C12': [((1, 2), at(0, 1))], 'C23=C13': [((1, 2), at(0, 2))],
        'C44=C66': [((3, 3), at(5, 5))], 'C55=C66': [((4, 4), at(5, 5))], 'C55=C44': [((4, 4), at(3, 3))],
        '2C66=C11-C12': [((5, 5), half)], '2C44=C11-C12': [((3, 3), half)], '2C55=C11-C12': [((4, 4), half)],
        'C12=C44': [((0, 1), at(3, 3))], 'C13=C44': [((0, 2), at(3, 3))], 'C66=C12': [((5, 5), at(0, 1))],
        'C26=-C16': [((1, 5), lambda M: -M[0, 5])], 'C24=-C14': [((1, 3), lambda M: -M[0, 3])],
        'C56=C14': [((4, 5), at(0, 3))], 'C25=-C15': [((1, 4), lambda M: -M[0, 4])], 'C46=-C15': [((3, 5), lambda M: -M[0, 4])],
        'C25=C15': [((1, 4), at(0, 4))], 'C35=C15': [((2, 4), at(0, 4))], 'C45=C46': [((3, 4), at(3, 5))],
    }
    groups = {
        'tetragonal look': ['C22=C11', 'C23=C13', 'C55=C44'],
        'hexagonal look': ['C22=C11', 'C23=C13', 'C55=C44', '2C66=C11-C12'],
        'cubic look': ['C22=C11', 'C33=C11', 'C13=C12', 'C23=C12', 'C44=C66', 'C55=C66'],
        'isotropic look': ['C22=C11', 'C33=C11', 'C13=C12', 'C23=C12', '2C66=C11-C12', 'C44=C66', 'C55=C66'],
        'normal block tied': ['C22=C11', 'C33=C11', 'C13=C12', 'C23=C12'],
        'shear block tied': ['C44=C66', 'C55=C66'],
        'rhombohedral look': ['C22=C11', 'C23=C13', 'C55=C44', '2C66=C11-C12', 'C24=-C14', 'C56=C14', 'C25=-C15', 'C46=-C15'],
    }
    return single, groups


def _apply_ties(M, names):
    single, _ = _tie_ops()
    M = M.copy()
    for nm in names:
        for (a, b), f in single[nm]:
            x = f(M)
            M[a, b] = M[b, a] = x
    return M


def _named_ties(rng, kind, v):
    """coincidences on the NAMED constants of a system: [(label, constants)] - pairs of the same sort set equal one at
    a time, and all of them together (the tensor keeps its system, the numbers just happen to coincide)"""
    sort = lambda k: ('d' if k[1] == k[2] and k[1] in '123' else 's' if k[1] == k[2] else 'o' if k[2] in '123' else 'c')   # noqa: E731
    keys = list(v)
    pairs = [(a, b) for a in keys for b in keys if a < b and sort(a) == sort(b)]
    out = []
    for a, b in pairs:
        w = dict(v)
        w[b] = w[a]
        out.append((f'{b}={a}', w))
    w = dict(v)
    for srt in 'dso':
        ks = [k for k in keys if sort(k) == srt]
        for k in ks[1:]:
            w[k] = w[ks[0]]
    out.append(('all constants of a sort equal', w))
    base = kind.rstrip('6')
    if base not in ('hexagonal', 'rhombohedral') and {'C11', 'C12', 'C44'} <= set(keys):
        w2 = dict(w)
        for k in keys:
            if sort(k) == 's':
                w2[k] = (w2['C11'] - w2['C12']) / 2
        out.append(('all equal and 2 C44 = C11 - C12', w2))
    elif base in ('hexagonal', 'rhombohedral'):
        w2 = dict(v)
        w2['C44'] = (w2['C11'] - w2['C12']) / 2
        out.append(('2 C44 = C11 - C12', w2))
        w3 = dict(w)
        w3['C44'] = (w3['C11'] - w3['C12']) / 2
        out.append(('all equal and 2 C44 = C11 - C12', w3))
    return out


_PARTITIONS = {}


def _set_partitions(n=6):
    """all partitions of range(n) into blocks (203 for n = 6)"""
    if n not in _PARTITIONS:
        def rec(items):
            if not items:
                yield []
                return
            first, rest = items[0], items[1:]
            for p in rec(rest):
                for i in range(len(p)):
                    yield p[:i] + [[first] + p[i]] + p[i + 1:]
                yield [[first]] + p
        _PARTITIONS[n] = [sorted(sorted(b) for b in p) for p in rec(list(range(n)))]
    return _PARTITIONS[n]


def _block_spd(rng, part, dy):
    """SPD 6x6 that couples every pair inside a block of `part` (non-zero entry) and nothing between blocks"""
    np = _np()
    M = np.zeros((6, 6))
    for blk in part:
        k = len(blk)
        while True:
            if dy:
                A = np.array([[0.0] * k for _ in range(k)])
                for i in range(k):
                    for j in range(i):
                        x = cm.dyadic(rng, 0.25, 2, 3)
                        A[i, j] = A[j, i] = x if rng.random() < 0.5 else -x
                for i in range(k):
                    A[i, i] = np.abs(A[i]).sum() + cm.dyadic(rng, 0.5, 6, 3)
            else:
                G = np.array([[rng.gauss(0, 1) for _ in range(k)] for _ in range(k)])
                A = G @ G.T + 3.0 * np.eye(k)
            if np.all(A != 0) and np.linalg.cond(A) < 60:
                break
        for i, a in enumerate(blk):
            for j, b in enumerate(blk):
                M[a, b] = A[i, j]
    return M


def _struct_pool(rng, quick_n, full):
    """[(label, family, info, make)] of structured admissible tensors.  `make()` -> object (None if refused: a
    violation has been reported by the caller's _new).  Families: 'template', 'setting', 'tie', 'named-tie', 'block',
    'block+1', 'dense-1'."""
    np = _np()
    pool = []

    def mat(label, fam, M, scale=True):
        if not _is_spd(M):
            return
        sc = rng.choice([1.0, 1.0, 1.0, 160.2176621, 2.0 ** -33, 2.0 ** 37]) if scale else 1.0
        pool.append((label, fam, {'Cij': (M * sc).tolist()}))

    def named(label, fam, v):
        pool.append((label, fam, {'kwargs': _shuffled(rng, v)}))

    sets = _axis_settings()
    for kind in STRUCT_KINDS:
        for rep in range(2 if full else 1):
            dy = (rep + STRUCT_KINDS.index(kind)) % 2 == 0
            M, v = _struct_matrix(rng, kind, dy)
            if v is not None:
                named(f'{kind} constants', 'template', v)
            else:
                mat(f'{kind} template', 'template', M, scale=False)
            for axname, P in sets[1:]:
                mat(f'{kind} template, unique axis along {axname}', 'setting', _voigt_rotate_exact(P, M), scale=False)
            # (b) coincidences on the matrix ...
            single, groups = _tie_ops()
            names = list(groups) + (list(single) if full else rng.sample(list(single), 4))
            for nm in names:
                T = _apply_ties(M, groups.get(nm, [nm]))
                if not np.array_equal(T, M):
                    P = sets[rng.randrange(3)][1]
                    mat(f'{kind} template with {nm}', 'tie', T if rng.random() < 0.6 else _voigt_rotate_exact(P, T))
            # ... and on the named constants (the tensor stays in its system)
            if v is not None:
                ties = _named_ties(rng, kind, v)
                keep = ties if full else ties[-3:] + rng.sample(ties[:-3], min(2, max(0, len(ties) - 3)))
                for lab, w in keep:
                    base = kind.rstrip('6')
                    if _is_spd(_template(base, w)):
                        named(f'{kind} constants with {lab}', 'named-tie', w)
    # (c) sparsity patterns
    parts = _set_partitions(6)
    for n, part in enumerate(parts):
        if len(part) == 1:
            continue
        dy = n % 2 == 0
        M = _block_spd(rng, part, dy)
        lab = '|'.join(''.join(str(i + 1) for i in b) for b in part)
        mat(f'blocks {lab}', 'block', M, scale=n % 5 == 0)
        if full or n % 4 == 1:
            a = rng.choice(part[0])
            b = rng.choice(part[-1])
            X = M.copy()
            x = (cm.dyadic(rng, 0.25, 1, 3) if dy else rng.uniform(0.25, 1.0)) * rng.choice([1, -1])
            X[a, b] = X[b, a] = x
            mat(f'blocks {lab} + C{min(a, b) + 1}{max(a, b) + 1}', 'block+1', X, scale=False)
    for n in range(30 if full else 8):
        M = _spd_dyadic(rng, 3) if n % 2 else _spd_float(rng)
        a, b = rng.sample(range(6), 2)
        M[a, b] = M[b, a] = 0.0
        mat(f'dense SPD without C{min(a, b) + 1}{max(a, b) + 1}', 'dense-1', M, scale=False)
    return pool


def _own_rotate66(R, C):
    """6x6 of the tensor rotated by R: float arithmetic of the harness (own Voigt map, own einsum)"""
    np = _np()
    C4 = np.zeros((3, 3, 3, 3))
    for i, j, k, l in _IDX4:
        C4[i, j, k, l] = C[_VOIGT[i, j], _VOIGT[k, l]]
    W = np.einsum('ig,jh,km,ln,ghmn->ijkl', R, R, R, R, C4)
    pr = ((0, 0), (1, 1), (2, 2), (1, 2), (0, 2), (0, 1))
    return np.array([[W[i, j, k, l] for (k, l) in pr] for (i, j) in pr])


_NORM_ROTS = {'cubic': ['R4z', 'R4x', 'R3[111]'], 'hexagonal': ['R6z', 'R2x'], 'tetragonal': ['R4z'],
              'rhombohedral': ['R3z'], 'orthorhombic': ['R2x', 'R2y'], 'monoclinic': ['R2y'], 'triclinic': [],
              'isotropic': ['R4x', 'R3[111]', 'gen']}


@_clause('normalized')
def _check_normalized_symmetry(ctx, rng, ec, info, tag):
    """normalized_as(system) of ANY tensor is a tensor of that system: invariant under the system's generating
    rotations (rotated here by the harness), a fixed point of normalized_as, accepted by is_normal."""
    np = _np()
    rots = _gen_rotations()
    c = ec.Cij
    mx = float(np.abs(c).max())
    for target in SYSTEMS:
        ctx.stats.case('oracle:normalized-symmetry', (tag, target, cm.frs(c)))
        rep = {'op': 'normalized', **info, 'system': target}
        n1, e = _call(lambda: ec.normalized_as(target))
        if e is not None:
            ctx.violate(f'normalized:raises:{target}', f'{tag}: normalized_as({target!r}) raised {e}', rep)
            continue
        nc = n1.Cij
        if not np.array_equal(ec.Cij, c):
            ctx.violate('normalized:mutates', f'{tag}: normalized_as({target!r}) changes the object it is called on', rep)
        for rn in _NORM_ROTS[target]:
            R = _rand_rotation(rng) if rn == 'gen' else rots[rn]
            d = float(np.abs(_own_rotate66(R, nc) - nc).max())
            if d > 1e-12 * mx + 1e-13 * float(np.abs(nc).max()) * 100:
                ctx.violate(f'normalized:symmetry:{target}', f'{tag}: normalized_as({target!r}) is not invariant under {rn} '
                            f'(max diff {d:.3e})', rep)
                break
        n2, e2 = _call(lambda: n1.normalized_as(target).Cij)
        cond = float(np.linalg.cond(c))
        tol = 1e-11 * (cond if target == 'isotropic' else 1.0)
        if e2 is not None or not np.allclose(n2, nc, rtol=tol, atol=2e-9 * mx):
            ctx.violate(f'normalized:idempotent:{target}', f'{tag}: normalized_as({target!r}) is not idempotent '
                        f'({e2 or np.abs(n2 - nc).max()})', rep)
        ok, e3 = _call(lambda: n1.is_normal(target))
        if e3 is not None or not ok:
            ctx.violate(f'is_normal:{target}', f'{tag}: normalized_as({target!r}).is_normal({target!r}) is {e3 or ok}', rep)


def _search_structured(ctx, rng, big):
    """templates x settings x principal-axis rotations, coincidental ties, sparsity patterns: every clause of the
    property (representations, C:S, moduli by definition, group action, energy, invariance of the moduli)."""
    np = _np()
    import atomman as am
    EC = am.ElasticConstants
    full = ctx.thorough
    for rnd in range(big):
        pool = _struct_pool(rng, 0, full)
        ctx.extra['structured_pool'] = {f: sum(1 for p in pool if p[1] == f) for f in sorted({p[1] for p in pool})}
        nrot = {'template': (3, 2, 2), 'setting': (3, 1, 1), 'tie': (1, 1, 1), 'named-tie': (1, 1, 1),
                'block': (0, 0, 0), 'block+1': (0, 0, 0), 'dense-1': (1, 1, 0)}
        for n, (label, fam, info) in enumerate(pool):
            ec = _new(ctx, info, label, **({'Cij': np.array(info['Cij'])} if 'Cij' in info else info['kwargs']))
            if ec is None:
                continue
            ctx.stats.case('oracle:structured', (fam, label, cm.frs(ec.Cij)),
                           sample={'op': 'representations', 'family': fam, 'what': label, **info})
            _check_tensor_clauses(ctx, ec, info, label)
            _check_moduli(ctx, ec, info, label)
            if fam in ('template', 'tie', 'named-tie') or n % 6 == 0:
                _check_normalized_symmetry(ctx, rng, ec, info, label)
            naxes, nsp, ngen = nrot[fam]
            if fam in ('block', 'block+1') and (full or n % 5 == 0):
                naxes, nsp, ngen = 1, 1, 1
            for axis in rng.sample(range(3), naxes):
                for lab, R in _axis_rotations(rng, axis, nsp * (2 if full else 1), ngen):
                    # second rotation: general, or about another / the same principal axis
                    k = rng.randrange(3)
                    R2 = _rand_rotation(rng) if k == 0 else _axis_rotations(rng, rng.randrange(3), 1, 1)[k - 1][1]
                    _check_rotation_clauses(ctx, ec, R, R2, _rand_strain(rng), info, f'{label}, {lab}')


# ---- named constants a hair off a coincidence -------------------------------------------------------------
# A relation between named constants that a HIGHER system forces (C33 = C11, C13 = C12, C44 = C66, 2 C66 = C11 - C12,
# C12 = C44, C16 = 0 ...) may hold exactly by chance (family 'named-tie') - or ALMOST: measured / fitted constants sit
# a relative 1e-9 .. 1e-3 off it, on either side.  Such a set is a perfectly ordinary member of its own system; a
# "this looks like the higher system / this constant is redundant" shortcut with a tolerance shows only here.
NEAR_TIE_DELTAS = [1e-9, 1e-8, 1e-7, 1e-6, 1e-5, 7e-5, 1e-4, 5e-4, 1e-3]


def _key_sort(k):
    return 'd' if k[1] == k[2] and k[1] in '123' else 's' if k[1] == k[2] else 'o' if k[2] in '123' else 'c'


def _tie_relations(keys):
    """[(label, target constant, function of the constants -> the value at which the relation holds exactly)]"""
    rel = []
    for a in keys:
        for b in keys:
            if a < b and _key_sort(a) == _key_sort(b) and _key_sort(a) != 'c':
                rel.append((f'{b} = {a}', b, (lambda v, a=a: v[a])))
    for k in keys:
        if _key_sort(k) == 's' and 'C11' in keys and 'C12' in keys:
            rel.append((f'2 {k} = C11 - C12', k, lambda v: (v['C11'] - v['C12']) / 2))
        if _key_sort(k) == 's':
            for o in keys:
                if _key_sort(o) == 'o':
                    rel.append((f'{k} = {o}', k, (lambda v, o=o: v[o])))      # Cauchy relations
        if _key_sort(k) == 'c':
            rel.append((f'{k} = 0', k, lambda v: 0.0))
    return rel


def _ctor_keysets(kind, v):
    """every keyword set through which the CONSTRUCTOR takes the constants `v` of `kind` (values completed where a
    set names a constant that follows from the others): [(keywords, the constants of the tensor they describe)]"""
    base = kind.rstrip('6')
    if base in ('hexagonal', 'rhombohedral'):
        full = dict(v)
        full['C66'] = (v['C11'] - v['C12']) / 2
        rest = {k: x for k, x in full.items() if k not in ('C11', 'C12', 'C66')}
        out = []
        for pair in (('C11', 'C12'), ('C11', 'C66'), ('C12', 'C66')):
            out.append(({**rest, **{k: full[k] for k in pair}}, v))
        if base == 'rhombohedral' and 'C15' in v:
            out.append((dict(full), v))                              # 8 keywords: all of C11, C12, C66
        return out
    if kind == 'tetragonal':
        v6 = {k: x for k, x in v.items() if k != 'C16'}              # (another tensor: the one without C16)
        return [(dict(v), v), (v6, v6)]
    return [(dict(v), v)]


def _near_tie_pool(rng, full):
    """[(label, kind, constants)]: every relation of _tie_relations on the named constants of every system, the target
    constant moved to (1 +- delta) times its tie value (for `= 0`: +- delta C11), delta over NEAR_TIE_DELTAS; also
    starting from the set in which all constants of a sort coincide (a second relation then sits a hair off as well)."""
    out = []
    for kind in STRUCT_KINDS:
        if kind in ('isotropic', 'triclinic'):
            continue
        base = kind.rstrip('6')
        for start in ('generic', 'all-equal'):
            v = _struct_consts(rng, kind, dy=False)
            if base in ('hexagonal', 'rhombohedral'):
                v['C12'] = min(v['C12'], v['C11'] - 4.0)
            if start == 'all-equal':
                v = _named_ties(rng, kind, v)[-3 if base in ('hexagonal', 'rhombohedral') else -2][1]
            rels = _tie_relations(list(v))
            for n, (lab, tgt, f) in enumerate(rels):
                deltas = NEAR_TIE_DELTAS if (full or '2 C' in lab) else [NEAR_TIE_DELTAS[(n + j) % len(NEAR_TIE_DELTAS)] for j in (0, 4, 6)]
                for j, dl in enumerate(deltas):
                    for sg in ((1, -1) if (full or '2 C' in lab) else ((1,) if (n + j) % 2 else (-1,))):
                        w = dict(v)
                        x = f(w)
                        if not x and dl < 1e-7:
                            continue        # (the documented clean-up of entries <= 1e-9 of the largest one)
                        w[tgt] = x * (1 + sg * dl) if x else sg * dl * w['C11']
                        if w[tgt] == x or not _is_spd(_template(base, w)):
                            continue
                        out.append((f'{kind} constants ({start}) with {lab} off by {sg * dl:+.0e}', kind, w))
    return out


def _search_near_ties(ctx, seed):
    """clause "named constants are placed as given", exactly: through the constructor, with every admissible keyword
    set in shuffled order, every GIVEN constant Cab is the entry [a-1, b-1] and [b-1, a-1] bit for bit, every entry the
    system forces follows from the given ones (own template, 4 ulp), every other entry is exactly zero."""
    np = _np()
    import atomman as am
    EC = am.ElasticConstants
    rng = random.Random(seed * 7103 + 29)        # own stream: the other families draw what they drew before
    pool = _near_tie_pool(rng, ctx.thorough)
    ctx.extra['near_tie_pool'] = len(pool)
    nkey = {}
    for n, (label, kind, w) in enumerate(pool):
        base = kind.rstrip('6')
        if nkey.get(base, 0) >= 3:
            continue                             # three inputs per system are enough of a report
        nv = len(ctx.violations)
        for kw, tv in _ctor_keysets(kind, w):
            want = _template(base, tv)
            mx = float(np.abs(want).max())
            kw = _shuffled(rng, kw)
            info = {'kwargs': kw, 'system': base}
            ctx.stats.case('oracle:near-tie', (label, tuple(sorted(kw.items()))),
                           sample={'op': 'named', 'what': label, **info})
            ec, e = _call(lambda: EC(**kw))
            if e is not None:
                ctx.violate('ctor:raises', f'{label}: ElasticConstants({", ".join(kw)}=...) raised {e}', {'op': 'named', **info})
                continue
            c = ec.Cij
            wrong = [f'{k}: given {x!r}, Cij[{int(k[1]) - 1},{int(k[2]) - 1}] = {c[int(k[1]) - 1, int(k[2]) - 1]!r}'
                     for k, x in kw.items() if c[int(k[1]) - 1, int(k[2]) - 1] != x or c[int(k[2]) - 1, int(k[1]) - 1] != x]
            if wrong:
                ctx.violate(f'named:{base}', f'{label}: the constants are not stored as given at their Voigt positions ('
                            + '; '.join(wrong[:3]) + f'), keywords {sorted(kw)}', {'op': 'named', **info})
                continue
            off = np.abs(c - want) > np.where(want == 0, 0.0, 8 * np.finfo(float).eps * mx)
            if off.any():
                a, b = [int(t) for t in np.argwhere(off)[0]]
                ctx.violate(f'named:template:{base}', f'{label}: Cij[{a},{b}] = {c[a, b]!r}, the {base} form of the given '
                            f'constants has {want[a, b]!r} there (keywords {sorted(kw)})', {'op': 'named', **info})
                continue
            if n % 8 == 0:
                _check_tensor_clauses(ctx, ec, {'kwargs': kw}, label)
                _check_moduli(ctx, ec, {'kwargs': kw}, label)
        if len(ctx.violations) > nv:
            nkey[base] = nkey.get(base, 0) + 1


# ---- one object, many reads: order independence, purity, no aliasing, setters overwrite -------------------
READ_NAMES = ['Cij', 'Sij', 'Cij9', 'Cijkl', 'Sijkl', 'bulk', 'shear', 'normalized_as', 'is_normal', 'transform', 'str',
              'model']
_READ_AXES = [[2.0, 1.0, 2.0], [-2.0, 2.0, 1.0], [-1.0, -2.0, 2.0]]      # a proper rotation with rows of length 3


def _read(ec, name):
    """one observation of the object `ec` as a float array (exceptions are observations too)"""
    np = _np()

    def go():
        if name in ('Cij', 'Sij', 'Cij9', 'Cijkl', 'Sijkl'):
            return getattr(ec, name)
        if name in ('bulk', 'shear'):
            return np.array([getattr(ec, name)(s) for s in ('Voigt', 'Reuss', 'Hill')] + [getattr(ec, name)()])
        if name == 'normalized_as':
            objs = [ec.normalized_as(s) for s in SYSTEMS]
            out = np.array([o.Cij for o in objs])
            for o in objs:          # the caller goes on to use the returned objects for something else
                o.__init__(C11=1.0, C12=0.5, C44=0.125)
            return out
        if name == 'is_normal':
            return np.array([1.0 if ec.is_normal(s) else 0.0 for s in SYSTEMS])
        if name == 'transform':
            o = ec.transform(np.array(_READ_AXES))
            out = o.Cij
            o.__init__(C11=1.0, C12=0.5, C44=0.125)
            return out
        if name == 'str':
            return np.array([float(len(str(ec)))])
        if name == 'model':
            return np.concatenate([np.array(ec.model(**kw)['elastic-constants']['Cij']['value'], dtype=float)
                                   for kw in ({}, {'unit': 'GPa'}, {'unit': 'MPa', 'crystal_system': 'cubic'})])
        raise KeyError(name)
    r, e = _call(go)
    return r if e is None else e


def _same_obs(a, b):
    np = _np()
    if isinstance(a, str) or isinstance(b, str):
        return isinstance(a, str) and isinstance(b, str) and a == b
    return a.shape == b.shape and np.array_equal(a, b, equal_nan=True)


def _scribble(x):
    """overwrite a returned array: the object must not share memory with what it hands out"""
    np = _np()
    if isinstance(x, np.ndarray) and x.size and x.flags.writeable:
        x[...] = -7.25


@_clause('readorder')
def _check_read_order(ctx, make, orders, info, tag, scribble=True):
    """`make()` builds a fresh object.  Reference: every read on its own fresh object.  Then each order in `orders`
    is performed on ONE object; every read must equal the reference (the computation is deterministic, so the
    comparison is exact), also after the caller overwrote previously returned arrays."""
    ref = {}
    for nm in READ_NAMES:
        ref[nm] = _read(make(), nm)
    for order in orders:
        ec = make()
        ctx.stats.case('oracle:read-order', (tag, tuple(order), repr(info)[:200]),
                       sample={'op': 'readorder', **info, 'order': list(order)})
        for k, nm in enumerate(order):
            out = _read(ec, nm)
            if not _same_obs(out, ref[nm]):
                prev = ', '.join(order[:k]) or 'nothing'
                ctx.violate(f'state:read-order:{nm}', f'{tag}: .{nm} read after [{prev}] on one object differs from '
                            f'the same read on a fresh object' + (' (returned arrays were overwritten by the caller)'
                                                                  if scribble else ''),
                            {'op': 'readorder', **info, 'order': list(order), 'scribble': scribble})
                break
            if scribble:
                _scribble(out)
    return ref


SETTER_KINDS = ['Cij', 'Sij', 'Cij9', 'Cijkl', 'Sijkl', 'model', 'named', 'init']


def _apply_setter(ec, kind, donor, named=None, reuse=False):
    """put the tensor of `donor` (a fresh object) into `ec` through one of the public entry points; with `reuse` the
    caller goes on to use its own array for something else afterwards (the object must own its state)"""
    if kind == 'named':
        meth, kw = named
        getattr(ec, meth)(**kw)
        return
    if kind == 'model':          # reload into the same object from a data model
        ec.model(model=donor.model(unit=None))
        return
    arr = donor.Cij if kind == 'init' else getattr(donor, kind)
    if kind == 'init':
        ec.__init__(Cij=arr)
    else:
        setattr(ec, kind, arr)
    if reuse:
        _scribble(arr)


@_clause('setsequence')
def _check_set_sequence(ctx, rng, C1, C2, info, tag, named=None, fixed=None):
    """construct with C1 -> some reads -> set the slightly different C2 through a random entry point -> all reads in
    a random order must equal those of a fresh object that got C2 the same way; a refused setter changes nothing."""
    np = _np()
    import atomman as am
    EC = am.ElasticConstants
    kind = rng.choice(SETTER_KINDS if named else SETTER_KINDS[:6] + ['init'])
    pre = rng.sample(READ_NAMES, rng.randint(0, 4))
    post = rng.sample(READ_NAMES, len(READ_NAMES))
    if fixed is not None:
        kind, pre, post = fixed
    rep = {'op': 'setsequence', **info, 'Cij2': C2.tolist(), 'setter': kind, 'pre': pre, 'post': post,
           'named': list(named) if named else None}
    ctx.stats.case('oracle:set-sequence', (tag, kind, tuple(pre), tuple(post), cm.frs(C1), cm.frs(C2)), sample=rep)
    donor = EC(Cij=C2.copy())
    fresh = EC()
    _, e0 = _call(lambda: _apply_setter(fresh, kind, donor, named))
    V1 = C1.copy()
    ec = EC(Cij=V1)
    _scribble(V1)
    for nm in pre:
        _scribble(_read(ec, nm))
    _, e1 = _call(lambda: _apply_setter(ec, kind, EC(Cij=C2.copy()), named, reuse=True))
    if e0 != e1:
        ctx.violate(f'state:setter:{kind}', f'{tag}: setting through {kind} on a used object gives {e1}, on a fresh one {e0}', rep)
        return
    # references: one fresh object per read, which never saw C1 (or, after a refused set, only C1)
    for k, nm in enumerate(post):
        f2 = EC()
        if e0 is None:
            _apply_setter(f2, kind, EC(Cij=C2.copy()), named)
        else:
            f2 = EC(Cij=C1.copy())
        want = _read(f2, nm)
        got = _read(ec, nm)
        if not _same_obs(got, want):
            what = (f'after construction from C1, reads {pre} and then setting C2 through {kind} (the caller reused '
                    f'its input array afterwards)' if e0 is None else f'after a REFUSED set through {kind} ({e0})')
            ctx.violate(f'state:stale:{nm}', f'{tag}: .{nm} {what} differs from a fresh object '
                        f'(reads before it: {post[:k]})', rep)
            return
        _scribble(got)
    # the object that went through the sequence satisfies the representation clauses on its own (exact oracle): a
    # comparison with a fresh object alone would not notice state shared between objects (class-level memo tables)
    if np.any(ec.Cij):
        _check_tensor_clauses(ctx, ec, {'Cij': ec.Cij.tolist()}, f'{tag}: object after set through {kind}')


def search(ctx, broken):
    np = _np()
    import atomman as am
    EC = am.ElasticConstants
    rng = random.Random(ctx.seed * 7919 + 11)
    big = 3 if broken else 1
    # ---- representations of one tensor ----------------------------------------------------
    for it in range(ctx.n(60, 600) * big):
        if it % 3 == 0:
            C = _spd_dyadic(rng, 3, rng.choice([1.0, 16.0]))
        else:
            C = _spd_float(rng, rng.choice([1.0, 160.2176621, 1e-3]))
        if it % 4 == 1:     # a few small but significant couplings (1e-7 .. 1e-3 of the largest entry)
            for _ in range(3):
                a_, b_ = rng.sample(range(6), 2)
                C[a_, b_] = C[b_, a_] = rng.choice([1e-7, 1e-6, 1e-5, 1e-3, -1e-6, -1e-4]) * C.max() * rng.uniform(1, 2)
        C0 = C.copy()
        ec = _new(ctx, {'Cij': C0.tolist()}, 'random SPD', Cij=C.copy())
        if ec is None:
            continue
        # Cij -> object -> Cij: only entries below 1e-9 of the maximum may be altered (zeroed)
        keep = np.abs(C0 / C0.max()) > 1e-9 * (1 + 1e-6)
        if not np.array_equal(ec.Cij[keep], C0[keep]) or np.any(ec.Cij[~keep] != 0.0):
            ctx.violate('roundtrip:Cij', 'ElasticConstants(Cij=C).Cij differs from C beyond the 1e-9 clean-up',
                        {'op': 'representations', 'Cij': C0.tolist()})
        _check_tensor_clauses(ctx, ec, {'Cij': C0.tolist()}, 'random SPD')
        if it % 4 == 1:
            _check_rotation_clauses(ctx, ec, _rand_rotation(rng), _rand_rotation(rng), _rand_strain(rng),
                                    {'Cij': C0.tolist()}, 'SPD with small couplings')
    # ---- rotations ---------------------------------------------------------------------------
    sp = _signed_perms()
    for it in range(ctx.n(40, 400) * big):
        C = _spd_float(rng, rng.choice([1.0, 160.2176621])) if it % 2 else _spd_dyadic(rng, 3)
        # general rotations; the 24 axis permutations / two-, three- and four-fold axes of the cube (a general tensor
        # is NOT invariant under them); rotations a small angle away from those
        if it % 5 == 3:
            R1, R2, what = sp[rng.randrange(len(sp))], sp[rng.randrange(len(sp))], 'random SPD, cube rotation'
        elif it % 5 == 4:
            R1 = _small_rotation(rng, 10.0 ** rng.uniform(-6, -2)) @ sp[rng.randrange(len(sp))]
            R2, what = sp[rng.randrange(len(sp))], 'random SPD, near a cube rotation'
        else:
            R1, R2, what = _rand_rotation(rng), _rand_rotation(rng), 'random SPD'
        _check_rotation_clauses(ctx, _new(ctx, {'Cij': C.tolist()}, 'random SPD', Cij=C.copy()), R1, R2,
                                _rand_strain(rng), {'Cij': C.tolist()}, what)
    # ---- crystal systems: representation clauses + invariance under the generating rotations ---------
    rots = _gen_rotations()
    for it in range(ctx.n(8, 80) * big):
        for sysname, keys in SYS_KEYS.items():
            vals = _system_consts(rng, sysname)
            try:
                ec = EC(**vals)
            except Exception as e:  # noqa
                ctx.violate(f'ctor:{sysname}', f'ElasticConstants({vals}) raised {type(e).__name__}: {e}',
                            {'op': 'system', 'system': sysname, 'kwargs': vals})
                continue
            info = {'system': sysname, 'kwargs': vals}
            _check_tensor_clauses(ctx, ec, info, sysname)
            c = ec.Cij
            mx = float(np.abs(c).max())
            # a named constant Cab is the Voigt component [a-1, b-1] (and [b-1, a-1])
            wrong = [k for k, v in vals.items() if c[int(k[1]) - 1, int(k[2]) - 1] != v or c[int(k[2]) - 1, int(k[1]) - 1] != v]
            if wrong:
                ctx.violate(f'named:{sysname}', f'{sysname}: constants {wrong} are not stored at their Voigt positions',
                            {'op': 'named', **info})
            for rn in SYS_ROTS[sysname]:
                if rn == 'rz':
                    th = rng.uniform(0, 2 * math.pi)
                    R = np.array([[math.cos(th), math.sin(th), 0], [-math.sin(th), math.cos(th), 0], [0, 0, 1.0]])
                else:
                    R = rots[rn]
                ctx.stats.case('oracle:invariance', (sysname, rn, cm.frs(c)),
                               sample={'op': 'system', 'system': sysname, 'rotation': rn, 'kwargs': vals})
                r, e = _call(lambda: ec.transform(R).Cij)
                if e is not None or not np.allclose(r, c, rtol=1e-9, atol=_rot_tol(mx)):
                    d = 'raised ' + e if e else f'max diff {np.abs(r - c).max():.3e}'
                    ctx.violate(f'invariance:{sysname}', f'{sysname} tensor is not invariant under {rn}: {d}',
                                {'op': 'system', **info, 'rotation': rn, 'axes': R.tolist()})
            if it == 0:
                _check_rotation_clauses(ctx, ec, _rand_rotation(rng), _rand_rotation(rng), _rand_strain(rng), info,
                                        sysname)
            # the alternative input combinations (2*C66 = C11 - C12, optional constants) describe the same tensor
            if 'C66' not in vals and {'C11', 'C12'} <= set(vals) and sysname != 'cubic':
                c66 = (vals['C11'] - vals['C12']) / 2
                alts = [{**{k: v for k, v in vals.items() if k != 'C12'}, 'C66': c66},
                        {**{k: v for k, v in vals.items() if k != 'C11'}, 'C66': c66}]
                if sysname.startswith('rhombohedral'):
                    alts.append({**vals, 'C66': c66})
                    if 'C15' not in vals:
                        alts.append({**vals, 'C15': 0.0})
                for alt in alts:
                    alt = _shuffled(rng, alt)
                    ctx.stats.case('oracle:alt-inputs', (sysname, tuple(sorted(alt))))
                    r, e = _call(lambda: EC(**alt).Cij)
                    if e is not None or not np.allclose(r, c, rtol=1e-12, atol=1e-12 * mx):
                        d = 'raised ' + e if e else f'max diff {np.abs(r - c).max():.3e}'
                        ctx.violate(f'alt-inputs:{sysname}', f'ElasticConstants({sorted(alt)}) differs from the same '
                                    f'tensor given as {sorted(vals)}: {d}', {'op': 'alt', 'kwargs': vals, 'alt': alt})
            # normalising a tensor of the system to that system changes nothing; normalisation is idempotent
            target = sysname.rstrip('6')
            n1c, en = _call(lambda: ec.normalized_as(target).Cij)
            if en is not None:
                ctx.violate(f'normalized:raises:{target}', f'normalized_as({target!r}) of a {sysname} tensor: {en}',
                            {'op': 'system', **info})
            elif not np.allclose(n1c, c, rtol=1e-12, atol=1e-9 * mx):
                ctx.violate(f'normalized:fixes:{target}', f'normalized_as({target!r}) changes a {sysname} tensor '
                            f'(max diff {np.abs(n1c - c).max():.3e})', {'op': 'system', **info})
            isn, en = _call(lambda: ec.is_normal(target))
            if en is None and not isn:
                ctx.violate(f'is_normal:{target}', f'is_normal({target!r}) is False on a {sysname} tensor',
                            {'op': 'system', **info})
    # ---- normalisation is idempotent on arbitrary tensors ------------------------------------------
    for it in range(ctx.n(40, 400) * big):
        C = _spd_float(rng, rng.choice([1.0, 160.2176621])) if it % 2 else _spd_dyadic(rng, 3)
        ec = _new(ctx, {'Cij': C.tolist()}, 'random SPD', Cij=C.copy())
        if ec is None:
            continue
        cond = float(np.linalg.cond(C))
        mx = float(np.abs(C).max())
        for target in SYSTEMS:
            ctx.stats.case('oracle:normalized', (target, cm.frs(C)))
            try:
                n1 = ec.normalized_as(target)
                n2 = n1.normalized_as(target)
                n1.is_normal(target)
            except Exception as e:  # noqa
                ctx.violate(f'normalized:raises:{target}', f'normalized_as({target!r}) raised {type(e).__name__}: {e}',
                            {'op': 'normalized', 'Cij': C.tolist(), 'system': target})
                continue
            tol = 1e-11 * (cond if target == 'isotropic' else 1.0)
            if not np.allclose(n2.Cij, n1.Cij, rtol=tol, atol=2e-9 * mx):
                ctx.violate(f'normalized:idempotent:{target}', f'normalized_as({target!r}) is not idempotent (max diff '
                            f'{np.abs(n2.Cij - n1.Cij).max():.3e})', {'op': 'normalized', 'Cij': C.tolist(),
                                                                     'system': target})
            if not n1.is_normal(target):
                ctx.violate(f'is_normal:{target}', f'normalized_as({target!r}).is_normal({target!r}) is False',
                            {'op': 'normalized', 'Cij': C.tolist(), 'system': target})
    # ---- isotropic modulus pairs ---------------------------------------------------------------------
    names = ['C11', 'C12', 'C44', 'M', 'lambda', 'mu', 'E', 'nu', 'K']
    same = [{'C11', 'M'}, {'C12', 'lambda'}, {'C44', 'mu'}]
    for it in range(ctx.n(24, 240) * big):
        if it % 8 == 0:
            lam, mu = Fraction(0), Fraction(rng.randint(1, 64), 8)            # nu = 0
        elif it % 8 == 4:
            lam, mu = Fraction(0), Fraction(rng.uniform(0.01, 300.0))         # nu = 0, moduli that are not dyadic
        elif it % 4 == 1:
            lam, mu = Fraction(rng.randint(1, 64), 8), Fraction(rng.randint(1, 64), 8)
        elif it % 4 == 2:
            mu = Fraction(rng.uniform(0.1, 200.0))
            lam = mu * Fraction(rng.uniform(0.0, 40.0) if it % 8 == 2 else 10.0 ** rng.uniform(1.5, 3.3))   # nu -> 1/2
        else:
            lam, mu = Fraction(rng.uniform(0.01, 100.0)), Fraction(rng.uniform(0.01, 100.0))
        tr = _iso_truth(lam, mu)
        want = np.array([[float(x) for x in r] for r in _iso_matrix(lam, mu)])
        nu = float(tr['nu'])
        for pair in itertools.combinations(names, 2):
            if set(pair) in same:
                continue
            if lam == 0 and 'nu' in pair and ({'C12', 'lambda'} & set(pair)):
                continue         # (lambda, nu) = (0, 0): the pair does not fix the material
            vals = _shuffled(rng, {k: float(tr[k]) for k in pair})
            ctx.stats.case('oracle:iso-pair', (pair, str(lam), str(mu)),
                           sample={'op': 'iso', 'kwargs': vals, 'lambda': float(lam), 'mu': float(mu)})
            r, e = _call(lambda: EC(**vals).Cij)
            # conditioning of the root formulas: derived from d(c44)/d(inputs) ~ 1/(1-2nu) resp. sqrt cancellation
            rtol = 1e-9 / (1 - 2 * nu) ** 2 if 'E' in pair else 1e-11 / (1 - 2 * nu)
            if e is not None or not np.allclose(r, want, rtol=rtol, atol=rtol * float(want.max())):
                d = 'raised ' + e if e else f'max diff {np.abs(r - want).max():.3e}'
                ctx.violate(f'iso:{pair[0]},{pair[1]}', f'ElasticConstants({vals}) is not the isotropic tensor with '
                            f'lambda={float(lam)}, mu={float(mu)} (nu={nu:.4f}): {d}',
                            {'op': 'iso', 'kwargs': vals, 'lambda': str(lam), 'mu': str(mu)})
    _search_scales(ctx, rng, big)
    _search_objects(ctx, rng, big)
    _search_audit(ctx, rng, big)
    _search_structured(ctx, rng, big)
    _search_near_ties(ctx, ctx.seed)
    _search_axis_lengths(ctx, random.Random(ctx.seed * 104729 + 5), big)


def _search_scales(ctx, rng, big):
    """unit systems (2^-40 .. 2^40), weakly anisotropic / weakly lower-symmetric tensors, small rotations,
    ill-conditioned tensors: all clauses at a tolerance relative to the tensor's own magnitude."""
    np = _np()
    import atomman as am
    EC = am.ElasticConstants
    kinds = ['isotropic', 'cubic', 'hexagonal', 'tetragonal', 'rhombohedral', 'orthorhombic']
    # (a) every exponent of the sweep once per run, general SPD and crystal tensors alternating
    exps = list(SCALE_EXPS)
    rng.shuffle(exps)
    exps = exps[:ctx.n(12, len(exps))] * (1 if not ctx.thorough else 4)
    exps += rng.sample(BIG_EXPS, ctx.n(3, len(BIG_EXPS)))
    for n, ex in enumerate(exps * big):
        sc = 2.0 ** ex
        if n % 3 == 0:
            C, what = _spd_dyadic(rng, 3), 'dyadic SPD'
        elif n % 3 == 1:
            C, what = _spd_float(rng), 'float SPD'
        else:
            k = kinds[(n // 3) % len(kinds)]
            C, what = _near_symmetric(rng, k, rng.choice(ANISO) * rng.uniform(1, 2)), 'nearly ' + k
        C = C * sc
        info = {'Cij': C.tolist(), 'scale_exp': ex}
        ec, e = _call(lambda: EC(Cij=C.copy()))
        if e is not None:
            ctx.violate('ctor:scale', f'ElasticConstants(Cij=SPD * 2^{ex}) raised {e}', {'op': 'representations', **info})
            continue
        _check_tensor_clauses(ctx, ec, info, f'{what} * 2^{ex}')
        _check_rotation_clauses(ctx, ec, _rand_rotation(rng), _rand_rotation(rng), _rand_strain(rng), info,
                                f'{what} * 2^{ex}')
    # (b) weakly anisotropic tensors at natural scale and a few others, general and small rotations
    for n in range(ctx.n(14, 200) * big):
        k = kinds[n % len(kinds)]
        eps = ANISO[n % len(ANISO)] * rng.uniform(1, 2)
        sc = 2.0 ** rng.choice([0, 0, 0, 7, -7, -13, 37])
        C = _near_symmetric(rng, k, eps) * sc
        R = _rand_rotation(rng) if n % 3 else _small_rotation(rng, 10.0 ** rng.uniform(-7, -2))
        _check_rotation_clauses(ctx, _new(ctx, {'Cij': C.tolist()}, f'nearly {k}', Cij=C.copy()), R,
                                _rand_rotation(rng), _rand_strain(rng),
                                {'Cij': C.tolist(), 'kind': k, 'eps': eps}, f'nearly {k} (eps {eps:.1e})')
    # (c) small rotations of strongly anisotropic tensors
    for n in range(ctx.n(8, 100) * big):
        C = _spd_float(rng, rng.choice([1.0, 160.2176621]))
        ang = 10.0 ** rng.uniform(-7.5, -1)
        _check_rotation_clauses(ctx, _new(ctx, {'Cij': C.tolist()}, 'SPD', Cij=C.copy()), _small_rotation(rng, ang),
                                _small_rotation(rng, ang * 3),
                                _rand_strain(rng), {'Cij': C.tolist(), 'angle': ang}, f'rotation by {ang:.1e} rad')
    # (c') crystal directions: integer vectors of different lengths, given as nested python lists
    for n in range(ctx.n(10, 100) * big):
        while True:
            a, b, c, d = (rng.randint(-3, 3) for _ in range(4))
            if (b or c or d) and (a or (b and c) or (b and d) or (c and d)):
                break
        Ri = [[a * a + b * b - c * c - d * d, 2 * (b * c - a * d), 2 * (b * d + a * c)],
              [2 * (b * c + a * d), a * a - b * b + c * c - d * d, 2 * (c * d - a * b)],
              [2 * (b * d - a * c), 2 * (c * d + a * b), a * a - b * b - c * c + d * d]]
        Ri = [[x * m for x in row] for row, m in zip(Ri, (1, rng.choice([1, 2]), rng.choice([1, 3])))]
        C = _spd_float(rng, rng.choice([1.0, 160.2176621]))
        ec = _new(ctx, {'Cij': C.tolist()}, 'SPD', Cij=C.copy())
        if ec is None:
            continue
        Rf = np.array(Ri, dtype=float)
        Rf = Rf / np.linalg.norm(Rf, axis=1)[:, None]
        ctx.stats.case('oracle:int-axes', (str(Ri), cm.frs(C)), sample={'op': 'intaxes', 'axes': Ri})
        r1, e1 = _call(lambda: ec.transform(Ri).Cij)
        r2, e2 = _call(lambda: ec.transform(Rf).Cij)
        mx = float(np.abs(C).max())
        if e1 is not None or e2 is not None or not np.allclose(r1, r2, rtol=1e-9, atol=_rot_tol(mx)):
            ctx.violate('transform:int-axes', f'transform with the integer direction vectors {Ri} '
                        f'({e1 or "ok"}) differs from transform with their unit vectors ({e2 or "ok"})',
                        {'op': 'rotation', 'Cij': C.tolist(), 'axes': Rf.tolist(), 'axes2': np.eye(3).tolist(),
                         'int_axes': Ri})
    # (d) ill-conditioned tensors (cond 1e2 .. 1e5)
    for n in range(ctx.n(8, 100) * big):
        cond = 10.0 ** rng.uniform(2, 5)
        C = _spd_cond(rng, cond)
        ec, e = _call(lambda: EC(Cij=C.copy()))
        if e is not None:
            continue
        _check_tensor_clauses(ctx, ec, {'Cij': C.tolist()}, f'SPD with cond {cond:.1e}')
    # (e) crystal systems and modulus pairs in other unit systems
    for n in range(ctx.n(2, 12) * len(SYS_KEYS) * big):
        # every system in a small-number unit system (compliances >= 1e9: structural zeros of the float inverse
        # carry rounding noise far above any absolute tolerance) and at another scale of the sweep
        ex = rng.choice([-40, -36, -33, -30]) if (n // len(SYS_KEYS)) % 2 == 0 else rng.choice(SCALE_EXPS + BIG_EXPS)
        sysname = list(SYS_KEYS)[n % len(SYS_KEYS)]
        vals = {k: v * 2.0 ** ex for k, v in _system_consts(rng, sysname).items()}
        ec, e = _call(lambda: EC(**vals))
        info = {'system': sysname, 'kwargs': vals}
        if e is not None:
            ctx.violate(f'ctor:{sysname}', f'ElasticConstants({vals}) raised {e}', {'op': 'system', **info})
            continue
        _check_tensor_clauses(ctx, ec, info, f'{sysname} * 2^{ex}')
        c = ec.Cij
        mx = float(np.abs(c).max())
        rots = _gen_rotations()
        for rn in SYS_ROTS[sysname]:
            if rn == 'rz':
                continue
            r, e = _call(lambda: ec.transform(rots[rn]).Cij)
            ctx.stats.case('oracle:invariance', (sysname, rn, cm.frs(c)))
            if e is not None or not np.allclose(r, c, rtol=1e-9, atol=_rot_tol(mx)):
                d = 'raised ' + e if e else f'max diff {np.abs(r - c).max():.3e}'
                ctx.violate(f'invariance:{sysname}', f'{sysname} tensor (* 2^{ex}) is not invariant under {rn}: {d}',
                            {'op': 'system', **info, 'rotation': rn, 'axes': rots[rn].tolist()})
        target = sysname.rstrip('6')
        n1, e = _call(lambda: ec.normalized_as(target))
        if target in SYSTEMS or e is None:
            if e is not None or not np.allclose(n1.Cij, c, rtol=1e-12, atol=1e-9 * mx):
                ctx.violate(f'normalized:fixes:{target}', f'normalized_as({target!r}) changes a {sysname} tensor '
                            f'(* 2^{ex}): {e or np.abs(n1.Cij - c).max()}', {'op': 'system', **info})
    # (e') compliance round trips of the systems whose float inverse has noisy structural zeros, in unit systems with
    # small stiffness numbers (large compliances) — and large ones
    for n in range(ctx.n(32, 320) * big):
        sysname = ['rhombohedral', 'tetragonal', 'monoclinic', 'rhombohedral6'][n % 4]
        ex = [-40, -37, -34, -31, -28, 20, 30, 40][(n // 4) % 8]
        vals = {k: v * 2.0 ** ex for k, v in _system_consts(rng, sysname).items()}
        ec, e = _call(lambda: EC(**vals))
        if e is not None:
            continue
        c = ec.Cij
        cond = float(np.linalg.cond(c))
        ctx.stats.case('oracle:compliance-roundtrip', (sysname, ex, cm.frs(c)))
        for nm in ('Sijkl', 'Sij'):
            r, e = _call(lambda: EC(**{nm: getattr(ec, nm)}).Cij)
            if e is not None or not np.allclose(r, c, rtol=1e-10 * cond, atol=2e-9 * float(np.abs(c).max())):
                ctx.violate(f'roundtrip:{nm}', f'{sysname} * 2^{ex}: ElasticConstants({nm}=ec.{nm}).Cij != ec.Cij ({e})',
                            {'op': 'representations', 'system': sysname, 'kwargs': vals})
    names = ['C11', 'C12', 'C44', 'E', 'nu', 'K']
    # stratified: small-number unit systems, large-number ones, and the far ends, every run
    strata = [[-40, -36, -30, -27], [-23, -20, -17, -14], [-13, -12, -10, -7], [7, 10, 14, 17], [20, 27, 33, 40],
              [-480, -300], [-200, -100], [100, 200, 300, 480]]
    for n in range(ctx.n(8, 64) * big):
        ex = rng.choice(strata[n % len(strata)])
        lam = Fraction(rng.randint(1, 64), 8) * Fraction(2) ** ex
        mu = Fraction(rng.randint(1, 64), 8) * Fraction(2) ** ex
        tr = _iso_truth(lam, mu)
        want = np.array([[float(x) for x in r] for r in _iso_matrix(lam, mu)])
        nu = float(tr['nu'])
        for pair in itertools.combinations(names, 2):
            vals = _shuffled(rng, {k: float(tr[k]) for k in pair})
            ctx.stats.case('oracle:iso-pair', (pair, str(lam), str(mu)))
            r, e = _call(lambda: EC(**vals).Cij)
            rtol = 1e-9 / (1 - 2 * nu) ** 2 if 'E' in pair else 1e-11 / (1 - 2 * nu)
            if e is not None or not np.allclose(r, want, rtol=rtol, atol=rtol * float(want.max())):
                d = 'raised ' + e if e else f'max diff {np.abs(r - want).max():.3e}'
                ctx.violate(f'iso:{pair[0]},{pair[1]}', f'ElasticConstants({vals}) is not the isotropic tensor with '
                            f'lambda={float(lam)}, mu={float(mu)} (nu={nu:.4f}): {d}',
                            {'op': 'iso', 'kwargs': vals, 'lambda': str(lam), 'mu': str(mu)})


def _search_objects(ctx, rng, big):
    """object-level clauses: all representations of ONE object describe one tensor whatever was read before
    (order, repetition, caller overwriting returned arrays) and whatever the object held before a set."""
    np = _np()
    import atomman as am
    EC = am.ElasticConstants
    pairs = [(a, b) for a in READ_NAMES for b in READ_NAMES]
    for n in range(ctx.n(3, 12) * big):
        if n % 3 == 0:
            C = _spd_float(rng, rng.choice([1.0, 160.2176621]))
        elif n % 3 == 1:
            C = _spd_dyadic(rng, 3) * 2.0 ** rng.choice(SCALE_EXPS)
        else:
            C = _near_symmetric(rng, rng.choice(['isotropic', 'cubic', 'hexagonal']), rng.choice(ANISO))
        info = {'Cij': C.tolist()}
        orders = (pairs if n < 2 * big or ctx.thorough else rng.sample(pairs, 30)) \
            + [rng.sample(READ_NAMES, len(READ_NAMES)) for _ in range(ctx.n(12, 120))] \
            + [[rng.choice(READ_NAMES) for _ in range(14)] for _ in range(ctx.n(4, 40))]
        _check_read_order(ctx, lambda: EC(Cij=C.copy()), orders, info, 'SPD object', scribble=True)
    # objects built from named constants (their own code paths into the stored matrix)
    for sysname in ['cubic', 'hexagonal', 'rhombohedral', 'monoclinic']:
        vals = _system_consts(rng, sysname)
        orders = [rng.sample(READ_NAMES, len(READ_NAMES)) for _ in range(ctx.n(4, 40))]
        _check_read_order(ctx, lambda: EC(**vals), orders, {'kwargs': vals}, sysname + ' object')
    # set -> read -> slightly different set -> read
    for n in range(ctx.n(40, 600) * big):
        C1 = _spd_float(rng, rng.choice([1.0, 160.2176621])) if n % 2 else _spd_dyadic(rng, 3)
        C2 = C1.copy()
        how = n % 5
        if how == 0:        # one coupling changed by a small relative amount
            a, b = rng.sample(range(6), 2)
            C2[a, b] = C2[b, a] = C2[a, b] + rng.choice([1e-7, 1e-6, 1e-5, 1e-3]) * C1.max() * rng.uniform(1, 2)
        elif how == 1:      # whole tensor rescaled slightly
            C2 = C1 * (1.0 + rng.choice([1e-7, 1e-6, 1e-4, 1e-2]))
        elif how == 2:      # one diagonal entry
            a = rng.randrange(6)
            C2[a, a] *= 1.0 + rng.choice([1e-7, 1e-5, 1e-3])
        elif how == 3:      # a different tensor altogether
            C2 = _spd_float(rng)
        else:               # the same tensor again
            pass
        named = None
        if n % 7 == 3:
            sysname = rng.choice(['cubic', 'hexagonal', 'tetragonal', 'orthorhombic'])
            named = (sysname, _system_consts(rng, sysname))
        _check_set_sequence(ctx, rng, C1, C2, {'Cij': C1.tolist()}, 'set sequence', named)
    for n in range(ctx.n(12, 120) * big):
        C1 = _spd_float(rng)
        _check_refused_set(ctx, rng, C1, {'Cij': C1.tolist()})


@_clause('refusedset')
def _check_refused_set(ctx, rng, C1, info, fixed=None):
    """a setter that raises must leave the object as it was"""
    np = _np()
    import atomman as am
    EC = am.ElasticConstants
    ec = EC(Cij=C1.copy())
    donor = EC(Cij=_spd_float(rng))
    kind = fixed or rng.choice(['Cij', 'Cij-neg', 'Sij', 'Sij-singular', 'Cij9', 'Cijkl', 'Sijkl', 'cubic'])

    def bad():
        if kind == 'Cij':
            v = donor.Cij
            v[0, 1] += 0.5
            ec.Cij = v
        elif kind == 'Cij-neg':
            ec.Cij = -donor.Cij
        elif kind == 'Sij':
            v = donor.Sij
            v[2, 4] += 0.5 * abs(v).max()
            ec.Sij = v
        elif kind == 'Sij-singular':
            ec.Sij = np.ones((6, 6))
        elif kind == 'Cij9':
            v = donor.Cij9
            v[7, 1] += 1.0
            ec.Cij9 = v
        elif kind == 'Cijkl':
            v = donor.Cijkl
            v[0, 1, 2, 2] += 0.5
            ec.Cijkl = v
        elif kind == 'Sijkl':
            v = donor.Sijkl
            v[0, 1, 2, 2] += 0.5 * abs(v).max()
            ec.Sijkl = v
        else:
            ec.cubic(C11=3.0, C12=1.0, C66=1.0)
    pre = rng.sample(READ_NAMES, 2)
    for nm in pre:
        _read(ec, nm)
    _, e = _call(bad)
    rep = {'op': 'refusedset', **info, 'setter': kind}
    ctx.stats.case('oracle:refused-set', (kind, cm.frs(C1)), sample=rep)
    if e is None:
        return      # accepting it is not against the property; only a refusal that half-happened is
    for nm in rng.sample(READ_NAMES, len(READ_NAMES)):
        if not _same_obs(_read(ec, nm), _read(EC(Cij=C1.copy()), nm)):
            ctx.violate(f'state:refused:{nm}', f'.{nm} changed although the set through {kind} was refused ({e})', rep)
            return


# ----------------------------------------------------------------------------------------
# cross-cutting audit: input forms, options, refusals, moduli definitions, is_normal tolerances, axes_check on its
# own, data-model representation under non-default working units.  Everything is decided by tables / formulas
# written out here (nothing is taken from the Lean model or from the code under test).
# ----------------------------------------------------------------------------------------
_ISO_QUANTITY = {'C11': 'M', 'M': 'M', 'C12': 'L', 'lambda': 'L', 'C44': 'G', 'mu': 'G', 'E': 'E', 'nu': 'nu', 'K': 'K'}
_HEX3 = {'C13', 'C33', 'C44'}
_HEXP = {'C11', 'C12', 'C66'}
_TET6 = {'C11', 'C12', 'C13', 'C33', 'C44', 'C66'}
_ORTHO = {'C11', 'C12', 'C13', 'C22', 'C23', 'C33', 'C44', 'C55', 'C66'}
_MONO = _ORTHO | {'C15', 'C25', 'C35', 'C46'}


def _method_admits(meth, keys):
    """does the documented keyword set of the crystal-system method `meth` admit exactly the key set `keys`?"""
    k = set(keys)
    if meth == 'isotropic':
        return len(k) == 2 and all(x in _ISO_QUANTITY for x in k) and len({_ISO_QUANTITY[x] for x in k}) == 2
    if meth == 'cubic':
        return k == {'C11', 'C12', 'C44'}
    if meth == 'hexagonal':
        return _HEX3 <= k <= _HEX3 | _HEXP and len(k & _HEXP) >= 2
    if meth == 'rhombohedral':
        base = _HEX3 | {'C14'}
        return base <= k <= base | _HEXP | {'C15'} and len(k & _HEXP) >= 2
    if meth == 'tetragonal':
        return _TET6 <= k <= _TET6 | {'C16'}
    if meth == 'orthorhombic':
        return k == _ORTHO
    if meth == 'monoclinic':
        return k == _MONO
    if meth == 'triclinic':
        return k == set(CIJ_KEYS)
    raise KeyError(meth)


def _init_route(keys):
    """the crystal-system method the constructor documents for a set of named constants (by their number), or None"""
    k = set(keys)
    n = len(k)
    route = {2: 'isotropic', 3: 'cubic', 5: 'hexagonal', 8: 'rhombohedral', 9: 'orthorhombic', 13: 'monoclinic',
             21: 'triclinic'}.get(n)
    if n in (6, 7):
        route = 'rhombohedral' if 'C14' in k else 'tetragonal'
    return route


def _init_admits(keys):
    r = _init_route(keys)
    return r is not None and _method_admits(r, keys)


def _consistent_values(rng, keys):
    """values for a set of named constants that describe a stable material; a redundant C66 is consistent"""
    vals = {}
    for k in keys:
        if k in CIJ_KEYS:
            i, j = int(k[1]), int(k[2])
            vals[k] = (rng.uniform(6.0, 14.0) * (0.4 if i > 3 else 1.0) if i == j
                       else rng.uniform(1.0, 4.0) if j <= 3 else rng.uniform(-1.0, 1.0))
        else:
            vals[k] = rng.uniform(0.5, 3.0)
    if 'nu' in vals:
        vals['nu'] = rng.uniform(0.05, 0.45)
    if _HEXP <= set(keys) and 'C16' not in keys and ('C14' in keys or len(keys) <= 6) and 'C22' not in keys:
        vals['C12'] = min(vals['C12'], vals['C11'] - 2.0)
        vals['C66'] = (vals['C11'] - vals['C12']) / 2
    return vals


_TYPOS = ['foo', 'C77', 'C21', 'C01', 'c11', 'C', 'C111', 'Cij_', 'C 11', 'c44', 'C54', 'nu_', 'lamda', 'Mu', 'e', 'k']


@_clause('refusals')
def _check_keyword_refusals(ctx, rng, n):
    """keyword sets: every documented set constructs, everything else is refused with TypeError — through the
    constructor and through the crystal-system method itself.  Decided by `_method_admits` / `_init_route`."""
    import atomman as am
    EC = am.ElasticConstants
    base_sets = [set(ks) for ks in SYS_KEYS.values()] + [{'C11', 'C12'}, {'E', 'nu'}, {'lambda', 'mu'}, {'M', 'K'}] \
        + [_HEX3 | {'C11', 'C66'}, _HEX3 | {'C12', 'C66'}, _HEX3 | {'C14'} | _HEXP, _HEX3 | {'C14', 'C15'} | _HEXP,
           _HEX3 | {'C14', 'C15', 'C12', 'C66'}, set(CIJ_KEYS)]
    meth_sets = [(m_, b_) for b_ in base_sets for m_ in ('isotropic', 'cubic', 'hexagonal', 'rhombohedral', 'tetragonal',
                                                        'orthorhombic', 'monoclinic', 'triclinic') if _method_admits(m_, b_)]
    # two names of one modulus next to a third keyword (the aliases are folded into one key by the method)
    for a1, a2 in (('M', 'C11'), ('lambda', 'C12'), ('mu', 'C44')):
        third = rng.choice([k for k in _ISO_QUANTITY if _ISO_QUANTITY[k] != _ISO_QUANTITY[a1]])
        vals = _shuffled(rng, {a1: 7.0, a2: 7.0, third: 0.25 if third == 'nu' else 3.0})
        obj = EC(C11=10., C12=4., C44=3.)
        r, e = _call(lambda: obj.isotropic(**vals))
        ctx.stats.case('oracle:keyword-sets:method', ('isotropic', tuple(sorted(vals))))
        if e != 'err:type':
            ctx.violate('refusal:missing:isotropic', f'isotropic({sorted(vals)}): three keywords, two of them names of the '
                        f'same modulus: {e or "accepted (one keyword silently dropped)"}',
                        {'op': 'refusal', 'what': 'keywords', 'keys': sorted(vals), 'method': 'isotropic', 'kwargs': vals})
    for it in range(n):
        # first a systematic sweep: every method x every documented set of it x (one keyword too many | one replaced |
        # one missing), called on the method itself; then random perturbations through the constructor as well
        forced = None
        if it < 3 * len(meth_sets):
            forced, keys = meth_sets[it // 3]
            keys = set(keys)
            how = 1 + it % 3
        else:
            keys = set(rng.choice(base_sets))
            how = it % 5
        if how == 1:                      # a typo / a constant that does not belong to the system instead of one key
            keys.discard(rng.choice(sorted(keys)))
            keys.add(rng.choice(_TYPOS + [k for k in CIJ_KEYS if k not in keys]))
        elif how == 2:                    # one keyword too many (for a modulus pair: another name of a modulus)
            if all(k in _ISO_QUANTITY for k in keys) and rng.random() < 0.7:
                keys.add(rng.choice([k for k in _ISO_QUANTITY if k not in keys]))
            else:
                keys.add(rng.choice(_TYPOS + [k for k in CIJ_KEYS + ['E', 'K', 'nu'] if k not in keys]))
        elif how == 3:                    # one keyword missing
            keys.discard(rng.choice(sorted(keys)))
        elif how == 4:                    # a matrix keyword mixed with named constants
            keys.add(rng.choice(['Cij', 'Sij', 'Cij9', 'Cijkl', 'Sijkl']))
        if not keys:
            continue
        vals = _shuffled(rng, _consistent_values(rng, [k for k in keys if k not in MATRIX_KEYS]))
        mixed = keys & set(MATRIX_KEYS)
        if mixed:
            donor = EC(C11=10., C12=4., C44=3.)
            for mk in mixed:
                vals[mk] = getattr(donor, mk)
            vals = _shuffled(rng, vals)
        rep = {'op': 'refusal', 'what': 'keywords', 'keys': sorted(keys)}
        ctx.stats.case('oracle:keyword-sets', tuple(sorted(keys)), sample=rep)
        want_ok = (not mixed) and _init_admits(keys)
        r, e = _call(lambda: EC(**vals).Cij)
        if want_ok and e is None and any(k in CIJ_KEYS and k[1] != k[2] and int(k[2]) > 3 for k in keys):
            # falsy but valid: coupling / optional constants given as zero (float, int, negative zero)
            z = rng.choice([0.0, 0, -0.0])
            v0 = {k: (z if (k in CIJ_KEYS and k[1] != k[2] and int(k[2]) > 3) else v) for k, v in vals.items()}
            r0, e0 = _call(lambda: EC(**v0).Cij)
            ok0 = e0 is None and all(r0[int(k[1]) - 1, int(k[2]) - 1] == v for k, v in v0.items()
                                     if k in CIJ_KEYS and not (k == 'C66' and 'C11' in keys and 'C12' in keys))
            if not ok0:
                ctx.violate('refusal:spurious:zero', f'ElasticConstants({sorted(keys)}) with the coupling constants given '
                            f'as {z!r}: {e0 or "constants not stored as given"}', {**rep, 'kwargs': v0})
        if want_ok and e is not None:
            ctx.violate('refusal:spurious:init', f'ElasticConstants({sorted(keys)}) is a documented keyword set but '
                        f'raised {e}', {**rep, 'kwargs': {k: v for k, v in vals.items() if k not in MATRIX_KEYS}})
        elif not want_ok and e is None:
            ctx.violate('refusal:missing:init', f'ElasticConstants({sorted(keys)}) is not a documented keyword set '
                        'but was accepted (keywords silently ignored / misread)',
                        {**rep, 'kwargs': {k: v for k, v in vals.items() if k not in MATRIX_KEYS}})
        elif not want_ok and not mixed and e != 'err:type':
            ctx.violate('refusal:class:init', f'ElasticConstants({sorted(keys)}) raised {e}, documented: TypeError',
                        {**rep, 'kwargs': vals})
        if mixed:
            continue
        # the crystal-system methods called directly (each documents its own keyword set)
        meths = {_init_route(keys), forced} | {rng.choice(['cubic', 'hexagonal', 'rhombohedral', 'tetragonal', 'orthorhombic',
                                                           'monoclinic', 'isotropic'])}
        for meth in sorted(m for m in meths if m):
            want = _method_admits(meth, keys)
            obj = EC(C11=10., C12=4., C44=3.)
            before = obj.Cij
            r, e = _call(lambda: getattr(obj, meth)(**vals))
            ctx.stats.case('oracle:keyword-sets:method', (meth, tuple(sorted(keys))))
            repm = {**rep, 'method': meth, 'kwargs': vals}
            if want and e is not None:
                ctx.violate(f'refusal:spurious:{meth}', f'{meth}({sorted(keys)}) is documented but raised {e}', repm)
            elif not want and e is None:
                ctx.violate(f'refusal:missing:{meth}', f'{meth}({sorted(keys)}) is not a documented keyword set of '
                            f'{meth} but was accepted (a keyword was silently ignored)', repm)
            elif not want and e != 'err:type':
                ctx.violate(f'refusal:class:{meth}', f'{meth}({sorted(keys)}) raised {e}, documented: TypeError', repm)
            elif not want and not _np().array_equal(obj.Cij, before):
                ctx.violate(f'state:refused:{meth}', f'{meth}({sorted(keys)}) was refused but changed the object', repm)


@_clause('refusals')
def _check_call_refusals(ctx, rng, n):
    """refusals that are decided from the values: redundant C66, left-handed / non-orthogonal axes, unknown
    estimate styles and crystal systems, malformed matrices.  Independent decision, and the refusal must come
    from the call itself (the object is untouched)."""
    np = _np()
    import atomman as am
    EC = am.ElasticConstants
    sp = _signed_perms()
    for it in range(n):
        C = _spd_float(rng, rng.choice([1.0, 160.2176621]))
        ec = EC(Cij=C.copy())
        R = sp[rng.randrange(len(sp))] if it % 2 else _rand_rotation(rng)
        R = R * np.array([[rng.choice([1.0, 2.0, 0.5, 3.0])] for _ in range(3)])
        rep = {'op': 'refusal', 'what': 'axes', 'Cij': C.tolist()}
        # improper: one row negated, two rows exchanged, all rows negated (every position of the flip)
        bads = []
        for i in range(3):
            B = R.copy()
            B[i] = -B[i]
            bads.append((f'row {i} negated', B))
            B = R.copy()
            B[[i, (i + 1) % 3]] = B[[(i + 1) % 3, i]]
            bads.append((f'rows {i},{(i + 1) % 3} exchanged', B))
        bads.append(('all rows negated', -R))
        for what, B in bads:
            ctx.stats.case('oracle:refusal:axes', (what, cm.frs(B)))
            for form, arg in (('array', B), ('list', B.tolist())):
                r, e = _call(lambda: ec.transform(arg).Cij)
                if e != 'err:value':
                    ctx.violate('refusal:missing:left-handed', f'transform accepted left-handed axes ({what}, given as '
                                f'{form}): {e or "returned a tensor"}', {**rep, 'axes': B.tolist()})
                    break
        # not orthogonal: row 0 tilted towards row 1 by delta (relative to unit length)
        U = R / np.linalg.norm(R, axis=1)[:, None]
        for delta, want_ok in ((1e-3, False), (1e-5, False), (3e-8, False), (1e-11, True), (0.0, True)):
            B = U.copy()
            k0, k1 = rng.sample(range(3), 2)
            B[k0] = B[k0] + delta * B[k1]
            B = B * np.array([[rng.choice([1.0, 2.0, 4.0])] for _ in range(3)])
            r, e = _call(lambda: ec.transform(B).Cij)
            ctx.stats.case('oracle:refusal:axes', ('tilt', delta, cm.frs(B)))
            if want_ok and e is not None:
                ctx.violate('refusal:spurious:axes', f'transform refused axes orthogonal to {delta:g}: {e}',
                            {**rep, 'axes': B.tolist()})
            if not want_ok and e != 'err:value':
                ctx.violate('refusal:missing:non-orthogonal', f'transform accepted axes {delta:g} off orthogonal: '
                            f'{e or "returned a tensor"}', {**rep, 'axes': B.tolist()})
        for shp in ((2, 3), (3,), (3, 3, 1), (4, 4)):
            r, e = _call(lambda: ec.transform(np.ones(shp)).Cij)
            if e is None:
                ctx.violate('refusal:missing:axes-shape', f'transform accepted axes of shape {shp}', rep)
        # estimate styles / crystal systems: exact spellings only
        for style in ('hill', 'voigt', 'REUSS', '', 'Hil', 'Hill ', 'VRH', None):
            for which in ('bulk', 'shear'):
                r, e = _call(lambda: getattr(ec, which)(style))
                ctx.stats.case('oracle:refusal:style', (which, style))
                if e != 'err:value':
                    ctx.violate(f'refusal:missing:{which}-style', f'{which}({style!r}) is not a documented style but '
                                f'gave {e or r}', {**rep, 'what': 'style', 'style': style})
        for sysname in ('Cubic', 'trigonal', '', 'iso', 'hcp', 'cubic '):
            for f, nm in ((lambda: ec.normalized_as(sysname).Cij, 'normalized_as'), (lambda: ec.is_normal(sysname), 'is_normal')):
                r, e = _call(f)
                ctx.stats.case('oracle:refusal:system', (nm, sysname))
                if e != 'err:value':
                    ctx.violate(f'refusal:missing:{nm}', f'{nm}({sysname!r}) is not a crystal system but gave '
                                f'{e or "a result"}', {**rep, 'what': 'system', 'system': sysname})
        # malformed matrices
        bad_inputs = [('Cij', C[:5, :]), ('Cij', C.ravel()), ('Sij', C[:, :5]), ('Cij9', C), ('Cijkl', C),
                      ('Sijkl', ec.Cij9), ('Cij', -np.abs(C)), ('Cij', np.zeros((6, 6))), ('Cijkl', -np.abs(ec.Cijkl))]
        A = C.copy()
        A[1, 4] += 1e-3 * C.max()
        bad_inputs += [('Cij', A), ('Cij', np.triu(C))]
        T = ec.Cijkl
        T[0, 1, 2, 2] += 1e-3 * C.max()
        bad_inputs.append(('Cijkl', T))
        N = ec.Cij9
        N[6, 2] = np.nextafter(N[6, 2], np.inf)
        bad_inputs.append(('Cij9', N))
        for nm, arr in bad_inputs:
            obj = EC(Cij=C.copy())
            r, e = _call(lambda: setattr(obj, nm, arr))
            ctx.stats.case('oracle:refusal:matrix', (nm, cm.frs(arr)[:400]))
            if e is None:
                ctx.violate(f'refusal:missing:{nm}', f'the {nm} setter accepted a malformed array of shape '
                            f'{np.shape(arr)} (asymmetric / wrong shape / no positive entry)', {**rep, 'what': nm})
            elif not np.array_equal(obj.Cij, ec.Cij):
                ctx.violate(f'state:refused:{nm}', f'the {nm} setter refused its input ({e}) but changed the object',
                            {**rep, 'what': nm})
        # redundant C66 (hexagonal method, rhombohedral through the constructor)
        vals = _consistent_values(rng, _HEX3 | {'C14'} | _HEXP)
        for off, want_ok in ((0.0, True), (1e-12, True), (1e-3, False), (-0.5, False)):
            v2 = _shuffled(rng, {**vals, 'C66': vals['C66'] * (1 + off)})
            r, e = _call(lambda: EC(**v2).Cij)
            ctx.stats.case('oracle:refusal:c66', (off, repr(sorted(v2.items()))))
            if want_ok and e is not None:
                ctx.violate('refusal:spurious:C66', f'a consistent redundant C66 (relative offset {off:g}) was refused: {e}',
                            {'op': 'refusal', 'what': 'C66', 'kwargs': v2})
            if not want_ok and e != 'err:type':
                ctx.violate('refusal:missing:C66', f'C66 differing from (C11-C12)/2 by {off:g} (relative) gave '
                            f'{e or "a tensor"}', {'op': 'refusal', 'what': 'C66', 'kwargs': v2})


def _frac_inv6(M):
    """exact inverse of a 6x6 of Fractions (Gauss-Jordan); None if singular"""
    n = 6
    A = [list(r) + [Fraction(int(i == j)) for j in range(n)] for i, r in enumerate(M)]
    for c in range(n):
        p = next((r for r in range(c, n) if A[r][c] != 0), None)
        if p is None:
            return None
        A[c], A[p] = A[p], A[c]
        d = A[c][c]
        A[c] = [x / d for x in A[c]]
        for r in range(n):
            if r != c and A[r][c] != 0:
                f = A[r][c]
                A[r] = [x - f * y for x, y in zip(A[r], A[c])]
    return [row[n:] for row in A]


@_clause('moduli')
def _check_moduli(ctx, ec, info, tag):
    """Voigt / Reuss / Hill by their definitions (isotropic traces of C and of the exact inverse of C); the documented
    default style; positional and keyword spelling."""
    np = _np()
    c = ec.Cij
    cond = float(np.linalg.cond(c))
    if cond > 1e6:
        return
    F = [[Fraction(float(x)) for x in row] for row in c]
    S = _frac_inv6(F)
    ctx.stats.case('oracle:moduli', (tag, cm.frs(c)))
    if S is None:
        return
    tr = lambda M: M[0][0] + M[1][1] + M[2][2]                    # noqa: E731
    off = lambda M: M[0][1] + M[1][2] + M[0][2]                   # noqa: E731
    sh = lambda M: M[3][3] + M[4][4] + M[5][5]                    # noqa: E731
    want = {('bulk', 'Voigt'): (tr(F) + 2 * off(F)) / 9, ('shear', 'Voigt'): (tr(F) - off(F) + 3 * sh(F)) / 15,
            ('bulk', 'Reuss'): 1 / (tr(S) + 2 * off(S)), ('shear', 'Reuss'): 15 / (4 * tr(S) - 4 * off(S) + 3 * sh(S))}
    for which in ('bulk', 'shear'):
        want[which, 'Hill'] = (want[which, 'Voigt'] + want[which, 'Reuss']) / 2
    rep = {**info, 'op': 'moduli'}
    for (which, style), w in want.items():
        got, e = _call(lambda: getattr(ec, which)(style))
        tol = 1e-13 * (1.0 if style == 'Voigt' else cond)
        scale = max(abs(float(want[which, 'Voigt'])), abs(float(w)))
        if e is not None or not abs(float(got) - float(w)) <= tol * scale:
            ctx.violate(f'moduli:definition:{which}:{style}', f'{tag}: {which}({style!r}) = {e or float(got)}, by its '
                        f'definition {float(w)}', rep)
        gk, e = _call(lambda: getattr(ec, which)(style=style))
        if e is not None or gk != got:
            ctx.violate(f'moduli:keyword:{which}', f'{tag}: {which}(style={style!r}) = {e or gk} differs from '
                        f'{which}({style!r}) = {got}', rep)
    for which in ('bulk', 'shear'):
        d, e = _call(lambda: getattr(ec, which)())
        h = getattr(ec, which)('Hill')
        if e is not None or d != h:
            ctx.violate(f'moduli:default:{which}', f"{tag}: {which}() = {e or d} is not the documented default "
                        f"{which}('Hill') = {h}", rep)


@_clause('isnormal')
def _check_is_normal_tolerances(ctx, rng, n):
    """is_normal(system, atol, rtol) is allclose(Cij, normalized Cij) with THESE tolerances: absolute and relative parts
    separately, keyword and positional, and the defaults; decided entry by entry here."""
    np = _np()
    import atomman as am
    EC = am.ElasticConstants
    kinds = ['isotropic', 'cubic', 'hexagonal', 'tetragonal', 'rhombohedral', 'orthorhombic']
    for it in range(n):
        kind = kinds[it % len(kinds)]
        eps = rng.choice([1e-6, 1e-5, 1e-4, 1e-3, 1e-2, 1e-1])
        C = _near_symmetric(rng, kind, eps * rng.uniform(1, 2)) * 2.0 ** rng.choice([0, 0, 7, -7, 20])
        ec = EC(Cij=C.copy())
        c = ec.Cij
        mx = float(np.abs(c).max())
        for target in {kind, rng.choice(SYSTEMS)}:
            nrm = ec.normalized_as(target).Cij
            d = np.abs(c - nrm)
            tols = [(0.0, r) for r in (1e-7, 1e-5, 1e-3, 1e-1)] + [(a * mx, 0.0) for a in (1e-7, 1e-5, 1e-3, 1e-1)] \
                + [(1e-4 * mx, 1e-2), (1e-2 * mx, 1e-6), (None, None)]
            for a, r in tols:
                aa, rr = (1e-4, 1e-4) if a is None else (a, r)
                lim = aa + rr * np.abs(nrm)
                if np.any((np.abs(d - lim) <= 1e-13 * mx + 1e-6 * lim) & ~((d == 0) & (lim == 0))):
                    continue                  # an entry sits at the boundary
                want = bool(np.all(d <= lim))
                rep = {'op': 'isnormal', 'Cij': C.tolist(), 'system': target, 'atol': a, 'rtol': r}
                ctx.stats.case('oracle:is-normal', (target, a, r, cm.frs(c)), sample=rep if it < 3 else None)
                calls = [('defaults', lambda: ec.is_normal(target))] if a is None else \
                    [('keywords', lambda: ec.is_normal(target, atol=a, rtol=r)),
                     ('positional', lambda: ec.is_normal(target, a, r)),
                     ('keywords reversed', lambda: ec.is_normal(rtol=r, crystal_system=target, atol=a))]
                for how, f in calls:
                    got, e = _call(f)
                    if e is not None or bool(got) != want:
                        ctx.violate('is_normal:tolerances', f'is_normal({target!r}, atol={aa:g}, rtol={rr:g}) [{how}] on a '
                                    f'nearly {kind} tensor (eps {eps:g}) gave {e or got}; entrywise |C - normalized| '
                                    f'<= atol + rtol*|normalized| is {want} (max deviation {d.max():.3e})', rep)
                        break


def _totuple(a):
    return tuple(_totuple(x) for x in a) if isinstance(a, list) else a


def _snapshot(x):
    np = _np()
    if isinstance(x, np.ndarray):
        return ('nd', x.dtype.str, x.shape, x.strides, x.tobytes())
    return ('py', repr(x))


def _array_forms(arr, rng, exact32, integral):
    """the same numbers in the ways callers hold them; -> (name, object)"""
    np = _np()
    out = [('list', arr.tolist()), ('tuple', _totuple(arr.tolist())), ('fortran', np.asfortranarray(arr))]
    ro = arr.copy()
    ro.flags.writeable = False
    out.append(('read-only', ro))
    big = np.full(tuple(2 * s + 1 for s in arr.shape), -3.5)
    sl = tuple(slice(1, None, 2) for _ in arr.shape)
    big[sl] = arr
    out.append(('strided view', big[sl]))
    out.append(('transposed twice', arr.T.copy().T))
    if exact32:
        out.append(('float32', arr.astype(np.float32)))
    if integral:
        out += [('int64', arr.astype(np.int64)), ('int32', arr.astype(np.int32)),
                ('list of int', arr.astype(np.int64).tolist())]
    return out


@_clause('inputforms')
def _check_matrix_input_forms(ctx, rng, n):
    """the five array entry points accept array-likes: lists, tuples, Fortran / strided / read-only arrays, float32,
    integer dtypes.  Same numbers in -> bitwise the same object; the input is not modified; nothing handed out or
    stored shares memory with it; every getter returns float64."""
    np = _np()
    import atomman as am
    EC = am.ElasticConstants
    for it in range(n):
        integral = it % 2 == 0
        C = _spd_dyadic(rng, 3)
        if integral:
            C = np.round(C * 8.0)
        donor = EC(Cij=C.copy())
        for nm in ('Cij', 'Sij', 'Cij9', 'Cijkl', 'Sijkl'):
            arr = getattr(donor, nm)
            stiff = not nm.startswith('S')
            forms = _array_forms(arr, rng, exact32=True, integral=integral and stiff)
            for fname, obj in forms:
                base = np.array(obj, dtype='float64')           # what these numbers are, as a fresh float64 array
                ref, eref = _call(lambda: EC(**{nm: base.copy()}))
                if eref is not None:
                    continue
                snap = _snapshot(obj)
                rep = {'op': 'inputform', 'Cij': C.tolist(), 'entry': nm, 'form': fname}
                ctx.stats.case('oracle:input-forms', (nm, fname, cm.frs(C)), sample=rep if it < 2 else None)
                how = it % 3
                if how == 0:
                    ec, e = _call(lambda: EC(**{nm: obj}))
                elif how == 1:
                    ec = EC()
                    _, e = _call(lambda: setattr(ec, nm, obj))
                else:
                    ec = EC(C11=3., C12=1., C44=1.)
                    _, e = _call(lambda: setattr(ec, nm, obj))
                if e is not None:
                    ctx.violate(f'input-form:refused:{nm}', f'{nm} given as {fname} was refused ({e}); the same numbers '
                                'as a float64 array are accepted', rep)
                    continue
                if _snapshot(obj) != snap:
                    ctx.violate(f'input-form:modified:{nm}', f'the {fname} handed to {nm} was modified', rep)
                for rd in ('Cij', 'Sij', 'Cij9', 'Cijkl', 'Sijkl'):
                    a, b = _read(ec, rd), _read(ref, rd)
                    if not _same_obs(a, b):
                        ctx.violate(f'input-form:value:{nm}', f'{nm} given as {fname}: .{rd} differs from the object '
                                    'built from the same numbers as a float64 array', rep)
                        break
                    if isinstance(a, np.ndarray) and (a.dtype != np.float64 or not a.flags.writeable
                                                      or (isinstance(obj, np.ndarray) and np.shares_memory(a, obj))):
                        ctx.violate(f'input-form:dtype:{nm}', f'{nm} given as {fname}: .{rd} is returned as {a.dtype}, '
                                    f'writeable={a.flags.writeable}, shares memory with the input='
                                    f'{isinstance(obj, np.ndarray) and bool(np.shares_memory(a, obj))}', rep)
                        break
                # the caller goes on using its array
                if isinstance(obj, np.ndarray) and obj.flags.writeable:
                    keep = ec.Cij
                    obj[...] = 1
                    if not np.array_equal(ec.Cij, keep):
                        ctx.violate(f'input-form:aliased:{nm}', f'the object built from {nm} given as {fname} changes '
                                    'when the caller overwrites its array', rep)


_WRAPPERS = ['float', 'int', 'np.int64', 'np.int32', 'np.float32', 'np.float64', '0-d array', '0-d int array']


def _wrap(np, how, v):
    if how == 'int':
        return int(v)
    if how == 'np.int64':
        return np.int64(v)
    if how == 'np.int32':
        return np.int32(v)
    if how == 'np.float32':
        return np.float32(v)
    if how == 'np.float64':
        return np.float64(v)
    if how == '0-d array':
        return np.array(float(v))
    if how == '0-d int array':
        return np.array(int(v))
    return float(v)


@_clause('inputforms')
def _check_scalar_input_forms(ctx, rng, n):
    """named constants and modulus pairs given as python int / float / numpy integer and float scalars / 0-d arrays,
    mixed within one call: the same numbers describe the same tensor (magnitudes from 1 to 1e11: Pa as integers)."""
    np = _np()
    import atomman as am
    EC = am.ElasticConstants
    for it in range(n):
        if it % 2 == 0:
            # crystal constants: integer valued (2*C66 = C11 - C12 even), times a magnitude
            sysname = list(SYS_KEYS)[(it // 2) % len(SYS_KEYS)]
            mag = rng.choice([1, 1, 10, 1000, 10 ** 6])
            vals = {}
            for k in SYS_KEYS[sysname]:
                i, j = int(k[1]), int(k[2])
                vals[k] = mag * (2 * rng.randint(30, 60) if i == j else 2 * rng.randint(5, 12) if j <= 3
                                 else rng.choice([-4, -2, 2, 4, 0]))
            tag, tol = sysname, 0.0
        else:
            # modulus pairs with integer values: mu = lambda = 6a -> C11 18a, C12 6a, C44 6a, E 15a, K 10a
            mags = [1, 7, 1000, 2000, 30000, 10 ** 7, 3 * 10 ** 9, 10 ** 10]
            a = mags[(it // 2) % len(mags)]
            truth = {'C11': 18 * a, 'C12': 6 * a, 'C44': 6 * a, 'M': 18 * a, 'lambda': 6 * a, 'mu': 6 * a, 'E': 15 * a,
                     'K': 10 * a}
            prods = [('C11', 'E'), ('C12', 'E'), ('C44', 'E'), ('E', 'K'), ('M', 'E'), ('lambda', 'E'), ('mu', 'E')]
            if (it // 2) % 3 != 2:       # the pairs whose formulas multiply two moduli, in turn
                pair = list(prods[(it // 2 // 3) % len(prods)])
            else:
                while True:
                    pair = rng.sample(sorted(truth), 2)
                    if _ISO_QUANTITY[pair[0]] != _ISO_QUANTITY[pair[1]]:
                        break
            vals = {k: truth[k] for k in pair}
            tag, tol = 'isotropic pair', 1e-12
        ref, e0 = _call(lambda: EC(**{k: float(v) for k, v in vals.items()}).Cij)
        if e0 is not None:
            continue
        if it % 2 == 1:
            want = np.array([[float(x) for x in r] for r in _iso_matrix(Fraction(6 * a), Fraction(6 * a))])
            if not np.allclose(ref, want, rtol=1e-12, atol=0):
                ctx.violate('iso:integer-valued', f'ElasticConstants({vals}) (floats) is not lambda = mu = {6 * a}',
                            {'op': 'scalarform', 'kwargs': {k: float(v) for k, v in vals.items()}, 'forms': {}})
        for rep_ in range(4):
            forms = {k: rng.choice(_WRAPPERS) for k in vals}
            if rep_ == 0:                # all numpy integers (e.g. taken from an integer array)
                forms = {k: 'np.int32' for k in vals}
            elif rep_ == 1:
                forms = {k: 'np.float32' for k in vals}
            if max(abs(v) for v in vals.values()) >= 2 ** 31:
                forms = {k: ('np.int64' if f in ('np.int32',) else f) for k, f in forms.items()}
            if max(abs(v) for v in vals.values()) >= 2 ** 24:
                forms = {k: ('np.float64' if f == 'np.float32' else f) for k, f in forms.items()}
            wrapped = _shuffled(rng, {k: _wrap(np, forms[k], v) for k, v in vals.items()})
            rep = {'op': 'scalarform', 'kwargs': {k: float(v) for k, v in vals.items()}, 'forms': forms}
            ctx.stats.case('oracle:scalar-forms', (tag, repr(sorted(vals.items())), repr(sorted(forms.items()))),
                           sample=rep if it < 4 else None)
            got, e = _call(lambda: EC(**wrapped).Cij)
            if e is not None or got.dtype != np.float64 or not np.allclose(got, ref, rtol=tol, atol=0):
                d = e or (f'dtype {got.dtype}' if got.dtype != np.float64 else f'max relative difference '
                          f'{np.abs(got - ref).max() / np.abs(ref).max():.3e}')
                ctx.violate(f'input-form:scalars:{tag.split()[0]}', f'ElasticConstants({vals}) given as {forms} differs '
                            f'from the same numbers given as python floats: {d}', rep)
                break


@_clause('transformoptions')
def _check_transform_options(ctx, rng, n):
    """transform(axes, tol): `tol` explicit / positional / zero; axes as nested lists of ints, tuples, integer and
    float32 arrays, Fortran / read-only / strided arrays, non-unit rows.  Signed-permutation axes and tensors with a
    few planted small entries: the rotation is exact in floating point, so the expected 6x6 — entries below
    tol*max dropped, then the Cij setter's 1e-9*max — is known exactly."""
    np = _np()
    import atomman as am
    EC = am.ElasticConstants
    sp = _signed_perms()
    for it in range(n):
        C = _spd_dyadic(rng, 2) * 2.0 ** rng.choice([0, 0, 9, -9, -30, 30])
        mx = float(C.max())
        planted = [3e-10, 5e-9, 2.5e-8, 6e-8, 1.5e-6, 1e-4, 2e-3]
        for f in rng.sample(planted, 4):
            a, b = rng.sample(range(6), 2)
            C[a, b] = C[b, a] = f * mx * rng.choice([1.0, -1.0])
        ec, e = _call(lambda: EC(Cij=C.copy()))
        if e is not None:
            continue
        R = sp[rng.randrange(len(sp))]
        TF = [[Fraction(float(x)) for x in row] for row in R]
        want4 = _rot4(TF, _F(ec.Cijkl))
        W = np.array([[float(want4[27 * i + 9 * j + 3 * k + l]) for (k, l) in ((0, 0), (1, 1), (2, 2), (1, 2), (0, 2), (0, 1))]
                      for (i, j) in ((0, 0), (1, 1), (2, 2), (1, 2), (0, 2), (0, 1))])
        wmx = float(W.max())
        for tol, how in ((None, 'default'), (0, 'kw'), (0.0, 'pos'), (1e-12, 'kw'), (1e-7, 'pos'), (1e-5, 'kw'), (1e-3, 'pos')):
            t = 1e-8 if tol is None else float(tol)
            ratio = np.abs(W / wmx)
            if np.any((np.abs(ratio - t) <= 1e-6 * t) & (ratio > 0)) or np.any(np.abs(ratio - 1e-9) <= 1e-15):
                continue
            exp = W.copy()
            exp[ratio < t] = 0.0
            exp[np.abs(exp / exp.max()) <= 1e-9] = 0.0
            f = {'default': lambda: ec.transform(R), 'kw': lambda: ec.transform(R, tol=tol),
                 'pos': lambda: ec.transform(R, tol)}[how]
            got, e = _call(lambda: f().Cij)
            rep = {'op': 'transformtol', 'Cij': C.tolist(), 'axes': R.tolist(), 'tol': tol, 'how': how}
            ctx.stats.case('oracle:transform-tol', (how, tol, cm.frs(C), cm.frs(R)), sample=rep if it < 2 else None)
            if e is not None or not np.array_equal(got, exp):
                bad = '' if e else f'; first differing entry {tuple(np.argwhere(got != exp)[0])}: ' \
                    f'{got[tuple(np.argwhere(got != exp)[0])]!r} expected {exp[tuple(np.argwhere(got != exp)[0])]!r}'
                ctx.violate('transform:tol', f'transform(signed permutation, tol={tol!r} [{how}]) of a tensor with small '
                            f'entries: {e or "differs from the exactly rotated tensor with |C/Cmax| < tol dropped"}{bad}', rep)
        # tol is the clean-up threshold of the rotated tensor ONLY: it neither licenses skewed axes (a large tol) nor
        # forbids axes that are orthonormal to rounding (tol = 0); the orthogonality tolerance stays axes_check's own
        Rf = _rand_rotation(rng)
        ref, e0 = _call(lambda: ec.transform(Rf).Cij)
        for tol, how in ((0, 'kw'), (0.0, 'pos'), (1e-30, 'kw'), (1e-12, 'pos')):
            got, e = _call(lambda: (ec.transform(Rf, tol=tol) if how == 'kw' else ec.transform(Rf, tol)).Cij)
            rep = {'op': 'transformtolaxes', 'Cij': C.tolist(), 'axes': Rf.tolist(), 'tol': tol, 'how': how}
            ctx.stats.case('oracle:transform-tol-axes', (how, tol, cm.frs(C), cm.frs(Rf)))
            if e0 is None and (e is not None or not np.allclose(got, ref, rtol=1e-12, atol=1.01e-8 * float(np.abs(ref).max()))):
                ctx.violate('transform:tol-axes', f'transform(rotation matrix, tol={tol!r} [{how}]): '
                            f'{e or "differs from the default-tol result beyond the clean-up"}: a small tol must only '
                            'keep more small entries, not refuse axes that are orthonormal to rounding', rep)
        k0, k1 = rng.sample(range(3), 2)
        skew = rng.choice([1e-6, 1e-5, 1e-4, 1e-3])
        A = Rf.copy()
        A[k0] = A[k0] + skew * A[k1]
        for tol, how in ((0.5, 'kw'), (1e-2, 'pos'), (30 * skew, 'kw')):
            _, e = _call(lambda: ec.transform(A, tol=tol) if how == 'kw' else ec.transform(A, tol))
            rep = {'op': 'transformtolaxes', 'Cij': C.tolist(), 'axes': A.tolist(), 'tol': tol, 'how': how}
            ctx.stats.case('oracle:transform-tol-axes:skew', (how, tol, skew, cm.frs(Rf)))
            if e != 'err:value':
                ctx.violate('refusal:missing:skewed-axes', f'transform(axes {skew:g} off orthogonal, tol={tol!r} [{how}]) '
                            f'{"accepted the axes" if e is None else e}: tol is the clean-up threshold, the axes must be '
                            'refused (ValueError) as at the default tol', rep)
        # forms of the axes argument
        scal = np.array([[rng.choice([1.0, 2.0, 4.0, 0.5])] for _ in range(3)])
        Rq = _quat_rot(rng)[0]
        for base, exact_ints, exact in ((R, True, True), (R * scal, False, True), (Rq * scal, False, False)):
            ref, e = _call(lambda: ec.transform(np.array(base, dtype='float64')).Cij)
            if e is not None:
                continue
            forms = _array_forms(np.array(base, dtype='float64'), rng, exact32=exact_ints, integral=exact_ints)
            for fname, obj in forms:
                snap = _snapshot(obj)
                got, e = _call(lambda: ec.transform(obj).Cij)
                rep = {'op': 'axesform', 'Cij': C.tolist(), 'axes': np.asarray(base).tolist(), 'form': fname}
                ctx.stats.case('oracle:axes-forms', (fname, cm.frs(base), cm.frs(C)), sample=rep if it < 2 else None)
                # signed-permutation axes (rows scaled by powers of two): exact arithmetic, whatever the memory layout;
                # general axes: the einsum summation order may depend on the layout (rounding only)
                if e is not None or not (np.array_equal(got, ref) if exact else
                                         np.allclose(got, ref, rtol=1e-12, atol=1e-13 * abs(mx))):
                    ctx.violate('transform:axes-form', f'transform with the axes given as {fname}: '
                                f'{e or "differs from the same axes as a float64 array"}', rep)
                if _snapshot(obj) != snap:
                    ctx.violate('transform:axes-modified', f'transform modified the axes it was given ({fname})', rep)


@_clause('axescheck')
def _check_axes_check(ctx, rng, n):
    """tools.axes_check on its own: unit vectors of the rows, fresh output, input untouched, `tol` honoured, refusals."""
    np = _np()
    from atomman.tools import axes_check
    for it in range(n):
        while True:
            a, b, c, d = (rng.randint(-4, 4) for _ in range(4))
            if a * a + b * b + c * c + d * d and (b or c or d):
                break
        Ri = [[a * a + b * b - c * c - d * d, 2 * (b * c - a * d), 2 * (b * d + a * c)],
              [2 * (b * c + a * d), a * a - b * b + c * c - d * d, 2 * (c * d - a * b)],
              [2 * (b * d - a * c), 2 * (c * d + a * b), a * a - b * b - c * c + d * d]]
        Ri = [[x * m for x in row] for row, m in zip(Ri, (rng.choice([1, 2, 5]), rng.choice([1, 3]), rng.choice([1, 7])))]
        A = np.array(Ri, dtype=float) * 2.0 ** rng.choice([0, 0, -20, 20, -300, 300])
        for fname, obj in _array_forms(A, rng, exact32=False, integral=bool(np.all(np.abs(A) < 2 ** 31) and np.all(A == np.round(A)))):
            snap = _snapshot(obj)
            u, e = _call(lambda: axes_check(obj))
            rep = {'op': 'axescheck', 'axes': A.tolist(), 'form': fname}
            ctx.stats.case('oracle:axes-check', (fname, cm.frs(A)), sample=rep if it < 2 else None)
            if e is not None:
                ctx.violate('axes_check:refused', f'axes_check refused the orthogonal right-handed integer directions '
                            f'{Ri} (given as {fname}): {e}', rep)
                continue
            if _snapshot(obj) != snap:
                ctx.violate('axes_check:modified', f'axes_check modified its input ({fname})', rep)
            ok = isinstance(u, np.ndarray) and u.shape == (3, 3) and u.dtype == np.float64
            if ok:
                for i in range(3):
                    n2 = sum(Fraction(x) ** 2 for x in Ri[i])
                    for j in range(3):
                        w = Ri[i][j] / math.sqrt(n2)
                        ok = ok and abs(u[i, j] - w) <= 4e-16
            if not ok:
                ctx.violate('axes_check:value', f'axes_check({fname} of {Ri}) is not the matrix of unit row vectors', rep)
            elif isinstance(obj, np.ndarray) and np.shares_memory(u, obj):
                ctx.violate('axes_check:aliased', f'axes_check returns memory of its input ({fname})', rep)
        # refusals and the tolerance argument
        U = A / np.linalg.norm(A, axis=1)[:, None]
        for i in range(3):
            B = A.copy()
            B[i] = -B[i]
            B2 = A.copy()
            B2[[i, (i + 1) % 3]] = B2[[(i + 1) % 3, i]]
            for what, M in ((f'row {i} negated', B), (f'rows {i},{(i + 1) % 3} exchanged', B2)):
                for tol in (None, 1e-3, 0.5):
                    r, e = _call(lambda: axes_check(M) if tol is None else axes_check(M, tol=tol))
                    ctx.stats.case('oracle:axes-check:refusal', (what, tol, cm.frs(M)))
                    if e != 'err:value':
                        ctx.violate('axes_check:left-handed', f'axes_check accepted left-handed axes ({what}, tol={tol}): '
                                    f'{e or "returned"}', {'op': 'axescheck', 'axes': M.tolist(), 'form': 'array'})
        k0, k1 = rng.sample(range(3), 2)
        for tol, how in ((None, 'default'), (1e-3, 'kw'), (1e-12, 'pos'), (1e-5, 'kw')):
            t = 1e-8 if tol is None else tol
            for fac, want_ok in ((0.3, True), (3.0, False)):
                if t * fac < 4e-16:
                    continue
                B = U.copy()
                B[k0] = B[k0] + t * fac * B[k1]
                f = {'default': lambda: axes_check(B), 'kw': lambda: axes_check(B, tol=tol),
                     'pos': lambda: axes_check(B, tol)}[how]
                r, e = _call(f)
                ctx.stats.case('oracle:axes-check:tol', (how, tol, fac, cm.frs(B)))
                if want_ok and e is not None:
                    ctx.violate('axes_check:tol', f'axes {t * fac:g} off orthogonal refused at tol={t:g} [{how}]: {e}',
                                {'op': 'axescheck', 'axes': B.tolist(), 'form': 'array', 'tol': tol})
                if not want_ok and e != 'err:value':
                    ctx.violate('axes_check:tol', f'axes {t * fac:g} off orthogonal accepted at tol={t:g} [{how}]',
                                {'op': 'axescheck', 'axes': B.tolist(), 'form': 'array', 'tol': tol})


# ---- the data model as one more representation; working units --------------------------------------------------
WU_DEFAULT = {'length': 'angstrom', 'mass': 'amu', 'energy': 'eV', 'charge': 'e'}
_LEN_M = {'angstrom': 1e-10, 'nm': 1e-9, 'm': 1.0, 'cm': 1e-2}
_EN_J = {'eV': 1.602176634e-19, 'J': 1.0, 'mJ': 1e-3}
_PRESSURE_PA = {'GPa': 1e9, 'MPa': 1e6, 'Pa': 1.0, 'bar': 1e5, 'eV/angstrom^3': 1.602176634e-19 / 1e-30,
                'J/m^3': 1.0, 'mJ/cm^3': 1e3}
_WU_SYSTEMS = [dict(WU_DEFAULT), {'length': 'nm', 'mass': 'kg', 'energy': 'J', 'charge': 'C'},
               {'length': 'm', 'mass': 'kg', 'energy': 'J', 'charge': 'C'},
               {'length': 'nm', 'mass': 'amu', 'energy': 'eV', 'charge': 'e'},
               {'length': 'cm', 'mass': 'g', 'energy': 'mJ', 'charge': 'C'},
               {'length': 'angstrom', 'mass': 'kg', 'energy': 'J', 'charge': 'e'}]


def _wu_pressure(kw):
    """the working unit of pressure in Pa for reset_units(length=, energy=, ...): energy / length^3"""
    return _EN_J[kw['energy']] / _LEN_M[kw['length']] ** 3


def _model_values(m):
    np = _np()
    node = m['elastic-constants']['Cij']
    return np.array(node['value'], dtype=float).reshape(6, 6), node.get('unit', None)


@_clause('model')
def _check_model(ctx, rng, n):
    """model() / ElasticConstants(model=...) is one more representation of the tensor: values in the requested unit
    (conversion factors written out here), round trips through DataModelDict / JSON / XML, reload into a used object,
    normalisation option, old per-constant format, and all of it under non-default working units, including a change
    of the working units between two calls on one object.  The working units are restored afterwards."""
    np = _np()
    import atomman as am
    import atomman.unitconvert as uc
    from DataModelDict import DataModelDict as DM
    EC = am.ElasticConstants
    try:
        for it in range(n):
            kwA = _WU_SYSTEMS[it % len(_WU_SYSTEMS)]
            kwB = rng.choice([k for k in _WU_SYSTEMS if k is not kwA])
            C = _spd_float(rng, rng.choice([1.0, 160.2176621, 1e-3])) if it % 2 else _spd_dyadic(rng, 3)
            info = {'op': 'model', 'Cij': C.tolist(), 'units': kwA, 'units2': kwB}
            uc.reset_units(**kwA)
            pA, pB = _wu_pressure(kwA), _wu_pressure(kwB)
            ec = EC(Cij=C.copy())
            c = ec.Cij
            first = {}
            for u in [None] + rng.sample(sorted(_PRESSURE_PA), 3):
                ctx.stats.case('oracle:model', (repr(sorted(kwA.items())), u, cm.frs(C)), sample=info if it < 3 else None)
                m, e = _call(lambda: ec.model(unit=u))
                if e is not None:
                    ctx.violate('model:raises', f'model(unit={u!r}) raised {e} under working units {kwA}', info)
                    continue
                vals, unit = _model_values(m)
                first[u] = vals
                want = c if u is None else c * (pA / _PRESSURE_PA[u])
                if unit != u or not np.allclose(vals, want, rtol=(0 if u is None else 1e-12), atol=0):
                    ctx.violate('model:values', f'model(unit={u!r}) under working units {kwA}: unit field {unit!r}, values '
                                f'differ from Cij in {u or "working units"} by {np.abs(vals / np.where(want == 0, 1, want) - (want != 0)).max():.3e} '
                                '(relative)', {**info, 'unit': u})
                # back in: DataModelDict, JSON text, XML text; into a fresh and into a used object
                for how, src in (('DataModelDict', m), ('json', m.json()), ('xml', m.xml())):
                    for used in (False, True):
                        def back():
                            if not used:
                                return EC(model=src).Cij
                            o = EC(C11=3., C12=1., C44=1.)
                            o.Sij                                       # noqa: B018
                            o.model(model=src)
                            return o.Cij
                        r, e = _call(back)
                        if e is not None or not np.allclose(r, c, rtol=(0 if u is None and how == 'DataModelDict' else 1e-13), atol=0):
                            ctx.violate('model:roundtrip', f'ElasticConstants(model=model(unit={u!r}) as {how}) '
                                        f'{"into a used object " if used else ""}under {kwA}: '
                                        f'{e or "differs from the tensor by %.3e" % np.abs(r - c).max()}', {**info, 'unit': u})
            # normalisation option = normalized_as
            target = rng.choice(SYSTEMS)
            m, e = _call(lambda: ec.model(unit='GPa', crystal_system=target))
            if e is None:
                vals, _ = _model_values(m)
                want = ec.normalized_as(target).Cij * (pA / 1e9)
                if not np.allclose(vals, want, rtol=1e-12, atol=0):
                    ctx.violate('model:normalized', f'model(crystal_system={target!r}) is not normalized_as({target!r})',
                                {**info, 'system': target})
            else:
                ctx.violate('model:raises', f'model(crystal_system={target!r}) raised {e}', info)
            if not np.array_equal(ec.Cij, c):
                ctx.violate('model:mutates', 'model() changed the object', info)
            # old format: one element per constant, each with its own unit
            sysname = rng.choice(list(SYS_KEYS))
            consts = _system_consts(rng, sysname)
            u_old = rng.choice(sorted(_PRESSURE_PA))
            old = DM()
            old['elastic-constants'] = DM()
            for k, v in consts.items():
                old['elastic-constants'].append('C', DM([('stiffness', DM([('value', v), ('unit', u_old)])),
                                                         ('ij', f'{k[1]} {k[2]}')]))
            r, e = _call(lambda: EC(model=old).Cij)
            fct = _PRESSURE_PA[u_old] / pA
            want, _ = _call(lambda: EC(**{k: v * fct for k, v in consts.items()}).Cij)
            ctx.stats.case('oracle:model:old-format', (sysname, u_old, repr(sorted(kwA.items()))))
            if e is not None or not np.allclose(r, want, rtol=1e-12, atol=1e-12 * float(np.abs(want).max())):
                ctx.violate('model:old-format', f'old-format model of {sysname} constants in {u_old} under {kwA}: '
                            f'{e or "is not the tensor of these constants"}',
                            {'op': 'model-old', 'system': sysname, 'kwargs': consts, 'unit': u_old, 'units': kwA})
            # the working units change between two calls on the same object: the stored numbers are numbers of the
            # NEW working units from then on (what a fresh object holding the same numbers gives)
            mA, _ = _call(lambda: ec.model(unit='GPa'))
            uc.reset_units(**kwB)
            for u in ('GPa', rng.choice(sorted(_PRESSURE_PA))):
                m2, e = _call(lambda: ec.model(unit=u))
                ctx.stats.case('oracle:model:units-changed', (repr(sorted(kwA.items())), repr(sorted(kwB.items())), u, cm.frs(C)))
                if e is not None:
                    ctx.violate('model:raises', f'model(unit={u!r}) raised {e} after reset_units({kwB})', info)
                    continue
                vals, _ = _model_values(m2)
                want = c * (pB / _PRESSURE_PA[u])
                if not np.allclose(vals, want, rtol=1e-12, atol=0):
                    ctx.violate('model:stale-units', f'after reset_units({kwB}) model(unit={u!r}) of an object that was '
                                f'asked for a model under {kwA} before still uses the old conversion (relative '
                                f'difference {np.abs(vals / want - 1)[want != 0].max():.3e})', {**info, 'unit': u})
            if mA is not None:
                r, e = _call(lambda: EC(model=mA).Cij)           # written in GPa under A, read under B: same material
                if e is not None or not np.allclose(r, c * (pA / pB), rtol=1e-12, atol=0):
                    ctx.violate('model:read-units', f'a model written in GPa under {kwA} and read under {kwB} is not the '
                                f'same tensor in the new working units: {e or np.abs(r / (c * (pA / pB)) - 1)[c != 0].max()}', info)
        # random working units (numericalunits' own mode): only self-consistency can be asked
        for seed in (rng.randrange(1, 10 ** 6), 'SI'):
            uc.reset_units(seed)
            C = _spd_float(rng)
            ec = EC(Cij=C.copy())
            for u in (None, 'GPa', 'eV/angstrom^3'):
                r, e = _call(lambda: EC(model=ec.model(unit=u)).Cij)
                ctx.stats.case('oracle:model:seed', (seed, u, cm.frs(C)))
                if e is not None or not np.allclose(r, ec.Cij, rtol=1e-13, atol=0):
                    ctx.violate('model:roundtrip', f'model round trip (unit={u!r}) under reset_units({seed!r}): '
                                f'{e or np.abs(r - ec.Cij).max()}', {'op': 'model', 'Cij': C.tolist(), 'seed': seed})
            if seed == 'SI':
                vals, _ = _model_values(ec.model(unit='GPa'))
                if not np.allclose(vals, ec.Cij / 1e9, rtol=1e-13, atol=0):
                    ctx.violate('model:values', 'model(unit=GPa) under SI working units is not Cij / 1e9',
                                {'op': 'model', 'Cij': C.tolist(), 'seed': 'SI'})
    finally:
        uc.reset_units(**WU_DEFAULT)


def _search_audit(ctx, rng, big):
    """the cross-cutting classes (input forms, options, environment, refusals) and definitions that the symmetry /
    invariance clauses cannot see (an estimate that is wrong but rotation invariant, a default, a tolerance)."""
    np = _np()
    import atomman as am
    EC = am.ElasticConstants
    _check_keyword_refusals(ctx, rng, ctx.n(160, 900) * big)
    _check_call_refusals(ctx, rng, ctx.n(3, 30) * big)
    for it in range(ctx.n(12, 120) * big):
        if it % 3 == 0:
            C = _spd_float(rng, rng.choice([1.0, 160.2176621, 2.0 ** -33, 2.0 ** 37]))
        elif it % 3 == 1:
            C = _near_symmetric(rng, rng.choice(['isotropic', 'cubic', 'hexagonal', 'rhombohedral']), rng.choice(ANISO))
        else:
            C = _spd_cond(rng, 10.0 ** rng.uniform(1, 4))
        ec, e = _call(lambda: EC(Cij=C.copy()))
        if e is None:
            _check_moduli(ctx, ec, {'Cij': C.tolist()}, 'SPD')
    for it in range(ctx.n(4, 40) * big):           # isotropic: every estimate is the modulus itself
        lam, mu = Fraction(rng.randint(0, 64), 8), Fraction(rng.randint(1, 64), 8)
        ec = EC(Cij=np.array([[float(x) for x in r] for r in _iso_matrix(lam, mu)]))
        K = float(lam + Fraction(2, 3) * mu)
        for which, w in (('bulk', K), ('shear', float(mu))):
            for style in ('Voigt', 'Reuss', 'Hill', None):
                got, e = _call(lambda: getattr(ec, which)() if style is None else getattr(ec, which)(style))
                ctx.stats.case('oracle:moduli:isotropic', (which, style, str(lam), str(mu)))
                if e is not None or abs(got - w) > 1e-13 * (K + float(mu)):
                    ctx.violate(f'moduli:isotropic:{which}', f'{which}({style or ""}) of the isotropic tensor lambda={float(lam)}, '
                                f'mu={float(mu)} is {e or got}, expected {w}',
                                {'op': 'moduli', 'Cij': ec.Cij.tolist()})
    for it in range(ctx.n(24, 240) * big):        # nu = 0 (E = M = 2 mu) for moduli that are not dyadic
        x = rng.uniform(0.01, 300.0) * 2.0 ** rng.choice([0, 0, 0, 30, -30])
        for wrap in (float, np.float64):
            got, e = _call(lambda: EC(**_shuffled(rng, {'M': wrap(x), 'E': wrap(x)})).Cij)
            ctx.stats.case('oracle:iso-pair:nu0', (x, wrap.__name__))
            if e is not None or got[0, 1] != 0.0 or abs(got[3, 3] - x / 2) > 1e-12 * x or got[0, 0] != x:
                ctx.violate('iso:C11,E', f'ElasticConstants(M={x!r}, E={x!r}) [{wrap.__name__}] (nu = 0, mu = M/2) gave '
                            f'{e or [got[0, 0], got[0, 1], got[3, 3]]}',
                            {'op': 'iso', 'kwargs': {'M': x, 'E': x}, 'lambda': '0', 'mu': str(Fraction(x) / 2)})
                break
    _check_is_normal_tolerances(ctx, rng, ctx.n(8, 80) * big)
    _check_matrix_input_forms(ctx, rng, ctx.n(3, 24) * big)
    _check_scalar_input_forms(ctx, rng, ctx.n(48, 400) * big)
    _check_transform_options(ctx, rng, ctx.n(5, 50) * big)
    _check_axes_check(ctx, rng, ctx.n(5, 50) * big)
    _check_model(ctx, rng, ctx.n(6, 36) * big)


def _replay_audit(ctx, r):
    """re-evaluate one stored case of the cross-cutting clauses"""
    np = _np()
    import atomman as am
    EC = am.ElasticConstants
    op = r.get('op')
    rng = random.Random(0)
    if op == 'moduli':
        ec = EC(Cij=np.array(r['Cij'])) if 'Cij' in r else EC(**r['kwargs'])
        _check_moduli(ctx, ec, {k: r[k] for k in ('Cij', 'kwargs') if k in r}, 'replay')
    elif op == 'refusal' and r.get('what') == 'keywords':
        vals = dict(r.get('kwargs', {}))
        for mk in set(r['keys']) & set(MATRIX_KEYS):
            vals[mk] = getattr(EC(C11=10., C12=4., C44=3.), mk)
        meth = r.get('method')
        if meth:
            want = _method_admits(meth, r['keys'])
            _, e = _call(lambda: getattr(EC(C11=10., C12=4., C44=3.), meth)(**vals))
        else:
            want = not (set(r['keys']) & set(MATRIX_KEYS)) and _init_admits(r['keys'])
            _, e = _call(lambda: EC(**vals))
        print(f"replay: {meth or 'ElasticConstants'}({sorted(r['keys'])}) -> {e or 'accepted'}; documented keyword set: {want}")
        if want != (e is None) or (not want and not (set(r['keys']) & set(MATRIX_KEYS)) and e != 'err:type'):
            ctx.violate('refusal:replay', 'replayed case still fails', r)
    elif op == 'refusal' and r.get('what') == 'axes':
        A = np.array(r['axes'], dtype=float)
        U = A / np.linalg.norm(A, axis=1)[:, None]
        off = float(np.abs(U @ U.T - np.eye(3)).max())
        det = float(np.linalg.det(U))
        _, e = _call(lambda: EC(Cij=np.array(r['Cij'])).transform(A))
        print(f'replay: axes with det {det:+.3f}, {off:.3e} off orthogonal -> {e or "accepted"}')
        want_refused = det < 0 or off > 2e-8
        if (off < 5e-9 or off > 2e-8) and want_refused != (e == 'err:value'):
            ctx.violate('refusal:replay', 'replayed case still fails', r)
    elif op == 'refusal' and r.get('what') == 'C66':
        v = r['kwargs']
        c66 = (v['C11'] - v['C12']) / 2
        _, e = _call(lambda: EC(**v))
        want_ok = abs(v['C66'] - c66) <= 1e-8 + 1e-5 * abs(v['C66']) * 0.5
        print(f"replay: C66 = {v['C66']}, (C11-C12)/2 = {c66} -> {e or 'accepted'}")
        if want_ok != (e is None):
            ctx.violate('refusal:replay', 'replayed case still fails', r)
    elif op == 'scalarform':
        vals, forms = r['kwargs'], r['forms']
        ref = EC(**{k: float(v) for k, v in vals.items()}).Cij
        got, e = _call(lambda: EC(**{k: _wrap(np, forms.get(k, 'float'), v) for k, v in vals.items()}).Cij)
        print('replay scalar forms', forms, '->', e or float(np.abs(got - ref).max()))
        if e is not None or not np.allclose(got, ref, rtol=1e-12, atol=0):
            ctx.violate('input-form:replay', 'replayed case still fails', r)
    elif op == 'isnormal':
        ec = EC(Cij=np.array(r['Cij']))
        a, rt = (1e-4, 1e-4) if r['atol'] is None else (r['atol'], r['rtol'])
        nrm = ec.normalized_as(r['system']).Cij
        want = bool(np.all(np.abs(ec.Cij - nrm) <= a + rt * np.abs(nrm)))
        got = [bool(ec.is_normal(r['system'], atol=a, rtol=rt)), bool(ec.is_normal(r['system'], a, rt))]
        print('replay is_normal', r['system'], a, rt, '->', got, 'entrywise:', want)
        if got != [want, want]:
            ctx.violate('is_normal:replay', 'replayed case still fails', r)
    elif op in ('transformtol', 'axesform'):
        ec = EC(Cij=np.array(r['Cij']))
        R = np.array(r['axes'], dtype=float)
        if op == 'axesform':
            obj = dict(_array_forms(R, rng, True, bool(np.all(R == np.round(R))))).get(r['form'], R)
            snap = _snapshot(obj)
            a, e = _call(lambda: ec.transform(obj).Cij)
            b = ec.transform(R.copy()).Cij
            print('replay axes form', r['form'], '->', e or float(np.abs(a - b).max()), 'input modified:', _snapshot(obj) != snap)
            if e is not None or not np.allclose(a, b, rtol=1e-12, atol=1e-13 * float(np.abs(b).max())) or _snapshot(obj) != snap:
                ctx.violate('transform:replay', 'replayed case still fails', r)
        else:
            tol = r['tol']
            t = 1e-8 if tol is None else float(tol)
            U = R / np.linalg.norm(R, axis=1)[:, None]
            W4 = _rot4([[Fraction(float(x)) for x in row] for row in U], _F(ec.Cijkl))
            pr = ((0, 0), (1, 1), (2, 2), (1, 2), (0, 2), (0, 1))
            W = np.array([[float(W4[27 * i + 9 * j + 3 * k + l]) for (k, l) in pr] for (i, j) in pr])
            exp = W.copy()
            exp[np.abs(W / W.max()) < t] = 0.0
            exp[np.abs(exp / exp.max()) <= 1e-9] = 0.0
            got, e = _call(lambda: (ec.transform(R) if tol is None else ec.transform(R, tol) if r['how'] == 'pos'
                                    else ec.transform(R, tol=tol)).Cij)
            print('replay transform tol', tol, r['how'], '->', e or float(np.abs(got - exp).max()))
            if e is not None or not np.array_equal(got, exp):
                ctx.violate('transform:replay', 'replayed case still fails', r)
    elif op == 'inputform':
        C = np.array(r['Cij'])
        donor = EC(Cij=C.copy())
        arr = getattr(donor, r['entry'])
        obj = dict(_array_forms(arr, rng, True, bool(np.all(C == np.round(C))) and not r['entry'].startswith('S'))).get(r['form'], arr)
        snap = _snapshot(obj)
        ref = EC(**{r['entry']: np.array(obj, dtype='float64')})
        ec, e = _call(lambda: EC(**{r['entry']: obj}))
        bad = e is not None or _snapshot(obj) != snap
        if e is None:
            for rd in ('Cij', 'Sij', 'Cij9', 'Cijkl', 'Sijkl'):
                a, b = _read(ec, rd), _read(ref, rd)
                bad = bad or not _same_obs(a, b) or (isinstance(a, np.ndarray) and a.dtype != np.float64)
        print('replay input form', r['entry'], r['form'], '->', e or ('differs' if bad else 'same'))
        if bad:
            ctx.violate('input-form:replay', 'replayed case still fails', r)
    else:
        # axes_check forms / data-model cases draw their variants from the generator: re-run the clause families
        _search_audit(ctx, random.Random(ctx.seed * 7919 + 11), 1)


def replay(ctx, payload):
    """re-run the stored case (or the whole search when the replay names no single input)."""
    np = _np()
    import atomman as am
    r = payload.get('replay', {}) or {}
    op = r.get('op')
    try:
        if op == 'representations' and 'Cij' in r:
            _check_tensor_clauses(ctx, am.ElasticConstants(Cij=np.array(r['Cij'])), {'Cij': r['Cij']}, 'replay')
        elif op == 'representations' and 'kwargs' in r:
            _check_tensor_clauses(ctx, am.ElasticConstants(**r['kwargs']), {'kwargs': r['kwargs']}, 'replay')
        elif op == 'rotation' and 'int_axes' in r:
            ec = am.ElasticConstants(Cij=np.array(r['Cij']))
            a, b = ec.transform(r['int_axes']).Cij, ec.transform(np.array(r['axes'])).Cij
            print('replay int axes: max diff', float(np.abs(a - b).max()))
            if not np.allclose(a, b, rtol=1e-9, atol=_rot_tol(float(np.abs(ec.Cij).max()))):
                ctx.violate('transform:int-axes', 'replayed case still fails', r)
        elif op == 'rotation':
            ec = am.ElasticConstants(Cij=np.array(r['Cij'])) if 'Cij' in r else am.ElasticConstants(**r['kwargs'])
            _check_rotation_clauses(ctx, ec, np.array(r['axes']), np.array(r['axes2']),
                                    r.get('strain', [[0, .5, 0], [.5, 0, 0], [0, 0, 1.0]]), {}, 'replay')
        elif op == 'axislengths':
            _check_axis_lengths(ctx, am.ElasticConstants(Cij=np.array(r['Cij'])), np.array(r['axes']), r.get('lengths', '?'),
                                r.get('strain', [[0, .5, 0], [.5, 0, 0], [0, 0, 1.0]]), {'Cij': r['Cij']}, 'replay')
        elif op == 'system' and 'axes' in r:
            ec = am.ElasticConstants(**r['kwargs'])
            out = ec.transform(np.array(r['axes'])).Cij
            print('replay', r['system'], r.get('rotation'), 'max diff', np.abs(out - ec.Cij).max())
            if not np.allclose(out, ec.Cij, rtol=1e-9, atol=_rot_tol(float(np.abs(ec.Cij).max()))):
                ctx.violate(f"invariance:{r['system']}", 'replayed case still fails', r)
        elif op == 'named':
            ec = am.ElasticConstants(**r['kwargs'])
            bad = [k for k, v in r['kwargs'].items() if ec.Cij[int(k[1]) - 1, int(k[2]) - 1] != v]
            print('replay named', bad)
            if bad:
                ctx.violate('named:replay', 'replayed case still fails', r)
        elif op == 'alt':
            a = am.ElasticConstants(**r['kwargs']).Cij
            b, e = _call(lambda: am.ElasticConstants(**r['alt']).Cij)
            print('replay alt', e or float(np.abs(a - b).max()))
            if e is not None or not np.allclose(a, b, rtol=1e-12, atol=1e-12 * float(np.abs(a).max())):
                ctx.violate('alt-inputs:replay', 'replayed case still fails', r)
        elif op == 'iso':
            lam, mu = Fraction(r['lambda']), Fraction(r['mu'])
            want = np.array([[float(x) for x in row] for row in _iso_matrix(lam, mu)])
            out, e = _call(lambda: am.ElasticConstants(**r['kwargs']).Cij)
            print('replay iso', r['kwargs'], '->', e or out[0, :2].tolist() + [out[3, 3]], 'expected',
                  [want[0, 0], want[0, 1], want[3, 3]])
            if e is not None or not np.allclose(out, want, rtol=1e-6):
                ctx.violate('iso:' + ','.join(r['kwargs']), 'replayed case still fails', r)
        elif op == 'normalized' and ('Cij' in r or 'kwargs' in r):
            ec = am.ElasticConstants(Cij=np.array(r['Cij'])) if 'Cij' in r else am.ElasticConstants(**r['kwargs'])
            _check_normalized_symmetry(ctx, random.Random(0), ec, {k: r[k] for k in ('Cij', 'kwargs') if k in r}, 'replay')
        elif op == 'readorder':
            make = (lambda: am.ElasticConstants(Cij=np.array(r['Cij']))) if 'Cij' in r else \
                (lambda: am.ElasticConstants(**r['kwargs']))
            _check_read_order(ctx, make, [r['order']], {k: r[k] for k in ('Cij', 'kwargs') if k in r}, 'replay',
                              scribble=r.get('scribble', True))
        elif op == 'setsequence':
            named = (r['named'][0], r['named'][1]) if r.get('named') else None
            _check_set_sequence(ctx, random.Random(0), np.array(r['Cij']), np.array(r['Cij2']), {'Cij': r['Cij']},
                                'replay', named, fixed=(r['setter'], r['pre'], r['post']))
        elif op == 'refusedset':
            _check_refused_set(ctx, random.Random(0), np.array(r['Cij']), {'Cij': r['Cij']}, fixed=r['setter'])
        elif op in ('moduli', 'refusal', 'scalarform', 'isnormal', 'transformtol', 'axesform', 'inputform', 'axescheck',
                    'transformtolaxes',
                    'model', 'model-old'):
            _replay_audit(ctx, r)
        else:
            search(ctx, True)
    except Exception as e:  # noqa
        ctx.violate('replay:raises', f'replayed case raised {type(e).__name__}: {e}', r)


MANIFEST = {
    'text': 'All index tables, compliance weights, einsum subscripts, crystal-system templates, modulus-pair formulas, '
            'normalisation and Voigt/Reuss/Hill formulas of ElasticConstants.py are regenerated as Lean definitions on '
            'every run (AST translator with symbolic execution of the keyword dispatch); Lean theorems over them prove '
            'that every representation is the Voigt picture of one minor/major-symmetric tensor, conversions round-trip, '
            'C:S is the symmetric identity, transform is the group action C -> (T x T) C (T x T)^T preserving strain '
            'energy and the Voigt/Reuss/Hill moduli, each template is fixed by its generating rotations, the 15 '
            'modulus pairs return (lambda+2mu, lambda, mu), and normalisation is idempotent.  The compiled model is '
            'also run against the real class on identical exact inputs, and an independent Fraction oracle evaluates '
            'the clauses on the real class — in unit systems from 2^-40 to 2^40, on weakly anisotropic tensors, small '
            'rotations and ill-conditioned tensors, at tolerances relative to the tensor.  An object model (one stored '
            'matrix; setters overwrite, reads are pure: object_* theorems) is tied to the class by running operation '
            'sequences on one object in both, and the oracle checks read-order independence, absence of aliasing and '
            'of stale or shared state against fresh objects.  Refusals (keyword sets, improper / tilted axes, styles, '
            'malformed arrays), options (tol, atol/rtol, default style, zero-valued constants), input forms (dtypes, '
            'layouts, numpy scalars), axes_check on its own and the data model under non-default working units are '
            'decided by independent tables in the oracle; tensors with SHAPE (templates in every setting rotated '
            'about the principal axes, coincidental ties, every block pattern of the Voigt indices) go through all '
            'clauses; stored states are fixed points of the Cij setter, transform '
            'is homogeneous under a change of units, and normalisation through the setter is idempotent for five of '
            'the eight targets (theorems).'
            '  Round 5: tools/axes_check.py and the if / elif chain of __init__ are regenerated as well '
            '(Generated/AxesCheck.lean, InitRoute.lean): axes are DIRECTIONS - transform rotates by the unit vectors of '
            'axis vectors of any length (far from / a hair off unit length, typed decimals), is invariant under rescaling '
            'of each vector, refuses left-handed triples (theorems; generators draw the three row lengths at every '
            'scale and the oracle compares with the rotation by the exactly normalised rows); __init__ refuses a matrix '
            'keyword mixed with anything else and raises TypeError exactly for the undocumented keyword counts; the '
            'cubic compliance is a closed form, so Voigt / Reuss / Hill of a cubic crystal need no assumption on the '
            'inverse.',
    'note': 'Trusted: Lean kernel + propext/Classical.choice/Quot.sound; the translator/symbolic executor in '
            'harness/props/c11.py; numpy einsum/inv/isclose. The 6x6 inverse and the square roots are parameters with '
            'hypotheses (C*S = 1 and S*C = 1; r*r = radicand, r >= 0). Float rounding and the 1e-8/1e-9 clean-ups are '
            'modelled in the tie (exact on dyadic inputs, rtol 1e-9*cond elsewhere), not in the group-action theorems.',
    'technique': 'Lean 4 theorems over translator-generated definitions + differential correspondence + exact oracle',
}
