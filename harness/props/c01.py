"""C01 — one cell, many parameter sets: Box definitions and coordinate maps agree.

correspond(): the real `atomman.Box` is driven as a small state machine (construct through each of the
five parameter sets / set / set_* / attribute setters / family constructors; read every getter; both
position conversions and inside/outside with list, tuple and 1..4-d array input; reciprocal_vects before
and after every mutation) and every observation is compared with the Lean driver `drv_c01`
(Atomman/C01.lean at K = Rat) on the same exact rational inputs.

search(): the clauses of the property evaluated directly on the real code with fractions.Fraction
(no Lean involved): getters vs vectors, rebuild through a second parameter set, rel∘cart, duality,
inside vs exact relative coordinates, outside = not inside, list vs array, cache after mutation.

Hardening round: (1) small-change op class — every lazily computed quantity warm, then a change of one ulp ..
1e-4 relative (or none) through every setter, then all reads again (gen_perturb / resolve_perturb; cells in
several units); (2) history independence, bitwise — the object must be indistinguishable from a fresh
Box(vects=box.vects, origin=box.origin) (no tolerance, so staleness of any size shows), and the hidden
_Box__reciprocal_vects, if set, must be inv(vects).T (CBox.Coherent of Proofs/C01_Object.lean on the real object);
(3) aliasing — arrays given to setters / handed out by getters are overwritten afterwards; (4) exact construction
clause; (5) more containers (empty, (3,3), strided, Fortran) and near-face distances log-uniform 1e-13..1e-3.
The driver's state is the model *object* CBox (cell + cached reciprocal vectors).

Third round: numeric types of the arguments (typed_kw / assign_types / _search_types), sign patterns of the diagonal of
lower-triangular cells and refusal of each LAMMPS getter (_search_sign_patterns), units of length up to 2^+-500 with the
oracle evaluated on the exactly rescaled cell (_search_scales, gen_scale_exp), exact half-space tests face by face
(_exact_faces), float32 / very large point arrays (_oracle_bulk), the inclusivity flag positionally / as 0, 1, numpy bool.
"""
from __future__ import annotations

import math
import random
from fractions import Fraction

from .. import common as cm

PROP = 'C01'
THEOREMS = [
    'C01.lengths_roundtrip', 'C01.lengths_readback', 'C01.hilos_roundtrip', 'C01.hilos_readback',
    'C01.vectors_roundtrip', 'C01.abc_gram', 'C01.abc_rebuild_normal', 'C01.abc_rebuild_normal_clean',
    'C01.abc_rebuild_rotation',
    'C01.gram_eq_rotation', 'C01.rotation_preserves_gram',
    'C01.rel_cart_inverse', 'C01.reciprocal_dual', 'C01.reciprocal_dual_dots', 'C01.recip_depends_on_vects_only',
    'C01.inside_iff_rel', 'C01.inside_indep_of_norms', 'C01.outside_eq_not_inside', 'C01.outside_iff_rel',
    'C01.volume_eq_absdet', 'C01.volume_normal', 'C01.volume_sq_eq_gram_det',
    'C01.clean_idem', 'C01.setVects_isClean', 'C01.lengths_roundtrip_clean', 'C01.hilos_roundtrip_clean',
    # the Box object with its cached reciprocal vectors against the cache-free cell (Proofs/C01_Object.lean)
    'C01.fresh_coherent', 'C01.obj_set_coherent', 'C01.obj_read_coherent', 'C01.obj_step_coherent', 'C01.obj_after_coherent',
    'C01.obj_recip_eq', 'C01.obj_step_refines', 'C01.obj_run_refines', 'C01.obj_run_refines_fresh',
    'C01.obj_recip_dual', 'C01.obj_c2r_r2c',
    # definitions regenerated from Box.py on every run = the hand-written model (Proofs/C01_Source.lean)
    'C01.src_state_protocol', 'C01.src_r2c', 'C01.src_c2r', 'C01.src_cacheFill', 'C01.src_obj_c2r', 'C01.src_planes',
    'C01.src_volume', 'C01.src_isLammpsNorm', 'C01.src_lammps_getters', 'C01.src_abc_sq', 'C01.src_set_lengths',
    'C01.src_set_hi_los', 'C01.src_set_abc', 'C01.src_angles', 'C01.src_below', 'C01.src_inside', 'C01.src_set_dispatch',
    # re-definition of an existing object, keyword dispatch of Box.set, volume of left-handed cells (Proofs/C01_Dispatch.lean)
    'C01.redefine_forgets_previous_cell', 'C01.obj_redefine_eq_fresh', 'C01.obj_rejected_unchanged',
    'C01.origin_only_keeps_vects', 'C01.vects_only_keeps_origin', 'C01.reset_is_unit_cell', 'C01.volume_pos_of_det_ne_zero',
    'C01.set_dispatch_unit_iff', 'C01.set_dispatch_sound', 'C01.set_dispatch_complete', 'C01.positional_order',
    # the unit of length (Proofs/C01_Scale.lean, end of Proofs/C01.lean); LAMMPS-compatible orientation
    'C01.scale_lengths_sq', 'C01.scale_dots', 'C01.scale_gram', 'C01.scale_angle_cos', 'C01.scale_det', 'C01.scale_volume',
    'C01.scale_isLammpsNorm', 'C01.scale_relToCart', 'C01.scale_recip', 'C01.scale_cartToRel', 'C01.scale_inside',
    'C01.lammps_getters_refuse_iff', 'C01.normal_unique_of_gram', 'C01.turned_cell_not_normal',
    # tools/vect_angle.py regenerated and tied to the model's angleCos; what that cosine is
    'C01.src_vect_angle', 'C01.angleCos_spec', 'C01.angleCos_sq_le_one', 'C01.angleCos_scale',
    # extension round — regenerated from the source and proved equal to the model (Proofs/C01_Source.lean): the clean-up
    # statement of the vects setter and its atol literal, a b c with the root, vect_angle down to degrees (clamp, arccos, pi),
    # set_abc with cos / pi / roots in place, trailing-dimension checks, System.scale / unscale
    'C01.gen_cleanupAtol_eq_model', 'C01.gen_cleanupEntry_eq_model', 'C01.gen_cleanup_eq_model', 'C01.gen_lengths_eq_model',
    'C01.gen_clamp_eq_model', 'C01.gen_angleDeg_eq_model', 'C01.gen_abcOfDeg_eq_model', 'C01.gen_shapes_eq_model',
    'C01.gen_system_wrappers',
    # the library routines as a parameter record with a specification met by the real functions (Proofs/C01_Trig.lean)
    'C01.angleCos_strict', 'C01.angleDeg_spec', 'C01.clampCos_id', 'C01.clampCos_range', 'C01.clampCos_angleCos',
    'C01.realTrig_spec',
    # every ordered pair of the four parameter sets; degrees read back; cells not in LAMMPS orientation; refusals
    'C01.cross_pos_of_det', 'C01.abc_roots_of_normal', 'C01.read_abc_rebuild_normal', 'C01.defined_isClean',
    'C01.define_eq_clean_raw', 'C01.clean_normal_of_det', 'C01.defined_normal_of_det', 'C01.read_rebuild_same',
    'C01.rebuild_any_pair', 'C01.rebuild_any_pair_fixpoint', 'C01.abc_readback_degrees', 'C01.gram_det_dots',
    'C01.abc_radicands_pos', 'C01.rebuild_turned_cell', 'C01.real_rebuild_any_pair', 'C01.real_abc_readback_degrees',
    'C01.setAbcDeg_eq_setOp', 'C01.define_refuses_iff', 'C01.readAs_refuses_iff',
    # arrays of points and their shapes
    'C01.conv_rows', 'C01.conv_rows_inverse', 'C01.insideAll_iff_rel', 'C01.convShape_ok_iff',
    # the pair theorem on the object with its cache; the crystal-family constructors (regenerated, refusals, rebuild, right angles)
    'C01.gen_family_ctors_eq_model', 'C01.gen_glue_pins', 'C01.define_eq_setOp', 'C01.obj_rebuild_any_pair',
    'C01.ctor_refuses_iff', 'C01.ctor_rebuild_any', 'C01.define_right_angles',
    # read-back of what was given for every parameter set, uniqueness of the definition, angles in degrees vs the unit of length
    'C01.raw_readback', 'C01.raw_definition_unique', 'C01.lenOf_scale', 'C01.angleDeg_scale',
    # statement audit: the six getters a b c alpha beta gamma in one statement (lengths and angles of the vectors)
    'C01.lenOf_sq', 'C01.lenOf_pos', 'C01.abc_getters_spec',
    # the face exemption of the comparison is exactly "closer than the bound to a face"
    'C01.faceMargin_le_iff', 'C01.faceMargin_pos_decides',
]
PARTIAL = {
    'rounding': 'theorems are exact (field / real-number) statements: lengths, angles IN DEGREES and both square roots are now inside the '
                'model through the record Trig (sqrt, cos, arccos, pi) whose specification Trig.Spec is proved for the real functions '
                '(realTrig_spec), so abc_readback_degrees / rebuild_any_pair / rebuild_turned_cell hold over the reals with nothing assumed; '
                'that the float routines of numpy (and every float +, *, /) are within the stated relative bound of those real functions - '
                'the "up to a stated relative rounding bound" part of the property - is checked by the correspondence / search '
                'tolerances, not proved',
}
RULE = ('scenarios = op sequences on one Box object: construct via vects | avect,bvect,cvect | lx.. | xlo.. | a,b,c,angles '
        '| family classmethods, each through Box(**kw), set(**kw), set_*() or the attribute setters; then get / lammps / recip '
        '/ r2c / c2r / inside / outside reads with random input container (list, tuple, 1..4-d array), then 1-3 mutations '
        'each followed by the reads again; small-change chains: warm caches, then 2-4 changes of one ulp .. 1e-4 relative '
        '(scale | entry | shear | strain | ulp | none) through every setter incl. origin, cells scaled by 2^-30..2^30, reads '
        'after each; search additionally: bitwise comparison with a fresh Box(vects, origin), hidden-cache coherence, '
        'overwriting arrays given to / returned by the Box. Regimes: dyadic grid (multiples of 1/8, exact comparison of vects, origin, '
        'lammps getters, volume, r2c; exact inside/outside incl. points on faces/edges/corners for orthogonal cells), '
        'generic doubles (tolerance 1e3*2^-52*cond*scale; points whose model margin to a face is below that bound exempt), '
        'clean-up threshold cases, error cases (non-positive lengths, angles outside (0,180), unrealisable angle triples, '
        'lammps getters of a non-normal box, wrong trailing dimension, singular cell). Second round: set_* called positionally; '
        'integer-valued definitions / points as python ints and integer arrays; every subset of the optional angle keywords; one '
        'angle within a few degrees of 0/180; entries of relative size 1e-12..1e-4 (clean-up threshold); an existing Box re-defined '
        'through every family x {set, set_*, positional} x {with, without origin}, set(), origin alone, vects alone; definitions '
        'outside the supported range (refused => object unchanged, accepted => finite state); left-handed cells in the clause '
        'oracle; arguments unmodified, reads do not write, a second live Box does not interfere; Box.set keyword-name sets '
        '(documented sets x optional subsets, missing / foreign / unknown keywords, two families at once). Third round: the numeric TYPE '
        'of every argument varied within one call (python int / float, numpy int64 / int32 / int16 / float32 / float64 scalars, 0-d arrays; '
        'int / float / mixed lists, tuples, int / float32 arrays for vectors) in every combination of integer-typed lengths with '
        'non-integer float tilts; lower-triangular cells with every sign pattern of the diagonal (each LAMMPS getter must refuse unless '
        'all three are positive); the unit of length swept over 2^-500 .. 2^500 (each clause wherever its quantities are doubles: squares to '
        '2^+-500, volume to 2^+-330, plane normals to 2^+-235), the oracle evaluated on the exactly rescaled cell; half-space tests exact '
        'face by face (axis-parallel normals on the grid); float32 point arrays; arrays of 10^3 .. 1.3*10^5 points against the same points in '
        'a small array; the inclusivity flag positionally and as 0 / 1 / numpy bool. Final round: the ORDER of the keywords of every '
        'definition (random permutation in half of all generated definitions, written literally or as a dictionary built in that order; '
        'every family x optional subset x all permutations up to 4 keywords, random ones beyond, x Box() / set() / set_*()); cells with one of '
        'alpha, beta, gamma 0.004 .. 2 degrees off 0 or 180 on either side, through every parameter set (set_abc, one huge LAMMPS tilt, turned '
        'vectors). Extension round: arrays of every numpy shape in EXT_SHAPES (0-d .. 4-d, empty, trailing dimension 0 / 1 / 2 / 3 / 4) as array, '
        'nested list and integer array through both conversions, inside and outside (result shape or error class against convShape / '
        'insideShape); 1 .. 12 points as (k,3), (2,k/2,3), (k/2,2,3), (1,k,1,3) arrays or nested lists against r2cAll / c2rAll / insideAll row by '
        'row (relative coordinates multiples of 1/4 plus 1/8; on orthogonal grid cells also exactly on faces); the clamped cosine of the three '
        'angle getters against cos(reported angle) on LAMMPS / turned / axis-permuted grid cells; the seven family constructors with equal '
        'lattice constants in every slot (a = b, a = c, b = c), angles at 90 / 120 and equal angles, int and float arguments (own refusal, '
        'else bitwise the cell of Box(a=.., .., gamma=..) of the keywords the model passes); System.scale / unscale against the box '
        'conversions, bitwise, for arrays, lists, single points, tuples. distinct = distinct canonical driver '
        'line in its scenario context; non-trivial = cell differs from the unit cell or origin != 0')
ASSUMPTIONS = [
    'a clause is evaluated only where the quantities of its own definition are finite normal doubles (lengths and their squares: '
    'cell edges 2^-500 .. 2^500; volume = third power: 2^-330 .. 2^330; unit plane normals of inside/outside = fourth power under a '
    'root: 2^-235 .. 2^235); beyond that the unchanged code overflows too, which is not counted against it',
    'single-precision arguments of set_abc (numpy computes their cosines / products in float32) are outside the rounding bound checked',
    'IEEE double rounding of the implementation is bounded by 1e3 * 2^-52 * cond(vects) * scale on the generated inputs; '
    'on the dyadic grid (multiples of 1/8, |.| <= 8) construction, LAMMPS getters, volume and relative->Cartesian are exact',
    'numpy cos / sqrt / arccos / pi / linalg.norm compute the real functions of Trig.Spec (proved for Real.sqrt, Real.cos, Real.arccos, '
    'Real.pi: realTrig_spec) to within that bound; linalg.inv / dot / inner / cross are defined in the model (adjugate inverse proved '
    'two-sided); in the driver (K = Rat) the cosines and the two square roots of set_abc are supplied by the harness as the floats the '
    'implementation computed, the driver reports the residuals of the hypotheses of abc_gram and the harness bounds them; '
    'np.linalg.norm(v) is the root of the sum of squares (T.sqrt of normSq in the generated vectAngleDeg)',
    'np.linalg.norm of a non-zero plane normal is positive (the λᵢ > 0 hypothesis of inside_iff_rel)',
    'left-handed and singular cells are outside the quantifier of the property; the model still mirrors the code there',
]
TRUSTED = ['the ast translator of harness/props/c01.py (restricted forms, refuses anything else)',
           'numpy broadcasting / shape plumbing (exercised through container and shape variants, not modelled)',
           'the hand-written correspondence harness harness/props/c01.py and its tolerance rules']

U = 2.0 ** -52
SAFETY = 1e3
GENERATED = ['BoxSource']


# ----------------------------------------------------------------------------------------
# translator: atomman/core/Box.py (class Box) -> lean/Atomman/Generated/BoxSource.lean
#   * the hidden state of the class and who writes it (the protocol CBox models)
#   * the one-line formulas (conversions, cache fill, planes, volume, LAMMPS getters, is_lammps_norm,
#     set_lengths matrix and guard, set_hi_los, the straight-line body and guard of set_abc)
# Proofs/C01_Source.lean shows each generated definition equal to the hand-written model's.
# ----------------------------------------------------------------------------------------
def translate():
    import ast
    import re
    from ..translate import TranslationError

    src = cm.source('atomman/core/Box.py')
    tree = ast.parse(src)
    cls = [n for n in tree.body if isinstance(n, ast.ClassDef) and n.name == 'Box']
    if len(cls) != 1:
        raise TranslationError('class Box not found')
    cls = cls[0]

    def fail(msg):
        raise TranslationError('Box.py: ' + msg)

    # ---- methods by name ("x.setter" for property setters) ---------------------------------
    meths = {}
    for n in cls.body:
        if isinstance(n, ast.FunctionDef):
            name = n.name
            for d in n.decorator_list:
                if isinstance(d, ast.Attribute) and d.attr == 'setter':
                    name = n.name + '.setter'
            if name in meths:
                fail(f'method {name} defined twice')
            meths[name] = n

    def body(name):
        if name not in meths:
            fail(f'method {name} missing')
        b = meths[name].body
        if b and isinstance(b[0], ast.Expr) and isinstance(b[0].value, ast.Constant) and isinstance(b[0].value.value, str):
            b = b[1:]
        return b

    def is_hidden(node):
        return isinstance(node, ast.Attribute) and isinstance(node.value, ast.Name) and node.value.id == 'self' \
            and node.attr.startswith('__') and not node.attr.endswith('__')

    # ---- hidden state and direct writes ------------------------------------------------------
    hidden = set()
    writes = {}
    for name, f in meths.items():
        w = set()
        for node in ast.walk(f):
            if is_hidden(node):
                hidden.add(node.attr[2:])
            targets = []
            if isinstance(node, ast.Assign):
                targets = node.targets
            elif isinstance(node, (ast.AugAssign, ast.AnnAssign)):
                targets = [node.target]
            elif isinstance(node, ast.Delete):
                targets = node.targets
            for t in targets:
                for e in (t.elts if isinstance(t, (ast.Tuple, ast.List)) else [t]):
                    base = e
                    while isinstance(base, ast.Subscript):
                        base = base.value
                    if is_hidden(base):
                        w.add(base.attr[2:])
            # a hidden array handed to a call (np.copyto(self.__vects, …), out=self.__vects) or having a method called
            # on it could be written without an assignment: outside the translated subset
            if isinstance(node, ast.Call):
                pure = ast.unparse(node.func) in ('deepcopy', 'abs', 'np.abs', 'np.isclose', 'np.allclose', 'np.array', 'np.copy',
                                                  'np.array_equal', 'vect_angle', 'np.linalg.inv', 'np.linalg.det', 'np.linalg.norm',
                                                  'len', 'str', 'repr')
                for a in list(node.args) + [k.value for k in node.keywords]:
                    if is_hidden(a) and not pure:
                        fail(f'{name}: hidden attribute passed to a call: {ast.unparse(node)[:80]}')
                if isinstance(node.func, ast.Attribute) and is_hidden(node.func.value) and \
                        node.func.attr in ('fill', 'put', 'itemset', 'sort', 'resize', 'partition', 'setfield', '__setitem__'):
                    fail(f'{name}: in-place method on a hidden attribute: {ast.unparse(node)[:80]}')
            if isinstance(node, ast.Call) and isinstance(node.func, ast.Name) and node.func.id in ('setattr', 'delattr'):
                fail(f'{name}: setattr/delattr')
        if w:
            writes[name] = sorted(w)

    def full_slice_store(stmt, attr):
        """`self.__attr[:] = <expr>`"""
        return (isinstance(stmt, ast.Assign) and len(stmt.targets) == 1 and isinstance(stmt.targets[0], ast.Subscript)
                and is_hidden(stmt.targets[0].value) and stmt.targets[0].value.attr == '__' + attr
                and isinstance(stmt.targets[0].slice, ast.Slice) and stmt.targets[0].slice.lower is None
                and stmt.targets[0].slice.upper is None and stmt.targets[0].slice.step is None)

    def has_return(stmts):
        return any(isinstance(n, ast.Return) for st in stmts for n in ast.walk(st))

    # vects setter: copy in, (clean-up), unconditional cache drop last, no early return
    vb = body('vects.setter')
    vects_copies = bool(vb) and full_slice_store(vb[0], 'vects') and isinstance(vb[0].value, ast.Name)
    drop_idx = [i for i, st in enumerate(vb) if isinstance(st, ast.Assign) and len(st.targets) == 1
                and is_hidden(st.targets[0]) and st.targets[0].attr == '__reciprocal_vects'
                and isinstance(st.value, ast.Constant) and st.value.value is None]
    last_write = max([i for i, st in enumerate(vb) if any(
        (isinstance(n, ast.Subscript) or isinstance(n, ast.Attribute)) and isinstance(getattr(n, 'ctx', None), ast.Store)
        and '__vects' in ast.unparse(n) for n in ast.walk(st))] + [-1])
    vects_drops = bool(drop_idx) and drop_idx[-1] > last_write and not has_return(vb) \
        and all(not isinstance(st, (ast.If, ast.Try, ast.For, ast.While, ast.With)) for st in vb)
    # the clean-up statement (threshold literal is tied in correspond())
    ob = body('origin.setter')
    origin_copies = len(ob) == 1 and full_slice_store(ob[0], 'origin') and isinstance(ob[0].value, ast.Name)

    def returns_copy(name, attr):
        b = body(name)
        r = b[-1] if b else None
        if not isinstance(r, ast.Return) or r.value is None:
            return False
        v = r.value
        inner = None
        if isinstance(v, ast.Call) and isinstance(v.func, ast.Name) and v.func.id == 'deepcopy' and len(v.args) == 1:
            inner = v.args[0]
        elif isinstance(v, ast.Call) and isinstance(v.func, ast.Attribute) and v.func.attr == 'copy' and not v.args:
            inner = v.func.value
        elif isinstance(v, ast.Call) and ast.unparse(v.func) in ('np.array', 'np.copy') and len(v.args) == 1:
            inner = v.args[0]
        return inner is not None and is_hidden(inner) and inner.attr == '__' + attr

    vects_getter_copies = len(body('vects')) == 1 and returns_copy('vects', 'vects')
    origin_getter_copies = len(body('origin')) == 1 and returns_copy('origin', 'origin')
    rb = body('reciprocal_vects')
    recip_getter_copies = returns_copy('reciprocal_vects', 'reciprocal_vects')
    if not (len(rb) == 2 and isinstance(rb[0], ast.If) and ast.unparse(rb[0].test) == 'self.__reciprocal_vects is None'
            and len(rb[0].body) == 1 and not rb[0].orelse and isinstance(rb[0].body[0], ast.Assign)
            and ast.unparse(rb[0].body[0].targets[0]) == 'self.__reciprocal_vects' and isinstance(rb[1], ast.Return)):
        fail('reciprocal_vects getter is not "if cache is None: cache = <fill>; return <cache>"')
    fill_expr = rb[0].body[0].value

    # ---- expression translation ------------------------------------------------------------
    COMP = ['x', 'y', 'z']

    def index_const(sl):
        if isinstance(sl, ast.Constant) and isinstance(sl.value, int) and 0 <= sl.value <= 2:
            return sl.value
        fail(f'index {ast.unparse(sl)}')

    class Tr:
        def __init__(self, env, cosnames=None, roots=None):
            self.env = dict(env)           # python name -> (lean, type)
            self.cosnames = cosnames or {}
            self.roots = roots             # list collecting (name, radicand lean) for `(E)**0.5` assignments

        def tr(self, n):
            if isinstance(n, ast.Constant) and isinstance(n.value, (int, float)) and not isinstance(n.value, bool):
                if n.value == 0:
                    return '0', 'K'
                if n.value == 180:
                    return '180', 'K'
                fail(f'literal {n.value!r}')
            if isinstance(n, ast.Name):
                if n.id not in self.env:
                    fail(f'unknown name {n.id}')
                return self.env[n.id]
            if isinstance(n, ast.Attribute) and isinstance(n.value, ast.Name) and n.value.id == 'self':
                m = {'vects': ('vects', 'M'), '__vects': ('vects', 'M'), 'origin': ('origin', 'V'), '__origin': ('origin', 'V'),
                     'avect': ('vects.r0', 'V'), 'bvect': ('vects.r1', 'V'), 'cvect': ('vects.r2', 'V'),
                     'reciprocal_vects': ('reciprocal_vects', 'M')}
                if n.attr in m:
                    return m[n.attr]
                fail(f'self.{n.attr} in an expression')
            if isinstance(n, ast.Subscript):
                a, t = self.tr(n.value)
                if t == 'M' and isinstance(n.slice, ast.Tuple) and len(n.slice.elts) == 2:
                    i, j = index_const(n.slice.elts[0]), index_const(n.slice.elts[1])
                    return f'{a}.r{i}.{COMP[j]}', 'K'
                if t == 'M':
                    return f'{a}.r{index_const(n.slice)}', 'V'
                if t == 'V':
                    return f'{a}.{COMP[index_const(n.slice)]}', 'K'
                fail(f'subscript of a scalar: {ast.unparse(n)}')
            if isinstance(n, ast.UnaryOp) and isinstance(n.op, ast.USub):
                a, t = self.tr(n.operand)
                return f'(-{a})', t
            if isinstance(n, ast.BinOp):
                if isinstance(n.op, ast.Pow):
                    if isinstance(n.right, ast.Constant) and n.right.value == 2:
                        a, t = self.tr(n.left)
                        if t != 'K':
                            fail(f'square of a non-scalar: {ast.unparse(n)}')
                        return f'({a} * {a})', 'K'
                    fail(f'power {ast.unparse(n)}')
                a, ta = self.tr(n.left)
                b, tb = self.tr(n.right)
                if isinstance(n.op, (ast.Add, ast.Sub)):
                    if ta != tb:
                        fail(f'{ta} ± {tb}: {ast.unparse(n)}')
                    return f'({a} {"+" if isinstance(n.op, ast.Add) else "-"} {b})', ta
                if isinstance(n.op, ast.Mult) and ta == tb == 'K':
                    return f'({a} * {b})', 'K'
                if isinstance(n.op, ast.Div) and ta == tb == 'K':
                    return f'({a} / {b})', 'K'
                fail(f'operator in {ast.unparse(n)}')
            if isinstance(n, ast.Call):
                fn = ast.unparse(n.func)
                if n.keywords:
                    fail(f'keywords in {ast.unparse(n)}')
                if fn == 'np.cos' and len(n.args) == 1:
                    key = ast.unparse(n.args[0])
                    if key in self.cosnames:
                        return self.cosnames[key], 'K'
                    fail(f'cosine of {key}')
                args = [self.tr(a) for a in n.args]
                if fn == 'np.cross' and [t for _, t in args] == ['V', 'V']:
                    return f'(V3.cross {args[0][0]} {args[1][0]})', 'V'
                if fn == 'np.dot' and [t for _, t in args] == ['V', 'V']:
                    return f'(V3.dot {args[0][0]} {args[1][0]})', 'K'
                if fn == 'np.abs' and [t for _, t in args] == ['K']:
                    return f'(absK {args[0][0]})', 'K'
                if fn == 'np.inner' and [t for _, t in args] == ['V', 'M']:
                    return f'(M3.mulVec {args[1][0]} {args[0][0]})', 'V'
                if isinstance(n.func, ast.Attribute) and n.func.attr == 'dot' and len(args) == 1:
                    a, ta = self.tr(n.func.value)
                    if ta == 'V' and args[0][1] == 'M':
                        return f'(M3.vecMul {a} {args[0][0]})', 'V'
                fail(f'call {ast.unparse(n)}')
            if isinstance(n, ast.Attribute) and n.attr == 'T':
                v = n.value
                if isinstance(v, ast.Call) and ast.unparse(v.func) == 'np.linalg.inv' and len(v.args) == 1:
                    a, t = self.tr(v.args[0])
                    if t == 'M':
                        return f'(M3.inv {a}).transpose', 'M'
                fail(f'transpose of {ast.unparse(v)}')
            fail(f'expression {ast.unparse(n)}')

    def ret_expr(name, nstmts=1, skip_assert=False, pre=None):
        b = body(name)
        if skip_assert:
            if not (b and isinstance(b[0], ast.Assert) and ast.unparse(b[0].test) == 'self.is_lammps_norm()'):
                fail(f'{name}: no `assert self.is_lammps_norm()` guard')
            b = b[1:]
        if pre is not None:
            b = pre(b)
        if len(b) != nstmts or not isinstance(b[-1], ast.Return):
            fail(f'{name}: body is not {nstmts} statement(s) ending in return')
        return b[-1].value

    out = []
    A = out.append
    A('/- GENERATED by harness/props/c01.py (translate) from atomman/core/Box.py, class Box — do not edit.')
    A('   Hidden state / write protocol of the class and its one-line formulas; `Proofs/C01_Source.lean` shows each')
    A('   definition equal to the hand-written model of `Atomman/Box.lean` + `Atomman/C01.lean`. -/')
    A('import Atomman.C01')
    A('')
    A('namespace Atomman.Generated.BoxSource')
    A('open Atomman Atomman.C01')
    A('')

    def lstr(xs):
        return '[' + ', '.join('"' + x + '"' for x in xs) + ']'

    A('/-- the private attributes `self.__x` of the class. -/')
    A(f'def hiddenState : List String := {lstr(sorted(hidden))}')
    A('/-- which method stores to which private attribute (assignment, slice assignment, augmented assignment, del). -/')
    A('def directWrites : List (String × List String) := ['
      + ', '.join(f'("{k}", {lstr(v)})' for k, v in sorted(writes.items())) + ']')
    for nm, val, doc in (
            ('vectsSetterCopies', vects_copies, '`vects` setter starts with `self.__vects[:] = value` (the numbers are copied in)'),
            ('vectsSetterDropsCache', vects_drops, '`vects` setter: straight-line, no early return, `self.__reciprocal_vects = None` after the last write to `__vects`'),
            ('originSetterCopies', origin_copies, '`origin` setter is exactly `self.__origin[:] = value`'),
            ('vectsGetterCopies', vects_getter_copies, '`vects` returns a copy'),
            ('originGetterCopies', origin_getter_copies, '`origin` returns a copy'),
            ('recipGetterCopies', recip_getter_copies, '`reciprocal_vects` returns a copy of the cached array')):
        A(f'/-- {doc}. -/')
        A(f'def {nm} : Bool := {"true" if val else "false"}')

    # which property setters the cell-defining methods go through (one level of self.set_lengths(...) resolved)
    def assigns(name, seen=()):
        v = o = False
        for st in body(name):
            for n in ast.walk(st):
                if isinstance(n, ast.Assign) and len(n.targets) == 1 and isinstance(n.targets[0], ast.Attribute) \
                        and isinstance(n.targets[0].value, ast.Name) and n.targets[0].value.id == 'self':
                    v |= n.targets[0].attr == 'vects'
                    o |= n.targets[0].attr == 'origin'
                if isinstance(n, ast.Call) and isinstance(n.func, ast.Attribute) and isinstance(n.func.value, ast.Name) \
                        and n.func.value.id == 'self' and n.func.attr in ('set_lengths', 'set_vectors', 'set_hi_los', 'set_abc') \
                        and n.func.attr not in seen:
                    v2, o2 = assigns(n.func.attr, seen + (name,))
                    v |= v2
                    o |= o2
        return v, o

    A('/-- (method, assigns `self.vects = …`, assigns `self.origin = …`), calls of the other `set_*` resolved. -/')
    A('def setterAssigns : List (String × Bool × Bool) := ['
      + ', '.join(f'("{m}", {str(assigns(m)[0]).lower()}, {str(assigns(m)[1]).lower()})'
                  for m in ('set_vectors', 'set_lengths', 'set_hi_los', 'set_abc')) + ']')
    A('')
    A('variable {K : Type}')
    A('')
    A('section formulas')
    A('variable [Zero K] [One K] [OfNat K 180] [OfNat K 90] [OfNat K 120] [Neg K] [Add K] [Sub K] [Mul K] [Div K] [LT K] [LE K] [DecidableLT K] [DecidableLE K]')
    A('  [DecidableEq K]')
    A('')
    base = {}
    t = Tr(dict(base, relpos=('relpos', 'V')))
    e, ty = t.tr(ret_expr('position_relative_to_cartesian', pre=lambda b: _strip_check(b, 'relpos', fail)))
    if ty != 'V':
        fail('position_relative_to_cartesian does not return a vector')
    A('/-- `position_relative_to_cartesian` (one point). -/')
    A(f'def r2c (vects : M3 K) (origin : V3 K) (relpos : V3 K) : V3 K := {e}')
    t = Tr(dict(base, value=('value', 'V')))
    e, ty = t.tr(ret_expr('position_cartesian_to_relative', pre=lambda b: _strip_check(b, 'cartpos', fail)))
    if ty != 'V':
        fail('position_cartesian_to_relative does not return a vector')
    A('/-- `position_cartesian_to_relative` (one point), given what `self.reciprocal_vects` returns. -/')
    A(f'def c2r (origin : V3 K) (reciprocal_vects : M3 K) (value : V3 K) : V3 K := {e}')
    e, ty = Tr(base).tr(fill_expr)
    if ty != 'M':
        fail('cache fill is not a matrix')
    A('/-- what the `reciprocal_vects` getter computes and caches. -/')
    A(f'def cacheFill (vects : M3 K) : M3 K := {e}')
    # planes
    pv = ret_expr('planes')
    if not (isinstance(pv, ast.Tuple) and len(pv.elts) == 6):
        fail('planes does not return a 6-tuple')
    pls = []
    for el in pv.elts:
        if not (isinstance(el, ast.Call) and ast.unparse(el.func) == 'Plane' and len(el.args) == 2 and not el.keywords):
            fail(f'planes element {ast.unparse(el)}')
        nrm, t1 = Tr(base).tr(el.args[0])
        pt, t2 = Tr(base).tr(el.args[1])
        if (t1, t2) != ('V', 'V'):
            fail('plane arguments are not vectors')
        pls.append(f'⟨{nrm}, {pt}⟩')
    A('/-- `Box.planes`: (normal before normalisation, point). -/')
    A('def planes (vects : M3 K) (origin : V3 K) : List (RawPlane K) :=\n  [' + ',\n   '.join(pls) + ']')
    e, ty = Tr(base).tr(ret_expr('volume'))
    A('/-- `volume`. -/')
    A(f'def volume (vects : M3 K) : K := {e}')
    for nm in ('lx', 'ly', 'lz', 'xy', 'xz', 'yz', 'xlo', 'xhi', 'ylo', 'yhi', 'zlo', 'zhi'):
        e, ty = Tr(base).tr(ret_expr(nm, skip_assert=True))
        if ty != 'K':
            fail(f'{nm} is not a scalar')
        A(f'/-- `{nm}` (after `assert self.is_lammps_norm()`). -/')
        A(f'def {nm} (vects : M3 K) (origin : V3 K) : K := {e}')
    for nm in 'abc':
        v = ret_expr(nm)
        if not (isinstance(v, ast.BinOp) and isinstance(v.op, ast.Pow) and isinstance(v.right, ast.Constant) and v.right.value == 0.5):
            fail(f'{nm} is not (…)**0.5')
        e, ty = Tr(base).tr(v.left)
        A(f'/-- the value under the square root of `{nm}`. -/')
        A(f'def {nm}Sq (vects : M3 K) : K := {e}')
    for nm, (i, j) in (('alpha', (1, 2)), ('beta', (0, 2)), ('gamma', (0, 1))):
        v = ret_expr(nm)
        if ast.unparse(v) != f'vect_angle(self.__vects[{i}], self.__vects[{j}])':
            fail(f'{nm} is not vect_angle(self.__vects[{i}], self.__vects[{j}])')
    A('/-- `alpha beta gamma` are `vect_angle(self.__vects[i], self.__vects[j])` with these `(i, j)`. -/')
    A('def angleGetters : List (String × Nat × Nat) := [("alpha", 1, 2), ("beta", 0, 2), ("gamma", 0, 1)]')
    # ---- atomman/tools/vect_angle.py: unit vectors (each vector divided by its own np.linalg.norm), einsum of the two,
    #      clamp to [-1, 1], 180 * arccos / pi.  One pair of vectors; the two norms are parameters of the model.
    vsrc = cm.source('atomman/tools/vect_angle.py')
    vf = [n for n in ast.parse(vsrc).body if isinstance(n, ast.FunctionDef) and n.name == 'vect_angle']
    if len(vf) != 1:
        fail('tools/vect_angle.py: function vect_angle not found')
    vf = vf[0]
    if [a.arg for a in vf.args.args] != ['vect1', 'vect2', 'unit'] or [ast.unparse(d) for d in vf.args.defaults] != ["'degree'"]:
        fail("vect_angle signature is not (vect1, vect2, unit='degree')")
    vbody = [st for st in vf.body if not (isinstance(st, ast.Expr) and isinstance(st.value, ast.Constant))]
    if [ast.unparse(st) for st in vbody[:2]] != ['vect1 = np.asarray(vect1)', 'vect2 = np.asarray(vect2)']:
        fail('vect_angle does not start with vect1 = np.asarray(vect1); vect2 = np.asarray(vect2)')
    venv = {'vect1': ('vect1', 'V'), 'vect2': ('vect2', 'V')}
    normname = {'vect1': 'n1', 'vect2': 'n2'}

    def trv(n):
        # (X.T / np.linalg.norm(X, axis=-1)).T  ->  vdiv X nX ;  np.einsum('...i,...i', A, B) -> V3.dot A B ; names
        if isinstance(n, ast.Name) and n.id in venv:
            return venv[n.id]
        if isinstance(n, ast.Attribute) and n.attr == 'T' and isinstance(n.value, ast.BinOp) and isinstance(n.value.op, ast.Div):
            num, den = n.value.left, n.value.right
            if isinstance(num, ast.Attribute) and num.attr == 'T' and isinstance(num.value, ast.Name) and num.value.id in normname \
                    and isinstance(den, ast.Call) and ast.unparse(den.func) == 'np.linalg.norm' and len(den.args) == 1 \
                    and isinstance(den.args[0], ast.Name) and den.args[0].id in normname \
                    and [(k.arg, ast.unparse(k.value)) for k in den.keywords] == [('axis', '-1')]:
                return f'(vdiv {num.value.id} {normname[den.args[0].id]})', 'V'
        if isinstance(n, ast.Call) and ast.unparse(n.func) == 'np.einsum' and len(n.args) == 3 and not n.keywords \
                and isinstance(n.args[0], ast.Constant) and n.args[0].value == '...i,...i':
            a, ta = trv(n.args[1])
            b, tb = trv(n.args[2])
            if (ta, tb) == ('V', 'V'):
                return f'(V3.dot {a} {b})', 'K'
        fail(f'vect_angle: expression {ast.unparse(n)[:80]}')

    k = 2
    cos_expr = None
    while k < len(vbody) and isinstance(vbody[k], ast.Assign) and len(vbody[k].targets) == 1 and isinstance(vbody[k].targets[0], ast.Name):
        nm = vbody[k].targets[0].id
        if nm in ('vect1', 'vect2'):
            fail('vect_angle reassigns its arguments')
        e, ty = trv(vbody[k].value)
        venv[nm] = (e, ty)
        if nm == 'cosine':
            cos_expr = (e, ty)
        k += 1
    if cos_expr is None or cos_expr[1] != 'K':
        fail('vect_angle does not compute `cosine` as a scalar from the two vectors')
    rest = [ast.unparse(st) for st in vbody[k:]]
    clamp = ('try:\n    cosine[cosine < -1] = -1\n    cosine[cosine > 1] = 1\nexcept TypeError:\n    if cosine < -1:\n        cosine = -1\n'
             '    elif cosine > 1:\n        cosine = 1')
    fin = ("if unit == 'degree':\n    return 180 * np.arccos(cosine) / np.pi\nelif unit == 'radian':\n    return np.arccos(cosine)\n"
           "else:\n    raise ValueError(\"unit must be 'degree' or 'radian'.\")")
    A('/-- `vect_angle(vect1, vect2)` for one pair of vectors: the cosine handed to `np.arccos`; `n1 n2` = what')
    A('    `np.linalg.norm(vect1, axis=-1)`, `np.linalg.norm(vect2, axis=-1)` return. -/')
    A(f'def vectAngleCos (vect1 vect2 : V3 K) (n1 n2 : K) : K := {cos_expr[0]}')
    A('/-- after that: clamp to [-1, 1], and `180 * np.arccos(cosine) / np.pi` for the default unit. -/')
    A(f'def vectAngleClampsAndDegrees : Bool := {"true" if rest == [clamp, fin] else "false"}')
    # is_lammps_norm: conjunction of comparisons
    v = ret_expr('is_lammps_norm')
    if not (isinstance(v, ast.BoolOp) and isinstance(v.op, ast.And)):
        fail('is_lammps_norm is not a conjunction')
    conj = []
    for cnd in v.values:
        conj.append(_cmp(cnd, Tr(base), fail))
    A('/-- `is_lammps_norm`. -/')
    A('def isLammpsNorm (vects : M3 K) : Bool :=\n  ' + ' && '.join(conj))
    # set_lengths
    sb = body('set_lengths')
    if not (len(sb) == 4 and isinstance(sb[0], ast.Assert) and ast.unparse(sb[1]).startswith('if origin is None:')
            and ast.unparse(sb[1].body[0]) == 'origin = [0.0, 0.0, 0.0]' and len(sb[1].body) == 1 and not sb[1].orelse
            and ast.unparse(sb[2].targets[0]) == 'self.vects' and ast.unparse(sb[3]) == 'self.origin = origin'):
        fail('set_lengths is not assert / default origin / self.vects = matrix / self.origin = origin')
    env6 = {k: (k, 'K') for k in ('lx', 'ly', 'lz', 'xy', 'xz', 'yz')}
    if not (isinstance(sb[0].test, ast.BoolOp) and isinstance(sb[0].test.op, ast.And)):
        fail('set_lengths assert is not a conjunction')
    A('/-- the assert of `set_lengths`. -/')
    A('def lengthsOk (lx ly lz : K) : Bool :=\n  ' + ' && '.join(_cmp(c, Tr(env6), fail) for c in sb[0].test.values))
    mat = sb[2].value
    if not (isinstance(mat, ast.List) and len(mat.elts) == 3 and all(isinstance(r, ast.List) and len(r.elts) == 3 for r in mat.elts)):
        fail('set_lengths does not assign a 3x3 list literal')
    rows = []
    for r in mat.elts:
        ents = []
        for x in r.elts:
            e, ty = Tr(env6).tr(x)
            if ty != 'K':
                fail('matrix entry is not a scalar')
            ents.append(e)
        rows.append('⟨' + ', '.join(ents) + '⟩')
    A('/-- the matrix `set_lengths` hands to the `vects` setter. -/')
    A('def lengthsVects (lx ly lz xy xz yz : K) : M3 K := ⟨' + ', '.join(rows) + '⟩')
    # set_vectors
    vb2 = body('set_vectors')
    if not (len(vb2) == 3 and ast.unparse(vb2[0]).startswith('if origin is None:') and ast.unparse(vb2[0].body[0]) == 'origin = [0.0, 0.0, 0.0]'
            and len(vb2[0].body) == 1 and not vb2[0].orelse
            and ast.unparse(vb2[1]) == 'self.vects = [avect, bvect, cvect]' and ast.unparse(vb2[2]) == 'self.origin = origin'):
        fail('set_vectors is not default origin / self.vects = [avect, bvect, cvect] / self.origin = origin')
    # set_hi_los
    hb = body('set_hi_los')
    envh = {k: (k, 'K') for k in ('xlo', 'xhi', 'ylo', 'yhi', 'zlo', 'zhi', 'xy', 'xz', 'yz')}
    th = Tr(envh)
    lets = []
    org = None
    call = None
    for st in hb:
        if isinstance(st, ast.Assign) and len(st.targets) == 1 and isinstance(st.targets[0], ast.Name):
            nm = st.targets[0].id
            if nm == 'origin':
                if not (isinstance(st.value, ast.List) and len(st.value.elts) == 3):
                    fail('set_hi_los origin is not a 3-list')
                org = [th.tr(x)[0] for x in st.value.elts]
            else:
                e, ty = th.tr(st.value)
                lets.append(f'let {nm} := {e}')
                th.env[nm] = (nm, ty)
        elif isinstance(st, ast.Expr) and isinstance(st.value, ast.Call) and ast.unparse(st.value.func) == 'self.set_lengths':
            call = st.value
        else:
            fail(f'set_hi_los statement {ast.unparse(st)[:60]}')
    if call is None or org is None or call is not hb[-1].value:
        fail('set_hi_los does not end in self.set_lengths(…)')
    kws = {k.arg: ast.unparse(k.value) for k in call.keywords}
    if call.args or kws != {k: k for k in ('lx', 'ly', 'lz', 'xy', 'xz', 'yz', 'origin')}:
        fail(f'set_hi_los passes {kws} to set_lengths')
    A('/-- what `set_hi_los` passes to `set_lengths`. -/')
    A('def hilosLengths (xlo xhi ylo yhi zlo zhi xy xz yz : K) : Lengths K :=\n  ' + '\n  '.join(lets)
      + '\n  { lx := lx, ly := ly, lz := lz, xy := xy, xz := xz, yz := yz }')
    A('def hilosOrigin (xlo ylo zlo : K) : V3 K := ⟨' + ', '.join(org) + '⟩')
    # set_abc
    ab = body('set_abc')
    if not (isinstance(ab[0], ast.If) and len(ab[0].body) == 1 and isinstance(ab[0].body[0], ast.Raise) and not ab[0].orelse
            and 'ValueError' in ast.unparse(ab[0].body[0]) and isinstance(ab[0].test, ast.BoolOp) and isinstance(ab[0].test.op, ast.Or)):
        fail('set_abc does not start with the angle guard `if … or …: raise ValueError`')
    enva = {k: (k, 'K') for k in ('a', 'b', 'c', 'alpha', 'beta', 'gamma')}
    A('/-- the guard of `set_abc` (`true` = ValueError). -/')
    A('def anglesRejected (alpha beta gamma : K) : Bool :=\n  ' + ' || '.join(_cmp(c, Tr(enva), fail) for c in ab[0].test.values))
    cosn = {f'{ang} * np.pi / 180': nm for ang, nm in (('alpha', 'ca'), ('beta', 'cb'), ('gamma', 'cg'))}
    ta = Tr({k: (k, 'K') for k in ('a', 'b', 'c')}, cosnames=cosn)
    lets = []
    radic = {}
    call = None
    for st in ab[1:]:
        if isinstance(st, ast.Assign) and len(st.targets) == 1 and isinstance(st.targets[0], ast.Name):
            nm = st.targets[0].id
            v = st.value
            if isinstance(v, ast.BinOp) and isinstance(v.op, ast.Pow) and isinstance(v.right, ast.Constant) and v.right.value == 0.5:
                e, ty = ta.tr(v.left)
                radic[nm] = (list(lets), e)
                ta.env[nm] = (nm, 'K')       # the root itself is a parameter of the model
            else:
                e, ty = ta.tr(v)
                lets.append(f'let {nm} := {e}')
                ta.env[nm] = (nm, ty)
        elif isinstance(st, ast.Expr) and isinstance(st.value, ast.Call) and ast.unparse(st.value.func) == 'self.set_lengths':
            call = st.value
        else:
            fail(f'set_abc statement {ast.unparse(st)[:60]}')
    if call is None or call is not ab[-1].value or sorted(radic) != ['ly', 'lz']:
        fail('set_abc is not straight-line arithmetic with two square roots ending in self.set_lengths(…)')
    kws = {k.arg: ast.unparse(k.value) for k in call.keywords}
    if call.args or kws != {k: k for k in ('lx', 'ly', 'lz', 'xy', 'xz', 'yz', 'origin')}:
        fail(f'set_abc passes {kws} to set_lengths')
    A('/-- what `set_abc` passes to `set_lengths`; `ca cb cg` = `np.cos(angle * np.pi / 180)`, `ly lz` = the two `(…)**0.5`. -/')
    A('def abcLengths (a b c ca cb cg ly lz : K) : Lengths K :=\n  ' + '\n  '.join(lets)
      + '\n  { lx := lx, ly := ly, lz := lz, xy := xy, xz := xz, yz := yz }')
    A('/-- the value under the first square root of `set_abc`. -/')
    A('def abcLySq (a b c ca cb cg : K) : K :=\n  ' + '\n  '.join(radic['ly'][0] + [radic['ly'][1]]))
    A('/-- the value under the second square root of `set_abc`. -/')
    A('def abcLzSq (a b c ca cb cg ly : K) : K :=\n  ' + '\n  '.join(radic['lz'][0] + [radic['lz'][1]]))
    # ---- inside / Plane.below / Shape.outside -----------------------------------------------
    ib = body('inside')
    if not (len(ib) == 2 and ast.unparse(ib[0]) == 'planes = self.planes' and isinstance(ib[1], ast.Return)):
        fail('inside is not `planes = self.planes; return <conjunction>`')
    terms = []

    def flat(n):
        if isinstance(n, ast.BinOp) and isinstance(n.op, ast.BitAnd):
            flat(n.left)
            flat(n.right)
        else:
            terms.append(n)
    flat(ib[1].value)
    idx = []
    for tm in terms:
        m = re.fullmatch(r'planes\[(\d)\]\.below\(pos, inclusive=inclusive\)', ast.unparse(tm))
        if m is None:
            fail(f'inside term {ast.unparse(tm)}')
        idx.append(int(m.group(1)))
    if 'outside' in meths:
        fail('Box overrides outside')
    A('/-- `inside` = conjunction (`&`) of `planes[i].below(pos, inclusive=inclusive)` over these `i`. -/')
    A('def insidePlanes : List Nat := [' + ', '.join(map(str, idx)) + ']')
    psrc = cm.source('atomman/region/Plane.py')
    ptree = ast.parse(psrc)
    pcls = [n for n in ptree.body if isinstance(n, ast.ClassDef) and n.name == 'Plane']
    if len(pcls) != 1:
        fail('class Plane not found')
    pm = {}
    for n in pcls[0].body:
        if isinstance(n, ast.FunctionDef):
            nm = n.name + ('.setter' if any(isinstance(d, ast.Attribute) and d.attr == 'setter' for d in n.decorator_list) else '')
            pm[nm] = [st for st in n.body if not (isinstance(st, ast.Expr) and isinstance(st.value, ast.Constant))]
    for need in ('normal', 'normal.setter', 'point', 'point.setter', 'below'):
        if need not in pm:
            fail(f'Plane.{need} missing')
    ns = [ast.unparse(st) for st in pm['normal.setter']]
    unit = len(ns) == 3 and ns[0] == 'value = np.asarray(value)' and ns[1].startswith('assert value.shape == (3,)') \
        and ns[2] == 'self.__normal = value / np.linalg.norm(value)' and [ast.unparse(st) for st in pm['normal']] == ['return self.__normal']
    ps = [ast.unparse(st) for st in pm['point.setter']]
    pt_ok = len(ps) == 3 and ps[0] == 'value = np.asarray(value)' and ps[2] == 'self.__point = value' \
        and [ast.unparse(st) for st in pm['point']] == ['return self.__point']
    A('/-- `Plane.normal` stores `value / np.linalg.norm(value)`, `Plane.point` stores the point as given. -/')
    A(f'def planeStoresUnitNormalAndPoint : Bool := {"true" if (unit and pt_ok) else "false"}')
    bb = pm['below']
    if not (len(bb) == 4 and ast.unparse(bb[0]) == 'pos = np.asarray(pos)' and isinstance(bb[3], ast.If)
            and ast.unparse(bb[3].test) == 'inclusive' and len(bb[3].body) == 1 and len(bb[3].orelse) == 1
            and isinstance(bb[3].body[0], ast.Return) and isinstance(bb[3].orelse[0], ast.Return)):
        fail('Plane.below is not asarray / normpoint / normpos / if inclusive: return … else: return …')
    envb = {'pos': ('pos', 'V')}

    class TrP(Tr):
        def tr(self, n):
            if isinstance(n, ast.Attribute) and isinstance(n.value, ast.Name) and n.value.id == 'self' and n.attr in ('normal', 'point'):
                return n.attr, 'V'
            if isinstance(n, ast.Call) and ast.unparse(n.func) == 'np.inner' and len(n.args) == 2:
                a, b = self.tr(n.args[0]), self.tr(n.args[1])
                if (a[1], b[1]) == ('V', 'V'):          # one point: inner of two 3-vectors
                    return f'(V3.dot {a[0]} {b[0]})', 'K'
            return super().tr(n)
    tb_ = TrP(envb)
    lets = []
    for st in bb[1:3]:
        if not (isinstance(st, ast.Assign) and isinstance(st.targets[0], ast.Name)):
            fail(f'Plane.below statement {ast.unparse(st)}')
        e, ty = tb_.tr(st.value)
        lets.append(f'let {st.targets[0].id} := {e}')
        tb_.env[st.targets[0].id] = (st.targets[0].id, ty)
    yes = _cmp(bb[3].body[0].value, tb_, fail)
    no = _cmp(bb[3].orelse[0].value, tb_, fail)
    A('/-- `Plane.below` for one point; `normal` is the stored (unit) normal. -/')
    A('def planeBelow (normal point pos : V3 K) (inclusive : Bool) : Bool :=\n  ' + '\n  '.join(lets)
      + f'\n  if inclusive then {yes} else {no}')
    ssrc = cm.source('atomman/region/Shape.py')
    so = [n for c in ast.parse(ssrc).body if isinstance(c, ast.ClassDef) and c.name == 'Shape'
          for n in c.body if isinstance(n, ast.FunctionDef) and n.name == 'outside']
    sob = [st for st in (so[0].body if so else []) if not (isinstance(st, ast.Expr) and isinstance(st.value, ast.Constant))]
    out_ok = len(sob) == 1 and ast.unparse(sob[0]) == 'return ~self.inside(pos, inclusive=not inclusive)'
    A('/-- `Shape.outside` is `~self.inside(pos, inclusive=not inclusive)` and `Box` does not override it. -/')
    A(f'def outsideIsNotInsideOpposite : Bool := {"true" if out_ok else "false"}')
    # ---- extension round: float library routines as the parameter record `T : Trig K`; the clean-up statement; shapes --------
    class TrT(Tr):
        """`np.cos(x)` -> `T.cos x`, `np.arccos(x)` -> `T.acos x`, `np.pi` -> `T.pi`, `(E)**0.5` -> `T.sqrt E`, literals 1 / -1."""
        def tr(self, n):
            if isinstance(n, ast.Constant) and not isinstance(n.value, bool) and n.value == 1:
                return '1', 'K'
            if isinstance(n, ast.Attribute) and ast.unparse(n) == 'np.pi':
                return 'T.pi', 'K'
            if isinstance(n, ast.Call) and ast.unparse(n.func) in ('np.cos', 'np.arccos') and len(n.args) == 1 and not n.keywords:
                a, t_ = self.tr(n.args[0])
                if t_ != 'K':
                    fail(f'{ast.unparse(n.func)} of a non-scalar')
                return f'(T.{"cos" if ast.unparse(n.func) == "np.cos" else "acos"} {a})', 'K'
            if isinstance(n, ast.BinOp) and isinstance(n.op, ast.Pow) and isinstance(n.right, ast.Constant) and n.right.value == 0.5:
                a, t_ = self.tr(n.left)
                if t_ != 'K':
                    fail('root of a non-scalar')
                return f'(T.sqrt {a})', 'K'
            return super().tr(n)

    # the clean-up statement of the vects setter
    if len(vb) != 3:
        fail('vects setter is not copy-in / clean-up / cache drop')
    cu = vb[1]
    ok_cu = (isinstance(cu, ast.Assign) and len(cu.targets) == 1 and isinstance(cu.targets[0], ast.Subscript)
             and ast.unparse(cu.targets[0].value) == 'self.__vects' and isinstance(cu.targets[0].slice, ast.Call)
             and ast.unparse(cu.targets[0].slice.func) == 'np.isclose' and len(cu.targets[0].slice.args) == 2)
    if not ok_cu:
        fail('clean-up statement is not self.__vects[np.isclose(<ratio>, <0.0>, atol=…)] = <0.0>')
    isc = cu.targets[0].slice
    kws_c = {k_.arg: k_.value for k_ in isc.keywords}
    if sorted(kws_c) != ['atol'] or not (isinstance(kws_c['atol'], ast.Constant) and isinstance(kws_c['atol'].value, float)):
        fail('np.isclose of the clean-up has keywords other than a literal atol (rtol would not matter against 0.0, anything else does)')
    if not (isinstance(isc.args[1], ast.Constant) and isc.args[1].value == 0 and isinstance(cu.value, ast.Constant) and cu.value.value == 0
            and not isinstance(cu.value.value, bool)):
        fail('clean-up does not compare with 0.0 and store 0.0')
    ratio = isc.args[0]
    if not (isinstance(ratio, ast.BinOp) and isinstance(ratio.op, ast.Div) and ast.unparse(ratio.left) == 'self.__vects'):
        fail('clean-up ratio is not self.__vects / <max>')
    mx = ast.unparse(ratio.right)
    if mx not in ('abs(self.__vects).max()', 'np.abs(self.__vects).max()', 'np.max(np.abs(self.__vects))', 'np.max(abs(self.__vects))'):
        fail(f'clean-up divides by {mx}, not by the largest absolute entry')
    atol_fr = Fraction(kws_c['atol'].value)
    A('/-- the `atol=` literal of the clean-up statement of the `vects` setter: the double it denotes, exactly. -/')
    A(f'def cleanupAtolNum : Nat := {atol_fr.numerator}')
    A(f'def cleanupAtolDen : Nat := {atol_fr.denominator}')
    A('/-- one entry of `self.__vects[np.isclose(self.__vects / abs(self.__vects).max(), 0.0, atol=thr)] = 0.0`:')
    A('    `np.isclose(r, 0.0, atol=thr)` is `|r - 0.0| <= thr + rtol * |0.0|`, i.e. `|r| <= thr`. -/')
    A('def cleanupEntry (thr M x : K) : K := if absK (x / M) ≤ thr then 0 else x')
    A('/-- the whole statement; `M` = the largest absolute entry. -/')
    A('def cleanupVects (thr : K) (vects : M3 K) : M3 K :=\n  let M := maxAbs vects\n  ⟨'
      + ', '.join('⟨' + ', '.join(f'cleanupEntry thr M vects.r{i}.{cc}' for cc in COMP) + '⟩' for i in range(3)) + '⟩')
    # getters a b c with the root
    for nm in 'abc':
        e, ty = TrT(base).tr(ret_expr(nm))
        A(f'/-- the getter `{nm}`. -/')
        A(f'def {nm}Len (T : Trig K) (vects : M3 K) : K := {e}')
    # vect_angle down to the angle in degrees
    if rest != [clamp, fin]:
        fail('vect_angle: clamp / unit conversion not in the expected form')
    tnode = vbody[k]
    hnd = tnode.handlers[0].body
    if not (len(hnd) == 1 and isinstance(hnd[0], ast.If) and len(hnd[0].orelse) == 1 and isinstance(hnd[0].orelse[0], ast.If)
            and not hnd[0].orelse[0].orelse):
        fail('vect_angle: scalar clamp is not if / elif')
    tv = TrT({'cosine': ('cosine', 'K')})
    cl = []
    for br in (hnd[0], hnd[0].orelse[0]):
        if not (len(br.body) == 1 and isinstance(br.body[0], ast.Assign) and ast.unparse(br.body[0].targets[0]) == 'cosine'):
            fail('vect_angle: clamp branch does not assign cosine')
        cl.append((_cmp(br.test, tv, fail), tv.tr(br.body[0].value)[0], ast.unparse(br.test), ast.unparse(br.body[0].value)))
    if [ast.unparse(st) for st in tnode.body] != [f'cosine[{c_[2]}] = {c_[3]}' for c_ in cl]:
        fail('vect_angle: array clamp and scalar clamp differ')
    deg_expr = tv.tr(vbody[k + 1].body[0].value)[0]
    A('/-- the scalar clamp of `vect_angle`. -/')
    A(f'def vectAngleClamp (cosine : K) : K := if {cl[0][0][8:-1]} then {cl[0][1]} else if {cl[1][0][8:-1]} then {cl[1][1]} else cosine')
    A('/-- `vect_angle(vect1, vect2)` in degrees for one pair of vectors; `np.linalg.norm(v, axis=-1)` = the root of the sum of squares. -/')
    A('def vectAngleDeg (T : Trig K) (vect1 vect2 : V3 K) : K :=\n  let n1 := T.sqrt (V3.normSq vect1)\n  let n2 := T.sqrt (V3.normSq vect2)\n'
      f'  let cosine := {cos_expr[0]}\n  let cosine := vectAngleClamp cosine\n  {deg_expr}')
    # set_abc with the library calls in place
    tq = TrT({k_: (k_, 'K') for k_ in ('a', 'b', 'c', 'alpha', 'beta', 'gamma')})
    lets_t = []
    for st in ab[1:-1]:
        nm = st.targets[0].id
        e, ty = tq.tr(st.value)
        lets_t.append(f'let {nm} := {e}')
        tq.env[nm] = (nm, ty)
    A('/-- the straight-line part of `set_abc` with `np.cos`, `np.pi` and the two roots as the record `T`. -/')
    A('def abcOfDegSrc (T : Trig K) (a b c alpha beta gamma : K) : Lengths K :=\n  ' + '\n  '.join(lets_t)
      + '\n  { lx := lx, ly := ly, lz := lz, xy := xy, xz := xz, yz := yz }')
    # shapes: the trailing-dimension check of the two conversions; inside / outside have none of their own
    def shape_lit(name, argname):
        b_ = body(name)
        _strip_check(b_, argname, fail)
        cmpn = b_[1].test
        if not (isinstance(cmpn, ast.Compare) and isinstance(cmpn.ops[0], ast.NotEq) and isinstance(cmpn.comparators[0], ast.Constant)
                and isinstance(cmpn.comparators[0].value, int)):
            fail(f'{name}: shape check is not `shape[-1] != <int>`')
        return cmpn.comparators[0].value
    A('/-- `position_relative_to_cartesian`: `ValueError` iff the trailing dimension differs from this number. -/')
    A(f'def r2cTrailingDim : Nat := {shape_lit("position_relative_to_cartesian", "relpos")}')
    A('/-- `position_cartesian_to_relative`: likewise. -/')
    A(f'def c2rTrailingDim : Nat := {shape_lit("position_cartesian_to_relative", "cartpos")}')
    A('/-- `Plane.below` takes `np.inner(self.normal, pos)` of `np.asarray(pos)` (trailing axis of `pos` against the 3-vector). -/')
    A(f'def belowInnerOverLastAxis : Bool := {"true" if ast.unparse(bb[2]) == "normpos = np.inner(self.normal, pos)" else "false"}')
    # System.scale / System.unscale: wrappers of the two conversions
    sysrc = cm.source('atomman/core/System.py')
    scls = [n for n in ast.parse(sysrc).body if isinstance(n, ast.ClassDef) and n.name == 'System']
    if len(scls) != 1:
        fail('class System not found')
    wr = []
    for wname in ('scale', 'unscale'):
        wf = [n for n in scls[0].body if isinstance(n, ast.FunctionDef) and n.name == wname]
        if len(wf) != 1:
            fail(f'System.{wname} missing')
        wb = [st for st in wf[0].body if not (isinstance(st, ast.Expr) and isinstance(st.value, ast.Constant))]
        for st in wb[:-1]:
            u_ = ast.unparse(st)
            if not (u_.startswith('warnmsg = ') or u_.startswith('warnmsg += ') or u_.startswith('warnings.warn(warnmsg')):
                fail(f'System.{wname}: statement {u_[:60]}')
        if not isinstance(wb[-1], ast.Return) or [a_.arg for a_ in wf[0].args.args] != ['self', 'value']:
            fail(f'System.{wname}: not (self, value) ending in return')
        wr.append((wname, ast.unparse(wb[-1].value)))
    A('/-- `System.scale` / `System.unscale`: what they return (nothing but deprecation warnings before). -/')
    A('def systemWrappers : List (String × String) := [' + ', '.join(f'("{n_}", "{c_}")' for n_, c_ in wr) + ']')
    # the crystal-family constructors: their own guards (ValueError) and the keywords handed to cls(...)
    class TrC(Tr):
        def tr(self, n):
            if isinstance(n, ast.Constant) and not isinstance(n.value, bool) and n.value in (90, 120):
                return str(int(n.value)), 'K'
            return super().tr(n)
    for fname in ('cubic', 'hexagonal', 'tetragonal', 'trigonal', 'orthorhombic', 'monoclinic', 'triclinic'):
        fa = meths[fname].args
        if fa.vararg or fa.kwarg or fa.kwonlyargs or fa.defaults or [d_ for d_ in meths[fname].decorator_list if ast.unparse(d_) != 'classmethod'] \
                or not meths[fname].decorator_list or fa.args[0].arg != 'cls':
            fail(f'{fname}: not a plain classmethod without defaults')
        pn = [x.arg for x in fa.args[1:]]
        tc = TrC({k_: (k_, 'K') for k_ in pn})
        fb = body(fname)
        guards = []
        for st in fb[:-1]:
            if not (isinstance(st, ast.If) and not st.orelse and len(st.body) == 1 and isinstance(st.body[0], ast.Raise)
                    and 'ValueError' in ast.unparse(st.body[0])):
                fail(f'{fname}: statement before the return is not `if …: raise ValueError`')
            tests = st.test.values if isinstance(st.test, ast.BoolOp) and isinstance(st.test.op, ast.Or) else [st.test]
            if isinstance(st.test, ast.BoolOp) and not isinstance(st.test.op, ast.Or):
                fail(f'{fname}: guard is not a disjunction')
            guards.append('(' + ' || '.join(_cmp(c_, tc, fail) for c_ in tests) + ')')
        rv = fb[-1].value
        if not (isinstance(rv, ast.Call) and ast.unparse(rv.func) == 'cls' and not rv.args
                and [k_.arg for k_ in rv.keywords] == ['a', 'b', 'c', 'alpha', 'beta', 'gamma']):
            fail(f'{fname}: does not return cls(a=, b=, c=, alpha=, beta=, gamma=)')
        vals = []
        for k_ in rv.keywords:
            e, ty = tc.tr(k_.value)
            if ty != 'K':
                fail(f'{fname}: keyword {k_.arg} is not a scalar')
            vals.append(e)
        A(f'/-- `Box.{fname}`: `none` = its own ValueError, else what it hands to `Box(**kwargs)` (no origin: the default). -/')
        A(f'def {fname}Src ({" ".join(pn)} : K) : Option (Params K) :=\n  '
          + ''.join(f'if {g} = true then none else\n  ' for g in guards)
          + 'some (.abc ' + ' '.join(vals) + ' ⟨0, 0, 0⟩)')
    # avect / bvect / cvect and Plane.__init__
    vg = []
    for nm_ in ('avect', 'bvect', 'cvect'):
        m_ = re.fullmatch(r'self\.vects\[(\d)\]', ast.unparse(ret_expr(nm_)))
        if m_ is None:
            fail(f'{nm_} is not self.vects[i]')
        vg.append((nm_, int(m_.group(1))))
    A('/-- `avect bvect cvect` = `self.vects[i]` (a row of a copy). -/')
    A('def vectGetters : List (String × Nat) := [' + ', '.join(f'("{n_}", {i_})' for n_, i_ in vg) + ']')
    pinit = [n for n in pcls[0].body if isinstance(n, ast.FunctionDef) and n.name == '__init__']
    pi_ok = len(pinit) == 1 and [a_.arg for a_ in pinit[0].args.args] == ['self', 'normal', 'point'] and not pinit[0].args.defaults \
        and [ast.unparse(st) for st in pinit[0].body if not (isinstance(st, ast.Expr) and isinstance(st.value, ast.Constant))] \
        == ['self.normal = normal', 'self.point = point']
    A('/-- `Plane(normal, point)` stores its two arguments through the property setters, in that order. -/')
    A(f'def planeInitNormalThenPoint : Bool := {"true" if pi_ok else "false"}')
    ibody = body('__init__')
    init_disp = len(ibody) == 4 and ast.unparse(ibody[3]) == (
        "if len(kwargs) > 0:\n    if 'model' in kwargs:\n        if len(kwargs) > 1:\n            raise ValueError('model cannot be given with other parameters')\n"
        "        self.model(kwargs['model'])\n    else:\n        self.set(**kwargs)")
    A('/-- `Box(**kwargs)`: no keywords = the unit cell allocated above; `model` alone goes to `model()`; everything else to `set(**kwargs)`. -/')
    A(f'def initHandsKeywordsToSet : Bool := {"true" if init_disp else "false"}')
    A('')
    A('end formulas')
    A('')
    # ---- Box.set keyword dispatch, signatures of the set_* methods, __init__, family constructors ----------------
    sb_ = body('set')
    if not (len(sb_) == 1 and isinstance(sb_[0], ast.If) and ast.unparse(sb_[0].test) == 'len(kwargs) == 0'):
        fail('set() is not one if / elif chain starting with `len(kwargs) == 0`')
    if meths['set'].args.args[1:] or meths['set'].args.vararg or meths['set'].args.kwonlyargs or \
            meths['set'].args.kwarg is None or meths['set'].args.kwarg.arg != 'kwargs':
        fail('set() signature is not (self, **kwargs)')
    unit_ok = [ast.unparse(st) for st in sb_[0].body] == ['self.vects = np.eye(3)', 'self.origin = np.zeros(3)']
    INLINE = {
        'vects': ["vects = kwargs.pop('vects')", "origin = kwargs.pop('origin', [0.0, 0.0, 0.0])",
                  "assert len(kwargs) == 0, 'Invalid arguments'", 'self.vects = vects', 'self.origin = origin'],
        'origin': ["origin = kwargs.pop('origin')", "assert len(kwargs) == 0, 'Invalid arguments'", 'self.origin = origin'],
    }
    chain = []
    node = sb_[0]
    else_ok = False
    while True:
        if len(node.orelse) == 1 and isinstance(node.orelse[0], ast.If):
            node = node.orelse[0]
            m = re.fullmatch(r"'(\w+)' in kwargs", ast.unparse(node.test))
            if m is None:
                fail(f'set(): branch test {ast.unparse(node.test)}')
            key = m.group(1)
            stm = [ast.unparse(st) for st in node.body]
            mm = re.fullmatch(r'self\.(set_\w+)\(\*\*kwargs\)', stm[0]) if len(stm) == 1 else None
            if mm:
                chain.append((key, mm.group(1)))
            elif key in INLINE and stm == INLINE[key]:
                chain.append((key, 'inline:' + key))
            else:
                chain.append((key, 'inline:?'))
        else:
            else_ok = [ast.unparse(st) for st in node.orelse] == ["raise TypeError('Invalid arguments')"]
            break
    A('/-- `Box.set`: the "no keywords" branch is `self.vects = np.eye(3); self.origin = np.zeros(3)`. -/')
    A(f'def setUnitBranch : Bool := {"true" if unit_ok else "false"}')
    A('/-- the `elif \'key\' in kwargs` chain of `Box.set`: (key, `set_…` called with `**kwargs` | `inline:vects` | `inline:origin`:')
    A('    pop the keywords, `assert len(kwargs) == 0`, assign through the property setters, default origin `[0.0, 0.0, 0.0]`). -/')
    A('def setChainSrc : List (String × String) := [' + ', '.join(f'("{k}", "{a}")' for k, a in chain) + ']')
    A('/-- the chain ends in `else: raise TypeError`. -/')
    A(f'def setElseRaisesTypeError : Bool := {"true" if else_ok else "false"}')
    sigs, dflts = [], []
    for mname in ('set_vectors', 'set_abc', 'set_lengths', 'set_hi_los'):
        fa = meths[mname].args if mname in meths else fail(f'{mname} missing')
        if fa.vararg or fa.kwarg or fa.kwonlyargs or fa.posonlyargs or not fa.args or fa.args[0].arg != 'self':
            fail(f'{mname}: signature is not plain positional-or-keyword parameters')
        names = [x.arg for x in fa.args[1:]]
        nd = len(fa.defaults)
        ds = [None] * (len(names) - nd) + [ast.unparse(d) for d in fa.defaults]
        sigs.append((mname, [(n, d is not None) for n, d in zip(names, ds)]))
        dflts.append((mname, [(n, d) for n, d in zip(names, ds) if d is not None]))
    A('/-- parameters of the `set_*` methods after `self`, in signature order: (name, has a default). -/')
    A('def signatures : List (String × List (String × Bool)) := [' + ', '.join(
        f'("{m}", [' + ', '.join(f'("{n}", {"true" if d else "false"})' for n, d in ps) + '])' for m, ps in sigs) + ']')
    A('/-- their default values, as written. -/')
    A('def defaults : List (String × List (String × String)) := [' + ', '.join(
        f'("{m}", [' + ', '.join(f'("{n}", "{d}")' for n, d in ps) + '])' for m, ps in dflts) + ']')
    ib_ = [ast.unparse(st) for st in body('__init__')]
    init_ok = ib_[:3] == ["self.__vects = np.eye(3, dtype='float64')", "self.__origin = np.zeros(3, dtype='float64')",
                          'self.__reciprocal_vects = None'] and len(ib_) == 4 and ib_[3].startswith('if len(kwargs) > 0:')
    A('/-- `__init__` gives every instance newly allocated arrays (`np.eye(3, …)`, `np.zeros(3, …)`), an empty cache, and then')
    A('    hands the keywords to `model` / `set`. -/')
    A(f'def initFreshState : Bool := {"true" if init_ok else "false"}')
    fams = []
    for fname in ('cubic', 'hexagonal', 'tetragonal', 'trigonal', 'orthorhombic', 'monoclinic', 'triclinic'):
        fb = body(fname)
        if not fb or not isinstance(fb[-1], ast.Return):
            fail(f'{fname} does not end in return')
        fams.append((fname, ', '.join(x.arg for x in meths[fname].args.args[1:]), ast.unparse(fb[-1].value)))
    A('/-- the crystal-family constructors: (name, parameters, what they return). -/')
    A('def familyCalls : List (String × String × String) := [' + ', '.join(f'("{n}", "{a}", "{c}")' for n, a, c in fams) + ']')
    A('')
    A('end Atomman.Generated.BoxSource')
    return {'BoxSource': '\n'.join(out) + '\n'}


def _strip_check(b, argname, fail):
    """drop `x = np.asarray(arg, dtype=float)` and the trailing-dimension check of the two conversions."""
    import ast
    if len(b) != 3:
        fail('conversion body is not asarray / shape check / return')
    a0 = ast.unparse(b[0])
    if not (a0.endswith(f'= np.asarray({argname}, dtype=float)')):
        fail(f'conversion does not start with np.asarray({argname}, dtype=float): {a0}')
    var = b[0].targets[0].id
    if not (isinstance(b[1], ast.If) and ast.unparse(b[1].test) == f'{var}.shape[-1] != 3' and isinstance(b[1].body[0], ast.Raise)
            and 'ValueError' in ast.unparse(b[1].body[0]) and not b[1].orelse):
        fail('conversion lacks the `shape[-1] != 3 -> ValueError` check')
    return b[2:]


def _cmp(node, tr, fail):
    """one comparison `e1 op e2` -> Lean Bool."""
    import ast
    if not (isinstance(node, ast.Compare) and len(node.ops) == 1):
        fail(f'not a simple comparison: {ast.unparse(node)}')
    a, ta = tr.tr(node.left)
    b, tb = tr.tr(node.comparators[0])
    if ta != 'K' or tb != 'K':
        fail(f'comparison of non-scalars: {ast.unparse(node)}')
    op = node.ops[0]
    if isinstance(op, ast.Eq):
        return f'decide ({a} = {b})'
    if isinstance(op, ast.Gt):
        return f'decide ({b} < {a})'
    if isinstance(op, ast.Lt):
        return f'decide ({a} < {b})'
    if isinstance(op, ast.GtE):
        return f'decide ({b} ≤ {a})'
    if isinstance(op, ast.LtE):
        return f'decide ({a} ≤ {b})'
    fail(f'comparison operator in {ast.unparse(node)}')


THR = Fraction(1e-9)
LAMMPS_NAMES = ['lx', 'ly', 'lz', 'xy', 'xz', 'yz', 'xlo', 'xhi', 'ylo', 'yhi', 'zlo', 'zhi']


# ----------------------------------------------------------------------------------------
# helpers
# ----------------------------------------------------------------------------------------
def _np():
    import numpy as np
    return np


def _F(x):
    return Fraction(float(x))


def _cls(e):
    if isinstance(e, AssertionError):
        return 'err:assert'
    if isinstance(e, ValueError):      # numpy.linalg.LinAlgError is a ValueError
        return 'err:value'
    if isinstance(e, TypeError):
        return 'err:type'
    return 'err:crash:' + type(e).__name__


def _det3(V):
    return (V[0][0] * (V[1][1] * V[2][2] - V[1][2] * V[2][1])
            - V[0][1] * (V[1][0] * V[2][2] - V[1][2] * V[2][0])
            + V[0][2] * (V[1][0] * V[2][1] - V[1][1] * V[2][0]))


def _inv3(V):
    d = _det3(V)
    c = [[V[(i + 1) % 3][(j + 1) % 3] * V[(i + 2) % 3][(j + 2) % 3]
          - V[(i + 1) % 3][(j + 2) % 3] * V[(i + 2) % 3][(j + 1) % 3] for j in range(3)] for i in range(3)]
    return [[c[j][i] / d for j in range(3)] for i in range(3)]      # adj^T / det


def _dot(a, b):
    return sum(x * y for x, y in zip(a, b))


def _fmat(box):
    return [[_F(x) for x in row] for row in box.vects], [_F(x) for x in box.origin]


# ----------------------------------------------------------------------------------------
# cell specifications: one spec = one way of (re)defining the cell on the real Box and one driver line
# ----------------------------------------------------------------------------------------
def _default_origin(kw):
    return list(kw.get('origin', [0.0, 0.0, 0.0]))


def spec_line(spec):
    """driver line of a setter spec (exact rationals of the floats the implementation receives)."""
    np = _np()
    k, kw = spec['kind'], spec['kw']
    if k == 'reset':
        return 'new'
    if k == 'vects':
        return 'vects ' + cm.frs(np.array(kw['vects'], dtype=float)) + ' ' + cm.frs(_default_origin(kw))
    if k == 'vectors':
        return 'vects ' + cm.frs(list(kw['avect']) + list(kw['bvect']) + list(kw['cvect'])) + ' ' \
            + cm.frs(_default_origin(kw))
    if k == 'lengths':
        return 'lengths ' + cm.frs([kw['lx'], kw['ly'], kw['lz'], kw.get('xy', 0.0), kw.get('xz', 0.0),
                                    kw.get('yz', 0.0)]) + ' ' + cm.frs(_default_origin(kw))
    if k == 'hilos':
        return 'hilos ' + cm.frs([kw['xlo'], kw['xhi'], kw['ylo'], kw['yhi'], kw['zlo'], kw['zhi'],
                                  kw.get('xy', 0.0), kw.get('xz', 0.0), kw.get('yz', 0.0)])
    if k == 'abc':
        a, b, c = kw['a'], kw['b'], kw['c']
        al, be, ga = kw.get('alpha', 90.0), kw.get('beta', 90.0), kw.get('gamma', 90.0)
        ca, cb, cg, ly, lz = abc_params(a, b, c, al, be, ga)
        return 'abc ' + cm.frs([a, b, c, al, be, ga, ca, cb, cg, ly, lz]) + ' ' + cm.frs(_default_origin(kw))
    if k == 'attr_vects':
        return 'attr_vects ' + cm.frs(np.array(kw['vects'], dtype=float))
    if k == 'attr_origin':
        return 'attr_origin ' + cm.frs(kw['origin'])
    raise ValueError(k)


def abc_params(a, b, c, al, be, ga):
    """the external-routine values of set_abc, computed by the harness (the model's parameters):
    cosines via numpy.cos(angle*pi/180), ly and lz via float sqrt of the exact radicand rounded once.
    An unrealisable triple (negative radicand; the code gets nan and its assert fails) is sent as 0."""
    np = _np()
    ca = float(np.cos(al * np.pi / 180))
    cb = float(np.cos(be * np.pi / 180))
    cg = float(np.cos(ga * np.pi / 180))
    Fa, Fb, Fc = _F(a), _F(b), _F(c)
    xy = Fb * _F(cg)
    xz = Fc * _F(cb)
    ly2 = Fb * Fb - xy * xy
    ly = math.sqrt(ly2) if ly2 > 0 else 0.0
    lz = 0.0
    if ly > 0:
        yz = (Fb * Fc * _F(ca) - xy * xz) / _F(ly)
        lz2 = Fc * Fc - xz * xz - yz * yz
        lz = math.sqrt(lz2) if lz2 > 0 else 0.0
    return ca, cb, cg, ly, lz


FAMILY = {
    'cubic': lambda a: dict(a=a, b=a, c=a, alpha=90, beta=90, gamma=90),
    'hexagonal': lambda a, c: dict(a=a, b=a, c=c, alpha=90, beta=90, gamma=120),
    'tetragonal': lambda a, c: dict(a=a, b=a, c=c, alpha=90, beta=90, gamma=90),
    'trigonal': lambda a, alpha: dict(a=a, b=a, c=a, alpha=alpha, beta=alpha, gamma=alpha),
    'orthorhombic': lambda a, b, c: dict(a=a, b=b, c=c, alpha=90, beta=90, gamma=90),
    'monoclinic': lambda a, b, c, beta: dict(a=a, b=b, c=c, alpha=90, beta=beta, gamma=90),
    'triclinic': lambda a, b, c, alpha, beta, gamma: dict(a=a, b=b, c=c, alpha=alpha, beta=beta, gamma=gamma),
}


def apply_spec(box, spec):
    """perform the setter on the real code. Returns the (possibly new) Box; raises what the code raises."""
    import atomman as am
    np = _np()
    k, kw, via = spec['kind'], dict(spec['kw']), spec.get('via', 'set')
    if spec.get('types'):
        kw = typed_kw(kw, spec['types'])
    if k == 'reset':
        if via == 'ctor':
            return am.Box()
        box.set()
        return box
    if k == 'attr_vects':
        v = kw['vects']
        box.vects = np.array(v) if spec.get('container') == 'array' else v
        return box
    if k == 'attr_origin':
        if via == 'ctor':
            return am.Box(origin=kw['origin'])     # "origin alone": unit cell with that origin
        if via == 'set':
            box.set(origin=kw['origin'])
        else:
            box.origin = kw['origin']
        return box
    if spec.get('container') == 'array':
        for key in ('vects', 'avect', 'bvect', 'cvect', 'origin'):
            if key in kw and not any(t == key or t.startswith(key + '.') for t in spec.get('types') or ()):
                kw[key] = np.array(kw[key])
    if via == 'family':
        return getattr(am.Box, spec['family'])(*spec['fargs'])
    if spec.get('order'):      # the ORDER in which the keywords are written in the call / sit in the dictionary handed over
        kw = {**{key: kw[key] for key in spec['order'] if key in kw}, **{key: v for key, v in kw.items() if key not in spec['order']}}
    if via == 'ctor':
        return _kw_call(am.Box, kw, spec.get('literal'))
    if via == 'set':
        _kw_call(box.set, kw, spec.get('literal'))
        return box
    meth = {'vectors': 'set_vectors', 'lengths': 'set_lengths', 'hilos': 'set_hi_los', 'abc': 'set_abc'}.get(k)
    if meth is None:          # vects has no set_* method: attribute setters
        box.vects = kw['vects']
        box.origin = kw.get('origin', [0.0, 0.0, 0.0])
        return box
    if via == 'positional':   # the documented parameter order, optional parameters up to the last one given
        order = POSITIONAL[k]
        last = max(i for i, nm in enumerate(order) if nm in kw)
        getattr(box, meth)(*[kw[nm] if nm in kw else POSITIONAL_DEFAULTS[nm] for nm in order[:last + 1]])
        return box
    _kw_call(getattr(box, meth), kw, spec.get('literal'))
    return box


def _kw_call(f, kw, literal=False):
    """f(**kw) — or, with `literal`, the call written out with literal keywords in the order of kw: f(k1=v1, k2=v2, ...)."""
    if not literal or not all(isinstance(k, str) and k.isidentifier() for k in kw):
        return f(**kw)
    src = '_f(' + ', '.join(f'{k}=_v[{k!r}]' for k in kw) + ')'
    return eval(src, {'_f': f, '_v': kw})      # noqa: S307  (source text built from identifiers only)


def gen_order(rng, kw, p=0.5, p_literal=0.3):
    """(order, literal): a random order of the keywords of one call (None = as documented), written as literal keywords or
    handed over as a dictionary built in that order."""
    order = None
    if len(kw) > 1 and rng.random() < p:
        order = list(kw)
        rng.shuffle(order)
    return order, rng.random() < p_literal


# ----------------------------------------------------------------------------------------
# numeric types of the arguments: the same VALUE handed over as python int / float, numpy integer / float32 / float64
# scalar, 0-d array; vectors as lists of ints, of floats, mixed, tuples, integer / float32 / float64 arrays.
# spec['types'] = {keyword (or 'vects.<row>'): type name}; spec['kw'] keeps the plain values (what the model is sent).
# ----------------------------------------------------------------------------------------
INT_SCALARS = ['int', 'np.int64', 'np.int32', 'arr0-int', 'np.int16']
FLOAT_SCALARS = ['float', 'np.float64', 'np.float32', 'arr0-float', 'arr0-float32']
INT_VECTORS = ['ints', 'int-array', 'int32-array', 'int-tuple']
FLOAT_VECTORS = ['floats', 'float-array', 'float32-array', 'tuple', 'mixed']


def _typed_scalar(x, t):
    np = _np()
    conv = {'float': float, 'int': lambda v: int(v), 'np.int64': lambda v: np.int64(int(v)), 'np.int32': lambda v: np.int32(int(v)),
            'np.int16': lambda v: np.int16(int(v)), 'arr0-int': lambda v: np.array(int(v)), 'np.float64': np.float64,
            'np.float32': np.float32, 'arr0-float': lambda v: np.array(float(v)),
            'arr0-float32': lambda v: np.array(v, dtype=np.float32)}[t]
    y = conv(x)
    if float(y) != float(x):
        raise ValueError(f'{x!r} is not representable as {t}')
    return y


def _typed_vector(v, t):
    np = _np()
    v = list(v)
    if t == 'floats':
        out = [float(x) for x in v]
    elif t == 'tuple':
        out = tuple(float(x) for x in v)
    elif t == 'mixed':           # integer-valued entries as python ints, the others as floats, within one vector
        out = [int(x) if float(x) == int(x) else float(x) for x in v]
    elif t == 'ints':
        out = [int(x) for x in v]
    elif t == 'int-tuple':
        out = tuple(int(x) for x in v)
    elif t == 'int-array':
        out = np.array([int(x) for x in v], dtype=np.int64)
    elif t == 'int32-array':
        out = np.array([int(x) for x in v], dtype=np.int32)
    elif t == 'float-array':
        out = np.array(v, dtype=np.float64)
    elif t == 'float32-array':
        out = np.array(v, dtype=np.float32)
    else:
        raise ValueError(t)
    if [float(x) for x in out] != [float(x) for x in v]:
        raise ValueError(f'{v!r} is not representable as {t}')
    return out


def typed_kw(kw, types):
    """the keyword values of a spec converted to the numeric types asked for (values unchanged, checked)."""
    out = dict(kw)
    for key, t in types.items():
        if key.startswith('vects.'):
            if 'vects' in out:
                rows = list(out['vects'])
                rows[int(key[6:])] = _typed_vector(kw['vects'][int(key[6:])], t)
                out['vects'] = rows
        elif key in out:
            out[key] = _typed_vector(kw[key], t) if isinstance(kw[key], (list, tuple)) else _typed_scalar(kw[key], t)
    return out


def _admissible(x, vector=False):
    np = _np()
    xs = list(x) if vector else [x]
    integral = all(float(v) == int(v) and abs(v) < 2 ** 15 for v in xs)
    f32 = all(float(np.float32(v)) == float(v) for v in xs)
    if vector:
        return (INT_VECTORS if integral else []) + [t for t in FLOAT_VECTORS if f32 or t != 'float32-array']
    return (INT_SCALARS if integral else []) + [t for t in FLOAT_SCALARS if f32 or 'float32' not in t]


SCALAR_KEYS = ('lx', 'ly', 'lz', 'xy', 'xz', 'yz', 'xlo', 'xhi', 'ylo', 'yhi', 'zlo', 'zhi', 'a', 'b', 'c', 'alpha', 'beta', 'gamma')


def assign_types(rng, spec, cls=None, vcls=None, only=None):
    """give every argument of the definition a numeric type admissible for its value.  cls / vcls: one scalar / vector type
    used wherever it is admissible (e.g. all lengths numpy int32 next to python-float tilts), for the keywords in `only`
    (default: all); every other argument gets a random admissible type (cls None) or plain python floats (cls given)."""
    kw = spec['kw']
    types = {}

    def pick(key, adm, want, plain):
        if want is not None and (only is None or key in only):
            return want if want in adm else plain
        if want is None and cls is None and vcls is None:
            return rng.choice(adm)
        return plain

    for key, v in kw.items():
        if key == 'vects':
            for i, row in enumerate(v):
                types[f'vects.{i}'] = pick(f'vects.{i}', _admissible(row, vector=True), vcls, 'floats')
        elif isinstance(v, (list, tuple)):
            types[key] = pick(key, _admissible(v, vector=True), vcls, 'floats')
        elif key in SCALAR_KEYS:
            adm = _admissible(v)
            if spec['kind'] == 'abc':
                # numpy computes with float32 scalars in float32 (cosines, products, roots of set_abc): single-precision
                # arguments ask for a single-precision cell, which is not the rounding bound this check is about
                adm = [t for t in adm if 'float32' not in t]
            types[key] = pick(key, adm, cls, 'float')
    spec['types'] = types
    spec.pop('container', None)
    return spec


def integerise(rng, spec, p=0.65):
    """make the length-like values of a grid definition integer-valued (each with probability p) and keep at least one
    non-integer tilt / angle / component next to them: the combination in which an integer-typed argument must not
    decide the type of the whole cell."""
    kind, kw = spec['kind'], spec['kw']
    if kind in ('lengths', 'abc'):
        for k in (('lx', 'ly', 'lz') if kind == 'lengths' else ('a', 'b', 'c')):
            if rng.random() < p:
                kw[k] = float(max(1, round(kw[k])))
    elif kind == 'hilos':
        for lo, hi in (('xlo', 'xhi'), ('ylo', 'yhi'), ('zlo', 'zhi')):
            if rng.random() < p:
                L = float(max(1, round(kw[hi] - kw[lo])))
                kw[lo] = float(round(kw[lo]))
                kw[hi] = kw[lo] + L
    if kind in ('lengths', 'hilos'):
        if all(float(kw.get(t, 0.0)) == int(kw.get(t, 0.0)) for t in ('xy', 'xz', 'yz')):
            kw[rng.choice(['xy', 'xz', 'yz'])] = rng.choice([-1, 1]) * rng.choice([1, 3, 5, 7, 9, 11, 13]) / 8
    elif kind in ('vects', 'vectors'):
        V = [list(r) for r in (kw['vects'] if kind == 'vects' else [kw['avect'], kw['bvect'], kw['cvect']])]
        d0 = _det3([[Fraction(x) for x in r] for r in V])
        for i in rng.sample(range(3), rng.choice([1, 2, 2, 3])):
            W = [list(r) for r in V]
            W[i] = [float(round(x)) for x in W[i]]
            d = _det3([[Fraction(x) for x in r] for r in W])
            if d != 0 and (d > 0) == (d0 > 0):
                V = W
        if kind == 'vects':
            kw['vects'] = V
        else:
            kw['avect'], kw['bvect'], kw['cvect'] = V
    if 'origin' in kw and rng.random() < 0.5 and all(round(x) != 0 for x in kw['origin']):
        kw['origin'] = [float(round(x)) for x in kw['origin']]
    return spec


# parameter order of the set_* methods as documented (docstrings of Box.set_vectors / set_lengths / set_hi_los / set_abc)
POSITIONAL = {'vectors': ['avect', 'bvect', 'cvect', 'origin'],
              'lengths': ['lx', 'ly', 'lz', 'xy', 'xz', 'yz', 'origin'],
              'hilos': ['xlo', 'xhi', 'ylo', 'yhi', 'zlo', 'zhi', 'xy', 'xz', 'yz'],
              'abc': ['a', 'b', 'c', 'alpha', 'beta', 'gamma', 'origin']}
POSITIONAL_DEFAULTS = {'xy': 0.0, 'xz': 0.0, 'yz': 0.0, 'alpha': 90.0, 'beta': 90.0, 'gamma': 90.0, 'origin': None}


# ----------------------------------------------------------------------------------------
# generators
# ----------------------------------------------------------------------------------------
def _dy(rng, lo, hi, bits=3):
    return cm.dyadic(rng, lo, hi, bits)


def _pos_dy(rng, hi=8.0, bits=3):
    q = 1 << bits
    return rng.randint(1, int(hi * q)) / q


SIGN_PATTERNS = [(1, 1, 1), (1, -1, -1), (-1, 1, -1), (-1, -1, 1), (-1, 1, 1), (1, -1, 1), (1, 1, -1), (-1, -1, -1)]


def gen_spec(rng, regime, allow_left=False, kinds=None, origin=None, ints=None, nonzero_origin=False, tiny=False, typed=None):
    """random cell definition. regime: 'grid' | 'float'.  origin: True / False = with / without the optional origin
    (None: random); ints: integer-valued definition given as python ints (integer arrays with container 'array')."""
    kind = rng.choice(kinds or ['vects', 'vectors', 'lengths', 'hilos', 'abc', 'lengths', 'hilos'])
    via = rng.choice(['ctor', 'set', 'method', 'ctor', 'set', 'method', 'positional'])
    g = regime == 'grid'
    ints = g and (rng.random() < 0.15 if ints is None else ints)   # python ints / integer arrays instead of floats
    if ints:
        num = lambda lo, hi: rng.randint(int(lo), int(hi))          # noqa: E731
        pos = lambda hi=8.0: rng.randint(1, int(hi))                # noqa: E731
    else:
        num = (lambda lo, hi: _dy(rng, lo, hi)) if g else (lambda lo, hi: rng.uniform(lo, hi))
        pos = (lambda hi=8.0: _pos_dy(rng, hi)) if g else (lambda hi=8.0: rng.uniform(0.5, hi))
    origin_req = origin
    if origin is None:
        origin = rng.random() < 0.7
    origin = [num(-8, 8) for _ in range(3)] if origin else None
    if origin is not None and nonzero_origin:
        while any(x == 0 for x in origin):
            origin = [num(-8, 8) for _ in range(3)]
    spec = {'kind': kind, 'via': via, 'regime': regime}
    if ints:
        spec['ints'] = True
    zero = 0 if ints else 0.0
    if rng.random() < 0.3:
        spec['container'] = 'array'
    if kind in ('vects', 'vectors'):
        for _ in range(200):
            if rng.random() < 0.35:      # rotated / sheared general cell
                V = [[num(-4, 4) for _ in range(3)] for _ in range(3)]
            else:                         # lower-triangular with a row permutation / sign pattern
                V = [[pos(), zero, zero], [num(-4, 4), pos(), zero], [num(-4, 4), num(-4, 4), pos()]]
                r2 = rng.random()
                if r2 < 0.4:
                    cols = rng.choice([[0, 1, 2], [1, 2, 0], [2, 0, 1]])
                    V = [[r[c] for c in cols] for r in V]
                elif r2 < 0.65:
                    # still lower-triangular, but the cell turned by 180 degrees about x, y or z (two Cartesian axes reversed:
                    # right-handed, not LAMMPS-oriented although the upper triangle is zero); any sign pattern if left-handed
                    # cells are wanted
                    sg = rng.choice(SIGN_PATTERNS if allow_left else [p for p in SIGN_PATTERNS[1:] if p[0] * p[1] * p[2] > 0])
                    V = [[x * sg[j] if x != 0 else x for j, x in enumerate(r)] for r in V]
            d = _det3([[Fraction(x) for x in r] for r in V])
            if d == 0:
                continue
            if d < 0 and not allow_left:
                V = [V[1], V[0], V[2]]
            if not g:
                np = _np()
                if np.linalg.cond(np.array(V)) > 200:
                    continue
                if rng.random() < (0.6 if tiny else 0.1):        # entries around the setter's clean-up threshold (1e-9 of the largest)
                    big = max(abs(x) for r in V for x in r)
                    for _ in range(rng.randint(1, 2)):
                        V[rng.randrange(3)][rng.randrange(3)] = rng.choice([-1, 1]) * big * 10 ** rng.uniform(-12, -4)
                    if abs(np.linalg.det(np.array(V))) < 1e-3 * big ** 3 or np.linalg.det(np.array(V)) < 0 and not allow_left:
                        continue
            break
        if kind == 'vects':
            kw = {'vects': V}
        else:
            kw = {'avect': V[0], 'bvect': V[1], 'cvect': V[2]}
        if origin is not None:
            kw['origin'] = origin
    elif kind == 'lengths':
        kw = {'lx': pos(), 'ly': pos(), 'lz': pos()}
        for t in ('xy', 'xz', 'yz'):
            if rng.random() < 0.75:
                kw[t] = num(-4, 4)
        if origin is not None:
            kw['origin'] = origin
    elif kind == 'hilos':
        lo = [num(-8, 8) for _ in range(3)]
        L = [pos(), pos(), pos()]
        kw = {'xlo': lo[0], 'xhi': lo[0] + L[0], 'ylo': lo[1], 'yhi': lo[1] + L[1], 'zlo': lo[2], 'zhi': lo[2] + L[2]}
        for t in ('xy', 'xz', 'yz'):
            if rng.random() < 0.75:
                kw[t] = num(-4, 4)
    if kind in ('lengths', 'hilos') and not g and rng.random() < (0.6 if tiny else 0.08):     # a tilt around the clean-up threshold
        big = max(abs(kw.get(k, 0.0)) for k in ('lx', 'ly', 'lz', 'xy', 'xz', 'yz')) if kind == 'lengths' else \
            max(kw['xhi'] - kw['xlo'], kw['yhi'] - kw['ylo'], kw['zhi'] - kw['zlo'], *(abs(kw.get(k, 0.0)) for k in ('xy', 'xz', 'yz')))
        kw[rng.choice(['xy', 'xz', 'yz'])] = rng.choice([-1, 1]) * big * 10 ** rng.uniform(-12, -4)
    if kind == 'abc':
        kw, fam = gen_abc(rng, g, ints)
        if fam is not None and rng.random() < 0.5 and origin_req is not True:
            spec['via'] = 'family'
            spec['family'], spec['fargs'] = fam
            origin = None
        if origin is not None:
            kw['origin'] = origin
    spec['kw'] = kw
    if typed is None:
        typed = g and not ints and rng.random() < 0.25
    if typed and g and not ints and spec.get('via') != 'family':
        # the same values as python ints / floats, numpy integer / float32 / float64 scalars, 0-d arrays, int / float lists ...
        integerise(rng, spec)
        r = rng.random()
        if r < 0.4:           # one integer (or float32) class for all length-like arguments, python floats for the rest
            assign_types(rng, spec, cls=rng.choice(INT_SCALARS + ['np.float32', 'arr0-float32']), vcls=rng.choice(INT_VECTORS + ['float32-array']))
        else:                 # every argument its own type
            assign_types(rng, spec)
    if spec.get('via') != 'family':        # (callers may still change `via`; a positional call ignores the order)
        order, literal = gen_order(rng, spec['kw'])
        if order:
            spec['order'] = order
        if literal:
            spec['literal'] = True
    return spec


# ----------------------------------------------------------------------------------------
# small changes of a live Box (warm cache -> tiny change through any setter -> re-read)
# ----------------------------------------------------------------------------------------
PERT_FORMS = ['scale', 'entry', 'shear', 'strain', 'ulp', 'ulp', 'same']
PERT_TARGETS = ['attr_vects', 'vects', 'vectors', 'lengths', 'hilos', 'abc', 'attr_origin', 'attr_vects', 'vects']


def gen_perturb(rng, eps=None):
    """a *request* for a small change; made concrete on the live Box by resolve_perturb (the concrete spec is what
    goes into histories / replays).  eps: relative size, log-uniform over 1e-15 .. 1e-4 (the whole range between one
    rounding error and what a generous `allclose` would call unchanged), or one ulp, or no change at all."""
    if eps is None:
        eps = rng.choice([-1, 1]) * 10 ** rng.uniform(-15, -4)
    return {'perturb': {'form': rng.choice(PERT_FORMS), 'eps': eps, 'i': rng.randrange(3), 'j': rng.randrange(3),
                        'k': rng.randrange(12), 'target': rng.choice(PERT_TARGETS),
                        'via': rng.choice(['set', 'method']), 'container': rng.choice(['list', 'array']),
                        'keep_origin': rng.random() < 0.8, 'up': rng.random() < 0.5}}


def _bump(x, form, eps, up):
    if form == 'ulp':
        return math.nextafter(x, math.inf if up else -math.inf)
    if form == 'same':
        return x
    return x * (1.0 + eps)


def resolve_perturb(box, req):
    """the concrete setter spec (kind / via / kw of plain floats) that applies the requested small change to the
    current state of `box`.  Deterministic given the state and the request."""
    np = _np()
    q = req['perturb']
    form, eps, up, target = q['form'], q['eps'], q['up'], q['target']
    V = np.array(box.vects, dtype=float)
    o = [float(x) for x in box.origin]
    normal = bool(V[0, 1] == 0 and V[0, 2] == 0 and V[1, 2] == 0 and V[0, 0] > 0 and V[1, 1] > 0 and V[2, 2] > 0)
    if target in ('lengths', 'hilos', 'abc') and not normal:
        target = 'vects'
    spec = {'via': q['via'], 'regime': 'float', 'container': q['container'], 'perturbed': dict(q)}
    if target == 'attr_origin':
        vmax = float(abs(V).max())
        o2 = list(o)
        i = q['i']
        if form == 'ulp':
            o2[i] = math.nextafter(o2[i], math.inf if up else -math.inf)
        elif form == 'scale':
            o2 = [x * (1.0 + eps) for x in o2]
        elif form != 'same':
            o2[i] = o2[i] + eps * vmax
        spec.update(kind='attr_origin', via='attr' if q['via'] == 'method' else 'set', kw={'origin': o2})
        return spec
    if target in ('attr_vects', 'vects', 'vectors'):
        W = V.copy()
        i, j = q['i'], q['j']
        if W[i, j] == 0.0:
            j = int(abs(W[i]).argmax())
        if form == 'scale':
            W = W * (1.0 + eps)
        elif form in ('entry', 'ulp'):
            W[i, j] = _bump(float(W[i, j]), form, eps, up)
        elif form == 'shear':
            i, j = q['i'], q['j']
            if i == j:
                j = (i + 1) % 3
            if normal and i < j:
                i, j = j, i           # keeps a lower-triangular cell lower-triangular
            F = np.eye(3)
            F[i, j] += eps
            W = W.dot(F)
        elif form == 'strain':
            F = np.eye(3) * (1.0 + eps)
            F[1, 0] = eps / 2
            W = W.dot(F)
        W = W.tolist()
        if target == 'attr_vects':
            spec.update(kind='attr_vects', via='attr', kw={'vects': W})
            return spec
        kw = {'vects': W} if target == 'vects' else {'avect': W[0], 'bvect': W[1], 'cvect': W[2]}
        if q['keep_origin']:
            kw['origin'] = o
        spec.update(kind=target, kw=kw)
        return spec
    if target in ('lengths', 'hilos'):
        names = ['lx', 'ly', 'lz', 'xy', 'xz', 'yz'] if target == 'lengths' else \
            ['xlo', 'xhi', 'ylo', 'yhi', 'zlo', 'zhi', 'xy', 'xz', 'yz']
        kw = {n: float(getattr(box, n)) for n in names}
        if form in ('scale', 'strain', 'shear'):
            kw = {n: v * (1.0 + eps) for n, v in kw.items()}
        else:
            n = names[q['k'] % len(names)]
            kw[n] = _bump(kw[n], form, eps, up)
        if target == 'lengths' and q['keep_origin']:
            kw['origin'] = o
        spec.update(kind=target, kw=kw)
        return spec
    # abc: the cell's own lengths and angles, slightly changed
    names = ['a', 'b', 'c', 'alpha', 'beta', 'gamma']
    kw = {n: float(getattr(box, n)) for n in names}
    if form in ('scale', 'strain', 'shear'):
        for n in 'abc':
            kw[n] = kw[n] * (1.0 + eps)
    else:
        n = names[q['k'] % 6]
        kw[n] = _bump(kw[n], form, eps, up)
    if q['keep_origin']:
        kw['origin'] = o
    spec.update(kind='abc', kw=kw)
    return spec


# how far the unit of length can go (powers of two; entries of the cells are below 2^4 in the unit):
SCALE_FOURTH = 235      # fourth powers of a length are doubles (plane normals, hence inside / outside)
SCALE_VOLUME = 330      # third powers are (volume)
SCALE_SQUARE = 500      # squares are (lengths, angles, set_abc, both conversions, reciprocal vectors)


def gen_scale_exp(rng, kmax):
    """exponent of a power-of-two unit: everyday (2^-30..2^30), or towards the ends of the double range."""
    r = rng.random()
    if r < 0.3:
        k = rng.choice([-30, -24, -10, 10, 20, 30])
    elif r < 0.5:
        k = rng.choice([-1, 1]) * rng.randint(40, min(kmax, SCALE_FOURTH))
    else:
        k = rng.choice([-1, 1]) * rng.randint(min(kmax, SCALE_FOURTH), kmax)
    return k


def scale_spec(spec, f):
    """the same cell definition in other units: every length (not the angles) times f (a power of two)."""
    kw = {}
    for k, v in spec['kw'].items():
        if k in ('alpha', 'beta', 'gamma'):
            kw[k] = v
        elif isinstance(v, (list, tuple)):
            kw[k] = [[x * f for x in r] if isinstance(r, (list, tuple)) else r * f for r in v]
        else:
            kw[k] = v * f
    out = dict(spec, kw=kw)
    out.pop('types', None)        # an int16 / float32 argument need not survive the change of units
    if out.get('via') == 'family':
        out['fargs'] = [x * f if i < {'cubic': 1, 'hexagonal': 2, 'tetragonal': 2, 'trigonal': 1, 'orthorhombic': 3,
                                      'monoclinic': 3, 'triclinic': 3}[out['family']] else x
                        for i, x in enumerate(out['fargs'])]
    return out


def gen_abc(rng, grid, ints=False):
    """a, b, c and a realisable angle triple; sometimes one of the crystal families; the optional angle keywords
    in every combination (an omitted angle is the documented default 90)."""
    if ints:
        L = lambda: rng.randint(1, 8)                               # noqa: E731
    else:
        L = (lambda: _pos_dy(rng, 8.0)) if grid else (lambda: rng.uniform(1.0, 8.0))
    r = rng.random()
    if r < 0.45:
        name = rng.choice(list(FAMILY))
        a, b, c = L(), L(), L()
        while a == b or a == c:
            b, c = L() + (1 if ints else 0.125), L() + (2 if ints else 0.25)
        if name == 'cubic':
            args = [a]
        elif name in ('hexagonal', 'tetragonal'):
            args = [a, c]
        elif name == 'trigonal':
            args = [a, rng.choice([60, 75, 90, 100, 110] if ints else [60.0, 75.5, 90.0, 100.0, 110.0, rng.uniform(30, 118)])]
        elif name == 'orthorhombic':
            args = [a, b, c]
        elif name == 'monoclinic':
            args = [a, b, c, rng.choice([100, 120, 135] if ints else [100.0, 120.0, rng.uniform(91, 150)])]
        else:
            al, be, ga = _angles(rng, ints)
            while al == be or al == ga:
                al, be, ga = _angles(rng, ints)
            args = [a, b, c, al, be, ga]
        kw = {k: (v if ints else float(v)) for k, v in FAMILY[name](*args).items()}
        return kw, (name, args)
    a, b, c = L(), L(), L()
    kw = {'a': a, 'b': b, 'c': c}
    given = [k for k in ('alpha', 'beta', 'gamma') if rng.random() < (0.8 if rng.random() < 0.6 else 0.4)]
    while True:
        al, be, ga = _angles(rng, ints)
        ang = {'alpha': al, 'beta': be, 'gamma': ga}
        full = {k: (ang[k] if k in given else 90.0) for k in ang}
        ca, cb, cg = (math.cos(math.radians(full[k])) for k in ('alpha', 'beta', 'gamma'))
        extreme = any(not 15 <= full[k] <= 165 for k in full)
        if 1 - ca * ca - cb * cb - cg * cg + 2 * ca * cb * cg > (4e-9 if extreme else 0.05):
            break
    kw.update({k: ang[k] for k in given})
    return kw, None


def _angles(rng, ints=False):
    """realisable triple in (0,180), well inside the realisability region."""
    while True:
        if ints:
            al, be, ga = (rng.choice([60, 90, 120, 75, 100, 45, 135]) for _ in range(3))
        else:
            al, be, ga = (rng.choice([60.0, 90.0, 120.0, 75.0, 100.0, rng.uniform(40, 140), rng.uniform(15, 165)]) for _ in range(3))
        lim = 0.05
        if not ints and rng.random() < 0.08:      # one angle close to 0 or 180 degrees (near-degenerate, still realisable)
            ang = [90.0, 90.0, 90.0]
            ang[rng.randrange(3)] = rng.choice([1.0, 2.0, 5.0, 10.0, 170.0, 175.0, 178.0, 179.0, rng.uniform(1, 12), rng.uniform(168, 179),
                                                # 0.004 .. 2 degrees off 0 / 180 (where an arcsin / a cosine no longer tells the two sides apart)
                                                179.5, 0.5, 10 ** rng.uniform(-2.4, 0.3), 180.0 - 10 ** rng.uniform(-2.4, 0.3)])
            al, be, ga = ang
            lim = 4e-9
        ca, cb, cg = (math.cos(math.radians(x)) for x in (al, be, ga))
        vol2 = 1 - ca * ca - cb * cb - cg * cg + 2 * ca * cb * cg
        if vol2 > lim:
            return al, be, ga


def gen_points(rng, V, o, regime, n, orth_exact=False):
    """points as relative coordinates mapped to Cartesian by exact arithmetic, rounded to doubles:
    inside, far outside, near faces; on the grid exactly on faces / edges / corners."""
    pts = []
    for _ in range(n):
        r = rng.random()
        if regime == 'grid':
            if r < 0.45:
                s = [rng.choice([0, 1, Fraction(1, 2), Fraction(1, 4), Fraction(3, 4), 0, 1]) for _ in range(3)]
            elif r < 0.75:
                s = [Fraction(rng.randint(-4, 12), 8) for _ in range(3)]
            else:
                s = [Fraction(rng.randint(1, 7), 8) for _ in range(3)]
        else:
            if r < 0.4:
                s = [Fraction(rng.uniform(0.02, 0.98)) for _ in range(3)]
            elif r < 0.7:
                s = [Fraction(rng.uniform(-1.0, 2.0)) for _ in range(3)]
            elif r < 0.85:      # close to a face but well beyond the rounding bound
                s = [Fraction(rng.uniform(0.05, 0.95)) for _ in range(3)]
                s[rng.randrange(3)] = Fraction(rng.choice([0.0, 1.0]) + rng.choice([-1, 1])
                                               * rng.choice([1e-4, 1e-6, 10 ** rng.uniform(-13, -3)]))
            else:               # within rounding of a face: exempt (the model computes the margin)
                s = [Fraction(rng.uniform(0.05, 0.95)) for _ in range(3)]
                s[rng.randrange(3)] = Fraction(rng.choice([0.0, 1.0]) + rng.choice([-1, 0, 1]) * 1e-15)
        p = [float(sum(s[i] * V[i][j] for i in range(3)) + o[j]) for j in range(3)]
        pts.append(p)
    return pts


VARIANTS = ['list', 'tuple', 'array2', 'array3', 'array4', 'single-list', 'single-tuple', 'single-array', 'array33',
            'noncontig', 'fortran']
VARIANTS_ALL = VARIANTS + ['empty', 'empty3']
INT_VARIANTS = ['int-array', 'int-list', 'int-single', 'int-array3', 'int-tuple']     # integer-valued points only


def shape_variant(rng, pts, name=None):
    """the same points in another container / leading shape. Returns (name, argument, number of points used)."""
    np = _np()
    name = name or rng.choice(VARIANTS)
    n = len(pts)
    if name == 'list':
        return name, [list(p) for p in pts], n
    if name == 'tuple':
        return name, tuple(tuple(p) for p in pts), n
    if name == 'array2':
        return name, np.array(pts), n
    if name in ('array3', 'array4'):
        a = max(d for d in (1, 2, 3) if n % d == 0)
        arr = np.array(pts).reshape(a, n // a, 3)
        return name, (arr if name == 'array3' else arr.reshape(1, a, n // a, 3)), n
    if name == 'array33':                # exactly three points: a (3,3) array, the shape of a matrix
        if n < 3:
            return 'array2', np.array(pts), n
        return name, np.array(pts[:3]), 3
    if name == 'noncontig':              # a strided view
        big = np.full((n, 2, 6), 7.5)
        view = big[:, 1, ::2]
        view[...] = np.array(pts)
        return name, view, n
    if name == 'fortran':
        return name, np.asfortranarray(np.array(pts)), n
    if name == 'empty':
        return name, np.zeros((0, 3)), 0
    if name == 'empty3':
        return name, np.zeros((2, 0, 3)), 0
    if name == 'f32-array':              # single-precision array: the points must be float32 numbers
        arr = np.array(pts, dtype=np.float32)
        assert np.array_equal(arr.astype(float), np.array(pts, dtype=float)), 'f32 variant needs float32-representable points'
        return name, arr, n
    if name.startswith('int-'):          # python ints / integer dtype: the points must be integer-valued
        ip = [[int(x) for x in p] for p in pts]
        assert all(float(a) == b for p, q in zip(ip, pts) for a, b in zip(p, q)), 'int variant needs integer-valued points'
        if name == 'int-array':
            return name, np.array(ip, dtype=np.int64), n
        if name == 'int-array3':
            small = all(abs(x) < 2 ** 31 for q in ip for x in q)
            return name, np.array(ip, dtype=np.int32 if small else np.int64).reshape(1, n, 3), n
        if name == 'int-list':
            return name, ip, n
        if name == 'int-tuple':
            return name, tuple(tuple(p) for p in ip), n
        return name, ip[0], 1
    if name == 'single-list':
        return name, list(pts[0]), 1
    if name == 'single-tuple':
        return name, tuple(pts[0]), 1
    return name, np.array(pts[0]), 1


# ----------------------------------------------------------------------------------------
# correspondence
# ----------------------------------------------------------------------------------------
class _Scenario:
    """collects (driver line, implementation observation, comparison) for one Box object."""

    def __init__(self, ctx, rng, regime, sid):
        self.ctx, self.rng, self.regime, self.sid = ctx, rng, regime, sid
        self.box = None
        self.items = []          # (line, kind, impl, info)
        self.history = []        # specs applied so far (for replay)
        self.exact = regime == 'grid'
        self.no_inside = False

    def add(self, line, kind, impl, **info):
        info['history'] = list(self.history)
        info['exact'] = self.exact
        self.items.append((line, kind, impl, info))
        nontriv = any(h['kind'] != 'reset' for h in self.history)
        self.ctx.stats.case(kind, (self.sid, len(self.items), line), nontrivial=nontriv,
                            sample={'line': line[:300], 'history': [_short(h) for h in self.history[-2:]]})

    # -- setters ---------------------------------------------------------------------------
    def _raw_new(self):
        self.items.append(('new', 'set', 'ok', {'history': list(self.history), 'exact': self.exact,
                                                'spec': {'kind': 'reset', 'via': 'implicit'}}))

    def setter(self, spec):
        import atomman as am
        fresh = spec.get('via') in ('ctor', 'family')
        if self.box is None and not fresh:
            self.box = am.Box()
            self._raw_new()
        try:
            newbox = apply_spec(self.box, spec)
            impl = 'ok'
        except Exception as e:  # noqa
            impl = _cls(e)
            newbox = am.Box() if (fresh or self.box is None) else self.box
        if fresh:
            self._raw_new()          # a constructor call starts from the unit cell
        self.box = newbox
        h = dict(spec)
        h['_ok'] = impl == 'ok'
        self.history.append(h)
        if impl == 'ok' and spec['kind'] != 'attr_origin':
            # exact comparison: dyadic grid and no float library call (cos, sqrt) in the setter
            self.exact = spec.get('regime', self.regime) == 'grid' and spec['kind'] != 'abc'
        self.add(spec_line(spec), 'set', impl, spec=spec)
        if spec['kind'] == 'abc' and impl == 'ok':
            kw = spec['kw']
            a, b, c = kw['a'], kw['b'], kw['c']
            p = abc_params(a, b, c, kw.get('alpha', 90.0), kw.get('beta', 90.0), kw.get('gamma', 90.0))
            self.add('abcres ' + cm.frs([a, b, c, *p]), 'abcres', None, spec=spec)
        return impl

    def perturb(self, req):
        """a small change of the live object (made concrete on its current state)."""
        try:
            spec = resolve_perturb(self.box, req)
        except Exception as e:  # noqa  (a getter of the implementation raised: an observation, reported by read_get)
            self.ctx.notes.append(f'perturbation not applicable: {type(e).__name__}: {e}')
            return None
        return self.setter(spec)

    # -- readers ---------------------------------------------------------------------------
    def read_get(self):
        b = self.box
        np = _np()
        try:
            if self.rng.random() < 0.5:
                v = np.array(b.vects)
            else:
                v = np.array([b.avect, b.bvect, b.cvect])
            impl = {'vects': v.ravel().tolist(), 'origin': b.origin.tolist(), 'abc': [b.a, b.b, b.c],
                    'angles': [b.alpha, b.beta, b.gamma], 'volume': float(b.volume),
                    'norm': bool(b.is_lammps_norm())}
        except Exception as e:  # noqa
            impl = _cls(e)
        self.add('get', 'get', impl)

    def read_lammps(self):
        b = self.box
        impl = []           # each getter on its own: which of them refuse, and which hand out a number
        for nm in LAMMPS_NAMES:
            try:
                impl.append(float(getattr(b, nm)))
            except Exception as e:  # noqa
                impl.append(_cls(e))
        self.add('lammps', 'lammps', impl)

    def read_recip(self):
        try:
            impl = self.box.reciprocal_vects.ravel().tolist()
        except Exception as e:  # noqa
            impl = _cls(e)
        self.add('recip', 'recip', impl)

    def _points(self, n):
        V, o = _fmat(self.box)
        return gen_points(self.rng, V, o, self.regime, n)

    def read_conv(self, op, pts=None, variant=None):
        """op 'r2c' or 'c2r' on a random container/shape."""
        np = _np()
        if pts is None:
            n = self.rng.randint(1, 6)
            if op == 'r2c':
                if self.regime == 'grid':
                    pts = [[_dy(self.rng, -2, 2) for _ in range(3)] for _ in range(n)]
                else:
                    pts = [[self.rng.uniform(-2, 2) for _ in range(3)] for _ in range(n)]
            else:
                pts = self._points(n)
            if self.regime == 'grid' and self.rng.random() < 0.12:      # python ints / integer arrays
                pts = [[float(self.rng.randint(-3, 3) if op == 'r2c' else self.rng.randint(-8, 12)) for _ in range(3)] for _ in range(n)]
                variant = self.rng.choice(INT_VARIANTS)
        vname, arg, used = shape_variant(self.rng, pts, variant)
        f = self.box.position_relative_to_cartesian if op == 'r2c' else self.box.position_cartesian_to_relative
        try:
            out = np.asarray(f(arg))
            want_shape = np.asarray(arg, dtype=float).shape
            if out.shape != want_shape:
                impl = [('shape', out.shape, want_shape)] * used
            else:
                impl = out.reshape(-1, 3).tolist()
        except Exception as e:  # noqa
            impl = [_cls(e)] * used
        for p, r in zip(pts[:used], impl):
            self.add(f'{op} ' + cm.frs(p), op, r, variant=vname, point=p)

    def read_bad_dim(self, op):
        np = _np()
        bad = self.rng.choice([[1.0, 2.0], [[1.0, 2.0, 3.0, 4.0]], np.zeros((2, 2)), [0.5]])
        f = self.box.position_relative_to_cartesian if op == 'r2c' else self.box.position_cartesian_to_relative
        try:
            f(bad)
            impl = 'ok'
        except Exception as e:  # noqa
            impl = _cls(e)
        flat = np.asarray(bad, dtype=float).reshape(-1).tolist()[:2]
        self.add(f'{op} ' + cm.frs(flat), 'baddim', impl, variant=type(bad).__name__, point=flat)

    def read_inside(self, op='inside', pts=None, variant=None):
        np = _np()
        if self.no_inside:
            return
        if pts is None:
            pts = self._points(self.rng.randint(1, 6))
            if self.regime == 'grid' and self.rng.random() < 0.12:      # python ints / integer arrays
                pts = [[float(self.rng.randint(-8, 12)) for _ in range(3)] for _ in pts]
                variant = self.rng.choice(INT_VARIANTS)
        vname, arg, used = shape_variant(self.rng, pts, variant)
        res = {}
        for incl in (True, False):
            try:
                f = self.box.inside if op == 'inside' else self.box.outside
                how = self.rng.random()
                if op == 'inside' and incl and how < 0.3:
                    out = f(arg)                       # default inclusive=True
                elif op == 'outside' and (not incl) and how < 0.3:
                    out = f(arg)                       # default inclusive=False
                else:
                    out = f(arg, inclusive=incl)
                out = np.asarray(out)
                want_shape = np.asarray(arg, dtype=float).shape[:-1]
                if out.shape != want_shape or out.dtype != bool:
                    res[incl] = [('shape', out.shape, str(out.dtype))] * used
                else:
                    res[incl] = [bool(x) for x in out.reshape(-1)]
            except Exception as e:  # noqa
                res[incl] = [_cls(e)] * used
        for i, p in enumerate(pts[:used]):
            self.add(f'{op} ' + cm.frs(p), op, (res[True][i], res[False][i]), variant=vname, point=p)

    def all_reads(self, light=False):
        self.read_get()
        self.read_lammps()
        self.read_recip()
        self.read_conv('r2c')
        self.read_conv('c2r')
        if self.no_inside:       # unit so large / small that a plane normal (fourth power under the root) is no double
            return
        self.read_inside('inside')
        if not light or self.rng.random() < 0.5:
            self.read_inside('outside')
            self.read_recip()


def _short(spec):
    return {k: v for k, v in spec.items() if k in ('kind', 'via', 'kw', 'family', 'fargs', 'container', 'regime', '_ok',
                                                   'perturbed', 'alias', 'invalid', 'ints', 'types', 'scale2', 'order', 'literal')}


def _cond(model_vects, model_recip):
    """condition estimate max|V| * max|V^-1| * 9 from the model's exact values."""
    return 9.0 * max(abs(float(x)) for x in model_vects) * max(abs(float(x)) for x in model_recip)


def _scenarios(ctx, rng, n):
    """build and run n scenarios on the implementation; returns list of _Scenario."""
    out = []
    for sid in range(n):
        r = rng.random()
        regime = 'grid' if r < 0.55 else 'float'
        sc = _Scenario(ctx, rng, regime, sid)
        kinds = None
        if r < 0.12:     # orthogonal grid cells: inside/outside decided exactly on faces
            kinds = ['lengths', 'hilos']
        spec = gen_spec(rng, regime, allow_left=rng.random() < 0.15, kinds=kinds)
        if kinds:
            for t in ('xy', 'xz', 'yz'):
                spec['kw'].pop(t, None)
        sc.setter(spec)
        sc.all_reads()
        for _ in range(rng.randint(1, 3)):
            m = rng.random()
            if m < 0.25:
                v = gen_spec(rng, regime, allow_left=False, kinds=['vects'])['kw']['vects']
                mspec = {'kind': 'attr_vects', 'via': 'attr', 'kw': {'vects': v}, 'regime': regime,
                         'container': rng.choice(['list', 'array'])}
            elif m < 0.4:
                o = [(_dy(rng, -8, 8) if regime == 'grid' else rng.uniform(-8, 8)) for _ in range(3)]
                mspec = {'kind': 'attr_origin', 'via': rng.choice(['attr', 'set']), 'kw': {'origin': o}, 'regime': regime}
            elif m < 0.45:
                mspec = {'kind': 'reset', 'via': 'set', 'kw': {}, 'regime': regime}
            elif m < 0.7:
                sc.perturb(gen_perturb(rng))
                sc.all_reads(light=True)
                continue
            else:
                mspec = gen_spec(rng, regime, kinds=kinds)
                if kinds:
                    for t in ('xy', 'xz', 'yz'):
                        mspec['kw'].pop(t, None)
                if mspec['via'] in ('ctor', 'family'):
                    mspec['via'] = rng.choice(['set', 'method'])
            sc.setter(mspec)
            sc.all_reads(light=True)
        out.append(sc)
    return out


def _perturb_scenarios(ctx, rng, n):
    """warm caches, then a chain of small changes (one ulp .. 1e-4 relative, or none) through every setter, all
    observations re-read after each; cells in several units (powers of two from 2^-30 to 2^30)."""
    out = []
    for sid in range(n):
        sc = _Scenario(ctx, rng, 'float', 30_000 + sid)
        spec = gen_spec(rng, 'float')
        if rng.random() < 0.6:
            k = gen_scale_exp(rng, SCALE_VOLUME)
            spec = scale_spec(spec, 2.0 ** k)
            sc.no_inside = abs(k) > SCALE_FOURTH
        sc.setter(spec)
        sc.all_reads()
        eps0 = 10 ** rng.uniform(-15, -4)
        for k in range(rng.randint(2, 4)):
            # mostly one size per chain (accumulating strain), sometimes a fresh one
            req = gen_perturb(rng, eps=(rng.choice([-1, 1]) * eps0 if rng.random() < 0.6 else None))
            if sc.perturb(req) is None:
                break
            if rng.random() < 0.3:          # only the conversions / inside: no explicit read of reciprocal_vects first
                sc.read_conv('c2r')
                sc.read_inside(rng.choice(['inside', 'outside']))
                sc.read_recip()
            else:
                sc.all_reads(light=True)
        out.append(sc)
    return out


def _special_scenarios(ctx, rng):
    """threshold, error and degenerate cases."""
    out = []
    # --- clean-up threshold: entries around 1e-9 * max (max a power of two: the division is exact) ---------------
    t = 1e-9
    for k, M in enumerate([1.0, 4.0, 0.5, 1024.0]):
        sc = _Scenario(ctx, rng, 'grid', 10_000 + k)
        tiny = [t * M, math.nextafter(t * M, 1e9), math.nextafter(t * M, 0.0), -t * M, t * M / 4, 6.1e-17 * M, 3e-9 * M,
                -math.nextafter(t * M, 1e9)]
        rng.shuffle(tiny)
        V = [[M, tiny[0], tiny[1]], [tiny[2], M / 2, tiny[3]], [tiny[4], tiny[5], M / 4]]
        sc.setter({'kind': 'vects', 'via': rng.choice(['ctor', 'set', 'method']), 'kw': {'vects': V, 'origin': [tiny[6], 1.0, 0.0]},
                   'regime': 'grid'})
        sc.read_get()
        sc.read_lammps()
        V2 = [[M, 0.0, tiny[7]], [0.25 * M, M, 0.0], [tiny[2], tiny[0], M]]
        sc.setter({'kind': 'vectors', 'via': 'method', 'kw': {'avect': V2[0], 'bvect': V2[1], 'cvect': V2[2]}, 'regime': 'grid'})
        sc.read_get()
        sc.read_lammps()
        sc.setter({'kind': 'lengths', 'via': 'method', 'kw': {'lx': M, 'ly': M, 'lz': M, 'xy': tiny[1], 'xz': tiny[3], 'yz': tiny[6]},
                   'regime': 'grid'})
        sc.read_get()
        sc.read_lammps()
        out.append(sc)
    # --- error cases ----------------------------------------------------------------------------------------
    sc = _Scenario(ctx, rng, 'grid', 20_000)
    sc.setter(gen_spec(rng, 'grid', kinds=['lengths']))
    bads = [
        {'kind': 'lengths', 'via': 'method', 'kw': {'lx': 0.0, 'ly': 1.0, 'lz': 1.0}},
        {'kind': 'lengths', 'via': 'set', 'kw': {'lx': 1.0, 'ly': -2.0, 'lz': 1.0, 'xy': 0.5}},
        {'kind': 'lengths', 'via': 'method', 'kw': {'lx': 1.0, 'ly': 2.0, 'lz': 0.0, 'origin': [1.0, 1.0, 1.0]}},
        {'kind': 'hilos', 'via': 'method', 'kw': {'xlo': 1.0, 'xhi': 1.0, 'ylo': 0.0, 'yhi': 1.0, 'zlo': 0.0, 'zhi': 1.0}},
        {'kind': 'hilos', 'via': 'set', 'kw': {'xlo': 0.0, 'xhi': 1.0, 'ylo': 2.0, 'yhi': 1.0, 'zlo': 0.0, 'zhi': 1.0, 'yz': 0.25}},
        {'kind': 'abc', 'via': 'method', 'kw': {'a': 1.0, 'b': 2.0, 'c': 3.0, 'alpha': 0.0, 'beta': 90.0, 'gamma': 90.0}},
        {'kind': 'abc', 'via': 'set', 'kw': {'a': 1.0, 'b': 2.0, 'c': 3.0, 'alpha': 90.0, 'beta': 180.0, 'gamma': 90.0}},
        {'kind': 'abc', 'via': 'method', 'kw': {'a': 1.0, 'b': 2.0, 'c': 3.0, 'alpha': 90.0, 'beta': 90.0, 'gamma': 190.0}},
        {'kind': 'abc', 'via': 'method', 'kw': {'a': 1.0, 'b': 2.0, 'c': 3.0, 'alpha': -10.0, 'beta': 90.0, 'gamma': 90.0}},
        {'kind': 'abc', 'via': 'method', 'kw': {'a': 1.0, 'b': 2.0, 'c': 3.0, 'alpha': 180.0, 'beta': 90.0, 'gamma': 90.0}},
        {'kind': 'abc', 'via': 'method', 'kw': {'a': 1.0, 'b': 2.0, 'c': 3.0, 'alpha': 90.0, 'beta': 0.0, 'gamma': 90.0}},
        {'kind': 'abc', 'via': 'method', 'kw': {'a': 1.0, 'b': 2.0, 'c': 3.0, 'alpha': 90.0, 'beta': 90.0, 'gamma': 0.0}},
        {'kind': 'abc', 'via': 'method', 'kw': {'a': 1.0, 'b': 2.0, 'c': 3.0, 'alpha': 90.0, 'beta': 90.0, 'gamma': 180.0}},
        {'kind': 'abc', 'via': 'set', 'kw': {'a': 1.0, 'b': 2.0, 'c': 3.0, 'alpha': 90.0, 'beta': 200.0, 'gamma': 90.0}},
        {'kind': 'abc', 'via': 'method', 'kw': {'a': 1.0, 'b': 2.0, 'c': 3.0, 'alpha': 60.0, 'beta': 60.0, 'gamma': 150.0}},
        {'kind': 'abc', 'via': 'set', 'kw': {'a': 1.0, 'b': 2.0, 'c': 3.0, 'alpha': 20.0, 'beta': 140.0, 'gamma': 100.0}},
        {'kind': 'abc', 'via': 'method', 'kw': {'a': -1.0, 'b': 2.0, 'c': 3.0}},
    ]
    for b in bads:
        b['regime'] = 'grid'
        sc.setter(b)
        sc.read_get()          # state must be unchanged by a rejected setter
    sc.read_bad_dim('r2c')
    sc.read_bad_dim('c2r')
    sc.read_bad_dim('r2c')
    sc.read_bad_dim('c2r')
    out.append(sc)
    # --- an existing Box re-defined through every keyword family / method, with and without the optional origin ----
    for k, regime in enumerate(['grid', 'float']):
        sc = _Scenario(ctx, rng, regime, 20_100 + k)
        sc.setter(gen_spec(rng, regime, origin=True, nonzero_origin=True, kinds=['vects', 'lengths']))
        sc.all_reads()
        order = list(REDEFINITIONS)
        rng.shuffle(order)
        for (kind, via, with_origin) in order:
            if not with_origin and any(x == 0 for x in sc.box.origin):
                o = [(_dy(rng, 1, 8) if regime == 'grid' else rng.uniform(1, 8)) * rng.choice([-1, 1]) for _ in range(3)]
                sc.setter({'kind': 'attr_origin', 'via': 'attr', 'kw': {'origin': o}, 'regime': regime})
            sc.setter(gen_redefinition(rng, regime, kind, via, with_origin))
            sc.read_get()
            if rng.random() < 0.5:
                sc.read_conv('c2r')
            else:
                sc.read_inside(rng.choice(['inside', 'outside']))
        out.append(sc)
    # --- non LAMMPS-normal, singular -------------------------------------------------------------------------
    sc = _Scenario(ctx, rng, 'grid', 20_001)
    sc.setter({'kind': 'vects', 'via': 'ctor', 'kw': {'vects': [[0.0, 2.0, 0.0], [0.0, 0.0, 2.0], [2.0, 0.0, 0.0]],
                                                      'origin': [1.0, 2.0, 3.0]}, 'regime': 'grid'})
    sc.all_reads()
    sc.setter({'kind': 'vects', 'via': 'set', 'kw': {'vects': [[-2.0, 0.0, 0.0], [0.0, 2.0, 0.0], [0.0, 0.0, 2.0]]}, 'regime': 'grid'})
    sc.all_reads()
    sc.setter({'kind': 'attr_vects', 'via': 'attr', 'kw': {'vects': [[1.0, 2.0, 3.0], [2.0, 4.0, 6.0], [0.0, 1.0, 0.0]]}, 'regime': 'grid'})
    sc.read_get()
    sc.read_lammps()
    sc.read_recip()
    sc.read_conv('r2c')
    sc.add('c2r 1 2 3', 'c2r', _try_c2r(sc.box, [1.0, 2.0, 3.0]), variant='list', point=[1.0, 2.0, 3.0])
    for z in range(3):      # zero on the diagonal of an otherwise triangular cell: not LAMMPS-normal
        V = [[2.0, 0.0, 0.0], [0.5, 3.0, 0.0], [0.25, 1.0, 4.0]]
        V[z][z] = 0.0
        sc.setter({'kind': 'vects', 'via': 'set', 'kw': {'vects': V}, 'regime': 'grid'})
        sc.read_get()
        sc.read_lammps()
        V[z][z] = -1.5
        sc.setter({'kind': 'attr_vects', 'via': 'attr', 'kw': {'vects': V}, 'regime': 'grid'})
        sc.read_get()
        sc.read_lammps()
    sc.setter({'kind': 'reset', 'via': 'set', 'kw': {}, 'regime': 'grid'})
    sc.all_reads()
    sc.setter({'kind': 'attr_origin', 'via': 'ctor', 'kw': {'origin': [0.5, -1.0, 2.0]}, 'regime': 'grid'})
    sc.all_reads()
    out.append(sc)
    return out


def _try_c2r(box, p):
    try:
        return box.position_cartesian_to_relative(p).tolist()
    except Exception as e:  # noqa
        return _cls(e)


# ----------------------------------------------------------------------------------------
# keyword dispatch of Box.set(**kwargs) / Box(**kwargs): which keyword-name sets are which parameter set
# ----------------------------------------------------------------------------------------
KW_FAMILIES = {
    'vects': (['vects'], ['origin']),
    'vectors': (['avect', 'bvect', 'cvect'], ['origin']),
    'lengths': (['lx', 'ly', 'lz'], ['xy', 'xz', 'yz', 'origin']),
    'hilos': (['xlo', 'xhi', 'ylo', 'yhi', 'zlo', 'zhi'], ['xy', 'xz', 'yz']),
    'abc': (['a', 'b', 'c'], ['alpha', 'beta', 'gamma', 'origin']),
    'origin': (['origin'], []),
}


def _kw_values():
    """a valid value for every keyword; each family describes a *different* cell, so the resulting state tells
    which branch of `set` was taken."""
    vals = {
        'vects': [[2.0, 0.0, 0.0], [0.5, 3.0, 0.0], [0.25, -0.75, 4.0]],
        'avect': [2.5, 0.0, 0.0], 'bvect': [-0.5, 3.5, 0.0], 'cvect': [0.75, 0.25, 4.5],
        'lx': 3.0, 'ly': 4.0, 'lz': 5.0, 'xy': -0.5, 'xz': 0.25, 'yz': 1.5,
        'xlo': -1.0, 'xhi': 2.5, 'ylo': 0.5, 'yhi': 5.0, 'zlo': -2.0, 'zhi': 3.5,
        'a': 3.25, 'b': 4.5, 'c': 5.75, 'alpha': 80.0, 'beta': 95.0, 'gamma': 105.0,
        'origin': [0.5, -1.25, 2.0], 'foo': 1.0,
    }
    return vals


def _kw_expected_state(fam, kw, prior):
    """state (vects, origin) the documented meaning of parameter set `fam` gives, built through the set_* method /
    the attribute setters directly (no keyword dispatch involved)."""
    import atomman as am
    b = am.Box()
    b.vects, b.origin = prior
    if fam == 'unit':
        b.vects = [[1.0, 0.0, 0.0], [0.0, 1.0, 0.0], [0.0, 0.0, 1.0]]
        b.origin = [0.0, 0.0, 0.0]
    elif fam == 'vects':
        b.vects = kw['vects']
        b.origin = kw.get('origin', [0.0, 0.0, 0.0])
    elif fam == 'origin':
        b.origin = kw['origin']
    else:
        names = KW_FAMILIES[fam][0] + KW_FAMILIES[fam][1]
        getattr(b, {'vectors': 'set_vectors', 'lengths': 'set_lengths', 'hilos': 'set_hi_los', 'abc': 'set_abc'}[fam])(
            **{k: v for k, v in kw.items() if k in names})
    return b.vects, b.origin


def _kw_cases(rng, n):
    fams = list(KW_FAMILIES)
    allnames = sorted({x for r, o in KW_FAMILIES.values() for x in r + o} | {'foo'})
    out = [[]]
    for f in fams:                              # every documented set: all subsets of the optional keywords
        req, opt = KW_FAMILIES[f]
        for mask in range(1 << len(opt)):
            out.append(req + [o for i, o in enumerate(opt) if mask >> i & 1])
    for _ in range(n):
        r = rng.random()
        f = rng.choice(fams)
        req, opt = KW_FAMILIES[f]
        base = req + [o for o in opt if rng.random() < 0.5]
        if r < 0.25 and len(req) > 0:           # a mandatory keyword missing
            base = [k for k in base if k != rng.choice(req)]
        elif r < 0.5:                           # a keyword of another parameter set (or an unknown one) mixed in
            base = base + [rng.choice([k for k in allnames if k not in base])]
        elif r < 0.7:                           # two parameter sets at once
            g = rng.choice(fams)
            base = base + [k for k in KW_FAMILIES[g][0] + [o for o in KW_FAMILIES[g][1] if rng.random() < 0.3] if k not in base]
        else:                                   # any subset of all names
            base = rng.sample(allnames, rng.randint(1, 5))
        rng.shuffle(base)
        out.append(base)
    return out


def _kw_correspond(ctx, rng):
    import atomman as am
    np = _np()
    vals = _kw_values()
    cases = _kw_cases(rng, ctx.n(150, 3000))
    lines, impls, infos = [], [], []
    for names in cases:
        kw = {k: vals[k] for k in names}
        how = rng.choice(['ctor', 'set'])
        prior = ([[1.0, 0.0, 0.0], [0.0, 1.0, 0.0], [0.0, 0.0, 1.0]], [0.0, 0.0, 0.0]) if how == 'ctor' else \
            ([[6.0, 0.0, 0.0], [1.0, 7.0, 0.0], [-1.5, 0.5, 8.0]], [3.0, -4.0, 5.5])
        try:
            if how == 'ctor':
                box = am.Box(**kw)
            else:
                box = am.Box()
                box.vects, box.origin = prior
                box.set(**kw)
            impl = 'ok:?'
            for fam in ['unit'] + list(KW_FAMILIES):
                req = KW_FAMILIES[fam][0] if fam != 'unit' else []
                if fam == 'unit' and names or any(k not in names for k in req):
                    continue
                try:
                    V, o = _kw_expected_state(fam, kw, prior)
                except Exception:  # noqa
                    continue
                if np.array_equal(V, box.vects) and np.array_equal(o, box.origin):
                    impl = 'ok:' + fam
                    break
        except Exception as e:  # noqa
            impl = _cls(e)
        line = 'kw ' + ' '.join(names) if names else 'kw'
        ctx.stats.case('kw', (tuple(sorted(names)), how), nontrivial=bool(names), sample={'keywords': names, 'via': how})
        lines.append(line)
        impls.append(impl)
        infos.append((names, how))
    outs = ctx.driver.ask_many(lines)
    for line, impl, out, (names, how) in zip(lines, impls, outs, infos):
        if impl != out:
            ctx.disagree('kw:' + (out.split(':')[0]), f'Box{"(**kw)" if how == "ctor" else ".set(**kw)"} with keywords {names}: implementation '
                         f'{impl}, model {out}', {'op': 'kw', 'keywords': names, 'via': how, 'impl': impl, 'model': out})


# ----------------------------------------------------------------------------------------
# extension round: shapes of point arrays (convShape / insideShape), whole arrays row by row (r2cAll / c2rAll / insideAll),
# the clamped cosine of vect_angle (clampCos . angleCos) — driver ops `shape`, `r2cs`, `c2rs`, `insides`, `angle`
# ----------------------------------------------------------------------------------------
EXT_SHAPES = [(), (3,), (1, 3), (4, 3), (2, 5, 3), (2, 1, 2, 3), (0, 3), (2, 0, 3), (3, 3), (1,), (2,), (4,), (0,), (3, 1), (3, 2),
              (3, 4), (2, 3, 1), (5, 3, 0), (1, 1), (6,), (2, 2, 2), (3, 3, 3), (1, 3, 3), (3, 0)]


def _cls_ext(e):
    return 'err:index' if isinstance(e, IndexError) else _cls(e)


def _ext_cell(rng):
    """a LAMMPS cell on the dyadic grid (orthogonal or sheared) or a turned / permuted one, non-zero origin."""
    lx, ly, lz = (_pos_dy(rng) for _ in range(3))
    orth = rng.random() < 0.35
    xy, xz, yz = (0.0, 0.0, 0.0) if orth else (_dy(rng, -4, 4), _dy(rng, -4, 4), _dy(rng, -4, 4))
    V = [[lx, 0.0, 0.0], [xy, ly, 0.0], [xz, yz, lz]]
    how = rng.choice(['lammps', 'lammps', 'turned', 'permuted'])
    if how == 'turned':
        V = [[r[0], -r[1], -r[2]] for r in V]
    elif how == 'permuted':
        V = [[r[1], r[2], r[0]] for r in V]
    o = [_dy(rng, -8, 8) for _ in range(3)]
    return V, o, orth and how == 'lammps'


def _ext_correspond(ctx, rng, n):
    import warnings
    np = _np()
    import atomman as am
    jobs = []        # (lines, checker)
    for it in range(n):
        V, o, orth = _ext_cell(rng)
        box = am.Box(vects=V, origin=o)
        setline = 'vects ' + ' '.join(cm.fr(x) for r in V for x in r) + ' ' + ' '.join(cm.fr(x) for x in o)
        desc = f'Box(vects={V}, origin={o})'
        lines, checks = [setline], [('set', None, None)]
        # --- shapes ---------------------------------------------------------------------
        for sh in rng.sample(EXT_SHAPES, 8):
            form = rng.choice(['array', 'array', 'list', 'int-array'])
            arr = np.zeros(sh) if form != 'int-array' else np.zeros(sh, dtype=int)
            arg = arr.tolist() if form == 'list' else arr
            if form == 'list' and 0 in sh:
                arg = arr             # an empty nested list loses its trailing dimensions
            for which, calls in (('conv', (box.position_relative_to_cartesian, box.position_cartesian_to_relative)),
                                 ('inside', (box.inside, box.outside))):
                for f in calls:
                    try:
                        r = f(arg)
                        impl = 'ok' + ''.join(f' {d}' for d in np.shape(r))
                    except Exception as e:  # noqa
                        impl = _cls_ext(e)
                    lines.append(f'shape {which}' + ''.join(f' {d}' for d in sh))
                    checks.append(('shape', impl, f'{f.__name__}({form} of shape {sh})'))
        # --- whole arrays ---------------------------------------------------------------
        k = rng.choice([1, 2, 4, 6, 12])
        rel = [[Fraction(rng.randint(-6, 10), 4) + Fraction(1, 8) for _ in range(3)] for _ in range(k)]     # margin >= 1/8 to every face
        if orth:
            for row in rel[: k // 2]:
                row[rng.randrange(3)] = Fraction(rng.choice([0, 1]))            # exactly on a face of an orthogonal grid cell
        Vf = [[Fraction(x) for x in r] for r in V]
        of = [Fraction(x) for x in o]
        cart = [[sum(s_[i] * Vf[i][j] for i in range(3)) + of[j] for j in range(3)] for s_ in rel]
        shp = rng.choice([(k, 3)] + ([(2, k // 2, 3), (k // 2, 2, 3)] if k % 2 == 0 else []) + ([(1, k, 1, 3)] if k > 1 else []))
        R = np.array([[float(x) for x in row] for row in rel]).reshape(shp)
        C = np.array([[float(x) for x in row] for row in cart]).reshape(shp)
        if rng.random() < 0.3:
            R, C = R.tolist(), C.tolist()
        flat = lambda rows: ' '.join(cm.fr(float(x)) for row in rows for x in row)
        for op, f, arg, rows in (('r2cs', box.position_relative_to_cartesian, R, rel), ('c2rs', box.position_cartesian_to_relative, C, cart)):
            try:
                impl = np.asarray(f(arg))
            except Exception as e:  # noqa
                impl = _cls_ext(e)
            lines.append(f'{op} ' + flat(rows))
            checks.append((op, impl, f'{f.__name__}(points of shape {shp})', shp))
        for incl in (True, False):
            try:
                impl = np.asarray(box.inside(C, inclusive=incl))
            except Exception as e:  # noqa
                impl = _cls_ext(e)
            lines.append(f'insides {int(incl)} ' + flat(cart))
            checks.append(('insides', impl, f'inside(points of shape {shp}, inclusive={incl})', shp))
        # --- the clamped cosine of the angle getters --------------------------------------
        with warnings.catch_warnings():
            warnings.simplefilter('ignore')
            angs = {'alpha': (1, 2, box.alpha), 'beta': (0, 2, box.beta), 'gamma': (0, 1, box.gamma)}
        Va = np.array(V)
        for nm, (i, j, ang) in angs.items():
            n1, n2 = float(np.linalg.norm(Va[i])), float(np.linalg.norm(Va[j]))
            lines.append(f'angle {i} {j} {cm.fr(n1)} {cm.fr(n2)}')
            checks.append(('angle', float(ang), nm))
        jobs.append((lines, checks, desc))
    # --- the crystal-family constructors: own refusals and the keywords handed to Box(**kwargs) ---------------------------
    CT = {'cubic': 'a', 'hexagonal': 'ac', 'tetragonal': 'ac', 'trigonal': 'aA', 'orthorhombic': 'abc', 'monoclinic': 'abcB',
          'triclinic': 'abcABG'}
    for it in range(n):
        name = rng.choice(sorted(CT))
        lens = [_pos_dy(rng) for _ in range(3)]
        if rng.random() < 0.45:
            lens[rng.choice([1, 2])] = lens[0]                    # equal lattice constants: the guards of the constructors
        if rng.random() < 0.15:
            lens[1] = lens[2]                                     # b == c: in no guard
        angs = [rng.choice([60.0, 75.5, 90.0, 90.0, 100.25, 119.5, 120.0, 120.5, 89.5, 45.0]) for _ in range(3)]
        if rng.random() < 0.3:
            angs[rng.choice([1, 2])] = angs[0]
        take = {'a': lens[0], 'b': lens[1], 'c': lens[2], 'A': angs[0], 'B': angs[1], 'G': angs[2]}
        args = [take[ch] for ch in CT[name]]
        if rng.random() < 0.3:
            args = [int(x) if float(x).is_integer() else x for x in args]
        try:
            with warnings.catch_warnings():
                warnings.simplefilter('ignore')
                bx = getattr(am.Box, name)(*args)
            impl = bx
        except Exception as e:  # noqa
            impl = _cls_ext(e)
        jobs.append(([f'ctor {name} ' + ' '.join(cm.fr(float(x)) for x in args)], [('ctor', impl, f'Box.{name}({", ".join(map(repr, args))})')],
                     f'Box.{name}'))
    outs = ctx.driver.ask_many([ln for lines, _, _ in jobs for ln in lines])
    pos = 0
    for lines, checks, desc in jobs:
        for line, chk in zip(lines, checks):
            out = outs[pos]
            pos += 1
            kind, impl = chk[0], chk[1]
            rp = {'op': 'ext', 'cell': desc, 'line': line[:400], 'impl': repr(impl)[:300], 'model': out[:300]}
            if kind == 'set':
                if out != 'ok':
                    ctx.disagree('ext:set', f'{desc}: model {out}', rp)
                continue
            ctx.stats.case('ext:' + kind, (desc, line), nontrivial=True, sample={'line': line[:200], 'cell': desc})
            if kind == 'ctor':
                if out.startswith('err:') or isinstance(impl, str):
                    # the model has the constructor's own refusals; an unrealisable / out-of-range angle triple is refused later
                    # (set_abc / set_lengths), which the model reports through the abc definition
                    if out.startswith('err:') and impl != out:
                        ctx.disagree('ctor:not-refused', f'{chk[2]}: implementation {"accepted" if not isinstance(impl, str) else impl}, '
                                     f'model {out} (the constructor refuses these arguments itself)', rp)
                    elif not out.startswith('err:'):
                        vals = [float(x) for x in cm.unfrs(out[3:])]
                        try:
                            with warnings.catch_warnings():
                                warnings.simplefilter('ignore')
                                am.Box(a=vals[0], b=vals[1], c=vals[2], alpha=vals[3], beta=vals[4], gamma=vals[5])
                            ctx.disagree('ctor:refused', f'{chk[2]}: implementation {impl}, but the model accepts and Box(a=…) of its '
                                         f'keywords {vals[:6]} is accepted too', rp)
                        except Exception as e2:  # noqa
                            if _cls_ext(e2) != impl:
                                ctx.disagree('ctor:error', f'{chk[2]}: {impl}, Box(a=…) of the keywords the model passes: {_cls_ext(e2)}', rp)
                    continue
                vals = [float(x) for x in cm.unfrs(out[3:])]
                with warnings.catch_warnings():
                    warnings.simplefilter('ignore')
                    ref = am.Box(a=vals[0], b=vals[1], c=vals[2], alpha=vals[3], beta=vals[4], gamma=vals[5], origin=vals[6:9])
                if impl.vects.tobytes() != ref.vects.tobytes() or impl.origin.tobytes() != ref.origin.tobytes():
                    ctx.disagree('ctor:cell', f'{chk[2]} has vects {impl.vects.tolist()} origin {impl.origin.tolist()}; the model passes '
                                 f'a, b, c, alpha, beta, gamma = {vals[:6]}, origin {vals[6:9]} to Box(**kwargs): vects {ref.vects.tolist()}', rp)
                continue
            if kind == 'shape':
                if impl != out:
                    ctx.disagree(f'shape:{line.split()[1]}', f'{desc}.{chk[2]}: implementation {impl!r}, model {out!r}', rp)
                continue
            if isinstance(impl, str) or out.startswith('err:'):
                if impl is not out and str(impl) != out:
                    ctx.disagree(f'{kind}:error', f'{desc}.{chk[2]}: implementation {impl!r:.200}, model {out}', rp)
                continue
            if kind in ('r2cs', 'c2rs'):
                m = cm.unfrs(out)
                if tuple(impl.shape) != tuple(chk[3]) or impl.size != len(m):
                    ctx.disagree(f'{kind}:shape', f'{desc}.{chk[2]}: result of shape {impl.shape}, model has {len(m) // 3} rows', rp)
                    continue
                tol = 0.0 if kind == 'r2cs' else 1e-9
                for idx, (x, y) in enumerate(zip(impl.reshape(-1), m)):
                    if abs(Fraction(float(x)) - y) > tol * max(1, abs(y)):
                        ctx.disagree(f'{kind}:row', f'{desc}.{chk[2]}: flat entry {idx} (row {idx // 3}) = {float(x)!r}, model {float(y)!r}', rp)
                        break
            elif kind == 'insides':
                m = [t == '1' for t in out.split()]
                if tuple(impl.shape) != tuple(chk[3][:-1]) or impl.size != len(m) or impl.dtype != bool:
                    ctx.disagree('insides:shape', f'{desc}.{chk[2]}: result of shape {impl.shape} dtype {impl.dtype}, model has {len(m)} flags', rp)
                    continue
                for idx, (x, y) in enumerate(zip(impl.reshape(-1), m)):
                    if bool(x) != y:
                        ctx.disagree('insides:row', f'{desc}.{chk[2]}: point {idx} reported {bool(x)}, model {y}', rp)
                        break
            elif kind == 'angle':
                cmod = float(Fraction(out))
                if not (-1.0 <= cmod <= 1.0):
                    ctx.disagree('angle:clamp', f'{desc}: model cosine {cmod} outside [-1, 1] for {chk[2]}', rp)
                elif not abs(math.cos(math.radians(impl)) - cmod) <= 64 * U:
                    ctx.disagree(f'angle:{chk[2]}', f'{desc}.{chk[2]} = {impl!r} deg (cosine {math.cos(math.radians(impl))!r}), '
                                 f'model clamped cosine {cmod!r}', rp)


def _search_wrappers(ctx, rng, n):
    """System.scale / System.unscale are the two conversions of the system's box (bitwise), for every container."""
    import warnings
    np = _np()
    import atomman as am
    for it in range(n):
        V, o, _ = _ext_cell(rng)
        box = am.Box(vects=V, origin=o)
        system = am.System(box=box, atoms=am.Atoms(pos=[[0.0, 0.0, 0.0]]), scale=False)
        k = rng.choice([1, 3, 4])
        P = np.array([[_dy(rng, -8, 8) for _ in range(3)] for _ in range(k)])
        arg = rng.choice([P, P.tolist(), P[0], P.reshape(1, k, 3), tuple(P[0])])
        for nm, fs, fb in (('scale', system.scale, box.position_cartesian_to_relative),
                           ('unscale', system.unscale, box.position_relative_to_cartesian)):
            ctx.stats.case('wrapper:' + nm, (it, nm, repr(arg)[:80]), nontrivial=True)
            try:
                with warnings.catch_warnings():
                    warnings.simplefilter('ignore')
                    a = np.asarray(fs(arg))
                b = np.asarray(fb(arg))
                ok = a.shape == b.shape and a.tobytes() == b.tobytes()
                what = f'{a.tolist()} vs {b.tolist()}'
            except Exception as e:  # noqa
                ok, what = False, f'raised {type(e).__name__}: {e}'
            if not ok:
                ctx.violate(f'wrapper:{nm}', f'System.{nm}({arg!r:.120}) of a system with Box(vects={V}, origin={o}) is not the '
                            f"box's conversion of the same points: {what}",
                            {'op': 'wrapper', 'vects': V, 'origin': o, 'arg': np.asarray(arg).tolist(), 'which': nm})


def correspond(ctx):
    rng = ctx.rng
    _kw_correspond(ctx, random.Random(ctx.seed * 104729 + 5))
    t = ctx.driver.ask('thr')
    if Fraction(t) != THR:
        ctx.disagree('thr', f'driver threshold {t} is not the double 1e-9', {'op': 'thr'})
    _check_threshold_literal(ctx)
    _ext_correspond(ctx, random.Random(ctx.seed * 104729 + 6), ctx.n(60, 1200))
    scs = _special_scenarios(ctx, rng) + _scenarios(ctx, rng, ctx.n(250, 5000)) \
        + _perturb_scenarios(ctx, rng, ctx.n(120, 2500))
    lines = [it[0] for sc in scs for it in sc.items]
    outs = ctx.driver.ask_many(lines)
    k = 0
    for sc in scs:
        state = {}
        for (line, kind, impl, info) in sc.items:
            try:
                _compare(ctx, sc, line, kind, impl, info, outs[k], state)
            except Exception as e:  # noqa  (an observation the comparison cannot digest is a disagreement, not a crash)
                ctx.disagree(f'{kind}:uncomparable', f'{line[:80]}: implementation {impl!r:.200}, model {outs[k][:120]} '
                             f'({type(e).__name__}: {e})', _replay_of(sc, info, line, impl, outs[k]))
            k += 1
    ctx.extra['scenarios'] = len(scs)


def _check_threshold_literal(ctx):
    """the model hard-codes the setter threshold; tie it to the source text as well."""
    import re
    src = cm.source('atomman/core/Box.py')
    m = re.search(r'np\.isclose\(self\.__vects\s*/\s*abs\(self\.__vects\)\.max\(\),\s*0\.0,\s*atol=([0-9.eE+-]+)\)', src)
    if m is None:
        ctx.notes.append('vects setter clean-up statement not found in its known form (model still compared by behaviour)')
    elif float(m.group(1)) != 1e-9:
        ctx.disagree('thr:source', f'vects setter threshold is {m.group(1)}, model has 1e-9', {'op': 'thr'})


def _replay_of(sc, info, line, impl, model):
    return {'op': 'scenario', 'history': [_short(h) for h in info.get('history', [])], 'line': line,
            'variant': info.get('variant'), 'point': info.get('point'), 'impl': repr(impl), 'model': model}


def _compare(ctx, sc, line, kind, impl, info, out, state):
    """one observation of the implementation against the model's reply."""
    def bad(key, what):
        ctx.disagree(key, what, _replay_of(sc, info, line, impl, out))

    if kind == 'set':
        state.clear()
        state['set_ok'] = impl == 'ok' and out == 'ok'
        if impl == 'ok' and out != 'ok' and info['history']:
            info['history'][-1]['invalid'] = True      # accepted although outside the supported range (for the clause oracle)
        if impl != out:
            bad(f"set:{info['spec']['kind']}", f"{line.split()[0]} via {info['spec'].get('via')}: implementation "
                f"{impl}, model {out}  [{_short(info['spec'])}]")
        return
    if kind == 'abcres':
        if not state.get('set_ok'):
            return          # the definition was refused by one side: reported by the `set` line
        if out.startswith('err:'):
            bad('abcres', f'model refused abc residual: {out}')
            return
        r1, r2 = cm.unfrs(out)
        kw = info['spec']['kw']
        # ly, lz are correctly rounded square roots of the exact radicands: |residual| <= 2u * root^2
        if abs(float(r1)) > 8 * U * kw['b'] ** 2 or abs(float(r2)) > 8 * U * kw['c'] ** 2:
            bad('abcres', f'square-root parameters sent to the model violate the hypotheses of abc_gram: residuals '
                f'{float(r1)}, {float(r2)} (harness defect, not the code)')
        return
    if kind == 'baddim':
        if impl != out:
            bad(f'baddim:{line.split()[0]}', f'{line.split()[0]} with trailing dimension != 3 ({info["variant"]}): '
                f'implementation {impl}, model {out}')
        return
    if kind == 'lammps' and (out.startswith('err:') or any(isinstance(x, str) for x in impl)):
        for nm, x in zip(LAMMPS_NAMES, impl):
            if (x if isinstance(x, str) else 'ok') != (out if out.startswith('err:') else 'ok'):
                bad(f'lammps:{nm}:' + ('not-refused' if out.startswith('err:') else 'refused'),
                    f'{nm}: implementation {x!r}, model {out[:60]} (all twelve: {impl}) after {_hist(info)}')
                return
        return
    if isinstance(impl, str) or out.startswith('err:'):
        if impl != out:
            bad(f'{kind}:error', f'{line[:80]} [{info.get("variant", "")}]: implementation {impl!r}, model {out}')
        return
    if not _all_finite({k: v for k, v in impl.items() if k not in ('angles', 'volume')} if isinstance(impl, dict) else impl):
        bad(f'{kind}:non-finite', f'{line[:80]} [{info.get("variant", "")}]: implementation reports {impl!r}, model {out[:120]} after {_hist(info)}')
        return
    if kind == 'get':
        toks = out.split()
        m = [Fraction(x) for x in toks[:19]]
        norm = toks[19] == '1'
        mv, mo = m[0:9], m[9:12]
        a2, b2, c2, dbc, dac, dab, vol = m[12:19]
        state['vects'] = mv
        state['origin'] = mo
        state['recip'] = None
        vmax = max([abs(float(x)) for x in mv] + [1e-300])
        last = next((h for h in reversed(info['history']) if h['kind'] != 'attr_origin' and h.get('_ok')), None)
        tol = 0.0 if info['exact'] else SAFETY * U * _set_scale(last, vmax)
        for name, iv, mvv in (('vects', impl['vects'], mv), ('origin', impl['origin'], mo)):
            for i, (x, y) in enumerate(zip(iv, mvv)):
                if abs(Fraction(x) - y) > tol:
                    bad(f'get:{name}', f'{name}[{i}] = {x!r}, model {float(y)!r} (tolerance {tol:g}) after {_hist(info)}')
                    return
                if name == 'vects' and (x == 0) != (y == 0):
                    bad('get:clean', f'vects[{i}] = {x!r} but model {float(y)!r}: zero pattern of the setter clean-up differs '
                        f'after {_hist(info)}')
                    return
        if impl['norm'] != norm:
            bad('get:is_lammps_norm', f'is_lammps_norm {impl["norm"]}, model {norm} after {_hist(info)}')
        e = math.frexp(vmax)[1]             # the unit of the cell: squares are compared in units of 4^e (never out of range)
        q2 = Fraction(4) ** e
        for nm, x, y2 in zip('abc', impl['abc'], (a2, b2, c2)):
            y = math.ldexp(math.sqrt(float(y2 / q2)), e)
            if not abs(x - y) <= 8 * U * y + tol:
                bad(f'get:{nm}', f'{nm} = {x!r}, model {y!r} after {_hist(info)}')
        for nm, ang, d, p, q in (('alpha', impl['angles'][0], dbc, b2, c2), ('beta', impl['angles'][1], dac, a2, c2),
                                 ('gamma', impl['angles'][2], dab, a2, b2)):
            if p == 0 or q == 0:
                continue
            cosm = float(d / q2) / math.sqrt(float(p / q2) * float(q / q2))
            if not (abs(math.cos(math.radians(ang)) - cosm) <= 1e-12 + 4 * tol / vmax and 0.0 <= ang <= 180.0):
                bad(f'get:{nm}', f'{nm} = {ang!r} deg (cos {math.cos(math.radians(ang))!r}), model cosine {cosm!r} after {_hist(info)}')
        grid = info['exact'] and all(_dyadic(x, 3, 64) for x in mv)
        state['grid'] = grid and all(_dyadic(x, 3, 64) for x in mo)
        if 3 * abs(e) + 12 < 1000:          # the volume is a double
            vtol = 0.0 if grid else SAFETY * U * 6 * vmax ** 3 + 3 * tol * vmax ** 2
            if not math.isfinite(impl['volume']) or abs(Fraction(impl['volume']) - vol) > vtol:
                bad('get:volume', f'volume = {impl["volume"]!r}, model |det| = {float(vol)!r} after {_hist(info)}')
        return
    if kind == 'lammps':
        m = cm.unfrs(out)
        names = LAMMPS_NAMES
        vmax = max(abs(float(x)) for x in m) or 1.0
        last = next((h for h in reversed(info['history']) if h['kind'] != 'attr_origin' and h.get('_ok')), None)
        tol = 0.0 if (info['exact'] and state.get('grid')) else SAFETY * U * _set_scale(last, vmax)
        for nm, x, y in zip(names, impl, m):
            if abs(Fraction(x) - y) > tol:
                bad(f'lammps:{nm}', f'{nm} = {x!r}, model {float(y)!r} after {_hist(info)}')
                return
        return
    if kind == 'recip':
        m = cm.unfrs(out)
        state['recip'] = m
        rmax = max(abs(float(x)) for x in m)
        cond = _cond(state['vects'], m) if state.get('vects') else 1e3
        tol = SAFETY * U * cond * rmax
        for i, (x, y) in enumerate(zip(impl, m)):
            if abs(x - float(y)) > tol:
                bad('recip', f'reciprocal_vects[{i // 3},{i % 3}] = {x!r}, model {float(y)!r} (tolerance {tol:g}) after {_hist(info)}'
                    + (' — stale cache?' if len(info['history']) > 1 else ''))
                return
        return
    if kind == 'r2c':
        if isinstance(impl, tuple):
            bad('r2c:shape', f'position_relative_to_cartesian({info["variant"]}) returned shape {impl[1]}, expected {impl[2]}')
            return
        m = cm.unfrs(out)
        if info['exact'] and state.get('grid') and all(_dyadic(x, 3, 64) for x in info['point']):
            tol = 0.0
        else:
            vmax = max(abs(float(x)) for x in state.get('vects', [1])) if state.get('vects') else 1.0
            tol = SAFETY * U * (3 * max(abs(x) for x in info['point']) * vmax + max(abs(float(x)) for x in m))
        for i, (x, y) in enumerate(zip(impl, m)):
            if abs(Fraction(x) - y) > tol:
                bad('r2c', f'position_relative_to_cartesian({info["point"]}) [{info["variant"]}] = {impl}, model '
                    f'{[float(v) for v in m]} after {_hist(info)}')
                return
        return
    if kind == 'c2r':
        if isinstance(impl, tuple):
            bad('c2r:shape', f'position_cartesian_to_relative({info["variant"]}) returned shape {impl[1]}, expected {impl[2]}')
            return
        m = cm.unfrs(out)
        tol = _rel_tol(state, info['point'])
        for i, (x, y) in enumerate(zip(impl, m)):
            if abs(x - float(y)) > tol:
                bad('c2r', f'position_cartesian_to_relative({info["point"]}) [{info["variant"]}] = {impl}, model '
                    f'{[float(v) for v in m]} (tolerance {tol:g}) after {_hist(info)}')
                return
        return
    if kind in ('inside', 'outside'):
        toks = out.split()
        mi, me = toks[0] == '1', toks[1] == '1'
        margin = Fraction(toks[2])
        if any(not isinstance(x, bool) for x in impl):
            bad(f'{kind}:shape', f'{kind}({info["variant"]}) returned {impl}')
            return
        V = state.get('vects')
        # dyadic cell, origin and point, plane normal parallel to a Cartesian axis: that half-space test is exact in doubles
        # (all faces of an orthogonal cell; the c-faces of every sheared LAMMPS-oriented cell; ...)
        exact = [False] * 3
        if info['exact'] and V:
            Vm = [list(V[0:3]), list(V[3:6]), list(V[6:9])]
            exact = _exact_faces(Vm, list(state['origin']), [[Fraction(x) for x in info['point']]])
        if not all(exact):
            bound = _rel_tol(state, info['point'])
            margins = [margin] * 3
            if any(exact) and _det3(Vm) != 0:
                inv = _inv3(Vm)
                sr = [sum((Fraction(info['point'][i]) - state['origin'][i]) * inv[i][j] for i in range(3)) for j in range(3)]
                margins = [min(abs(x), abs(1 - x)) for x in sr]
            if any(not exact[i] and float(margins[i]) <= bound for i in range(3)):
                ctx.extra['face_exempt'] = ctx.extra.get('face_exempt', 0) + 1
                return
        if any(exact):
            ctx.extra['inside_exact'] = ctx.extra.get('inside_exact', 0) + 1
            if margin == 0:
                ctx.extra['inside_exact_on_face'] = ctx.extra.get('inside_exact_on_face', 0) + 1
        if impl != (mi, me):
            bad(kind, f'{kind}({info["point"]}) [{info["variant"]}] (inclusive=True, inclusive=False) = {impl}, model '
                f'{(mi, me)}; distance to nearest face in relative coordinates {float(margin)} after {_hist(info)}')
        return


def _all_finite(x):
    if isinstance(x, dict):
        return all(_all_finite(v) for v in x.values())
    if isinstance(x, (list, tuple)):
        return all(_all_finite(v) for v in x)
    if isinstance(x, float):
        return math.isfinite(x)
    return True


def _dyadic(x, bits=6, lim=1024):
    f = Fraction(x)
    return (f * (1 << bits)).denominator == 1 and abs(f) <= lim


def _hist(info):
    h = info.get('history', [])
    return ' -> '.join(f"{x['kind']}({x.get('via', '')})" for x in h[-3:])


def _set_scale(spec, vmax):
    """magnitude that one rounding error of the last setter is relative to."""
    if spec is None:
        return vmax
    kw = spec['kw']
    if spec['kind'] == 'hilos':
        return max(abs(kw[k]) for k in ('xlo', 'xhi', 'ylo', 'yhi', 'zlo', 'zhi')) * 2 + vmax
    if spec['kind'] == 'abc':
        a, b, c = kw['a'], kw['b'], kw['c']
        p = abc_params(a, b, c, kw.get('alpha', 90.0), kw.get('beta', 90.0), kw.get('gamma', 90.0))
        ly = p[3] or 1.0
        return max(a, b, c) + 4 * b * c / ly
    return vmax


def _rel_tol(state, p):
    """bound on the rounding error of a relative coordinate: SAFETY * u * cond * 3 (|p|+|o|) max|recip|."""
    if not state.get('vects'):
        return 1e-6
    V = state['vects']
    R = state.get('recip')
    if R is None:
        Vm = [V[0:3], V[3:6], V[6:9]]
        if _det3(Vm) == 0:
            return 1e-6
        inv = _inv3(Vm)
        R = [inv[j][i] for i in range(3) for j in range(3)]
        state['recip'] = R
    rmax = max(abs(float(x)) for x in R)
    cond = _cond(V, R)
    pm = max(abs(x) for x in p) + max(abs(float(x)) for x in state['origin']) + max(abs(float(x)) for x in V)
    return SAFETY * U * cond * 3 * pm * rmax


# ----------------------------------------------------------------------------------------
# search: the property's clauses on the real code, exact rational oracle
# ----------------------------------------------------------------------------------------
def _impl_cond(box):
    np = _np()
    v = box.vects
    try:
        return float(np.abs(v).max() * np.abs(np.linalg.inv(v)).max() * 9)
    except Exception:  # noqa
        return float('inf')


def _state_repr(box):
    """vects / origin of a Box for a message; never raises."""
    try:
        return f'vects {_np().asarray(box.vects).tolist()}, origin {_np().asarray(box.origin).tolist()}'
    except Exception as e:  # noqa
        return f'(state unreadable: {type(e).__name__}: {e})'


def _raw_state(box):
    """(vects, origin) as float arrays, or None if the getters raise / return something that is not 3x3 and 3."""
    np = _np()
    try:
        V, o = np.array(box.vects, dtype=float), np.array(box.origin, dtype=float)
    except Exception:  # noqa
        return None
    if V.shape != (3, 3) or o.shape != (3,):
        return None
    return V, o


def _guarded(viol, box, what, f):
    """run one block of clauses; an exception escaping it is an observation of the implementation (it raised, or it
    returned something the exact oracle cannot digest — NaN, a wrong type, a wrong shape), reported with the input."""
    import traceback
    try:
        f()
        return True
    except Exception as e:  # noqa
        tb = traceback.extract_tb(e.__traceback__)
        impl = [fr for fr in tb if '/atomman/' in fr.filename.replace('\\', '/')]
        mine = [fr for fr in tb if fr.filename.endswith('c01.py')]
        where = f'{mine[-1].name}:{mine[-1].lineno} `{(mine[-1].line or "")[:90]}`' if mine else ''
        if impl:
            viol('oracle:implementation-raised', f'{what}: atomman raised {type(e).__name__}: {e} in {impl[-1].name} '
                 f'({impl[-1].filename.split("/atomman/")[-1]}:{impl[-1].lineno}) when the oracle evaluated {where}; {_state_repr(box)}')
        else:
            viol('oracle:unusable-observation', f'{what}: the implementation returned a value the clause oracle cannot evaluate '
                 f'({type(e).__name__}: {e}) at {where}; {_state_repr(box)}')
        return False


def oracle_cell(ctx, spec, pts, rels, muts=(), light=False, check_base=True):
    """all clauses of C01 for one cell definition and then for the same Box *object* after each of `muts`.
    pts: Cartesian points (floats), rels: relative points.  An element of muts is a concrete setter spec or a
    request {'perturb': …} for a small change, made concrete on the live object (the replay stores the concrete one);
    a spec may carry 'alias': the arrays handed to the setter / returned by the getters are scribbled on afterwards;
    'invalid': the definition is outside the supported parameter range (the call may raise: then the object must be
    unchanged; if it is accepted the resulting state must still be a cell).
    Every call into atomman is guarded: what the implementation raises is an observation, reported with the input."""
    import atomman as am
    np = _np()
    done = []

    def viol(key, what, **extra):
        ctx.violate(key, what, {'op': 'cell', 'spec': _short(spec), 'points': pts, 'rels': rels,
                                'mutations': [_short(m) for m in done], 'light': light, 'check_base': check_base, **extra})

    try:
        box, modified = apply_spec_alias(am.Box() if spec.get('via') not in ('ctor', 'family') else None, spec)
    except Exception as e:  # noqa
        viol(f"construct:{spec['kind']}", f"valid cell definition {_short(spec)} raised {type(e).__name__}: {e}")
        return
    if modified:
        viol('input:setter-modified-argument', f'{_short(spec)}: the array(s) passed as {modified} were modified by the call')
    if check_base:
        _guarded(viol, box, f'after {_short(spec)}', lambda: _oracle_box(ctx, box, spec, pts, rels, viol, light=light))
    for m in muts:
        try:
            # make sure every lazily computed quantity exists before the mutation
            box.reciprocal_vects
            box.position_cartesian_to_relative(np.array(pts[:1]))
            box.inside(np.array(pts[:1]))
            box.planes
            box.volume
        except Exception:  # noqa  (singular intermediate cell: outside the quantifier)
            pass
        if 'perturb' in m:
            try:
                m = resolve_perturb(box, m)
            except Exception as e:  # noqa
                viol('getter:raises', f'reading the parameters of the cell ({_state_repr(box)}) raised {type(e).__name__}: {e}')
                return
            # points placed relative to the *new* cell would hide nothing, but the old ones may now sit within the
            # rounding bound of a face; the margin test of the oracle handles that
        done.append(m)
        prev = _raw_state(box)
        before = None
        if m.get('invalid'):
            before = _snapshot(box, np.array(pts, dtype=float), np.array(rels, dtype=float))
        try:
            box, modified = apply_spec_alias(box, m)
        except Exception as e:  # noqa
            if m.get('invalid'):
                # refused: nothing may have been written
                ctx.stats.case('oracle:rejected', repr(_short(m)))
                d = _snap_diff(before, _snapshot(box, np.array(pts, dtype=float), np.array(rels, dtype=float)))
                if d is not None:
                    viol('state:rejected-setter-changed-object', f'{_short(m)} raised {type(e).__name__} but changed the Box: {d[0]} '
                         f'was {_fmt(d[1])}, is now {_fmt(d[2])}')
                    return
                continue
            viol(f"construct:{m['kind']}", f"valid cell redefinition {_short(m)} raised {type(e).__name__}: {e}")
            return
        if modified:
            viol('input:setter-modified-argument', f'{_short(m)}: the array(s) passed as {modified} were modified by the call')
        if m.get('invalid'):
            st = _raw_state(box)
            if st is None or not (np.isfinite(st[0]).all() and np.isfinite(st[1]).all()):
                viol('construct:non-finite', f'{_short(m)} is accepted and leaves the Box with {_state_repr(box)}')
                return
            continue
        if not _guarded(viol, box, f'after {_short(m)}',
                        lambda: _oracle_box(ctx, box, m, pts, rels, viol, after_mutation=True, light=light, prev=prev)):
            return


def apply_spec_alias(box, spec):
    """apply_spec -> (box, names of array arguments the call modified).  With spec['alias'] the setter receives numpy
    arrays; they must come back unmodified, and are then overwritten (the Box must have copied the values, as
    `self.__vects[:] = value` does)."""
    np = _np()
    if not spec.get('alias') or spec.get('types'):      # typed arguments are built inside apply_spec (nothing to hold on to)
        return apply_spec(box, spec), []
    sp = dict(spec, kw=dict(spec['kw']))
    sp.pop('container', None)
    held = []
    for key in ('vects', 'avect', 'bvect', 'cvect', 'origin'):
        if key in sp['kw']:
            arr = np.array(sp['kw'][key])          # dtype as given (int stays int)
            sp['kw'][key] = arr
            held.append((key, arr, arr.copy()))
    out = apply_spec(box, sp)
    modified = [key for key, arr, orig in held if not np.array_equal(arr, orig)]
    for key, arr, orig in held:
        arr[...] = (orig * -3 + 17).astype(arr.dtype)
    return out, modified


def _oracle_box(ctx, box, spec, pts, rels, viol, after_mutation=False, light=False, prev=None):
    import atomman as am
    np = _np()
    tag = ' (after a mutation of the same Box object)' if after_mutation else ''
    st = _raw_state(box)
    if st is None:
        viol('getter:raises', f'vects / origin of the Box cannot be read as a 3x3 and a 3-vector after {_short(spec)}: {_state_repr(box)}')
        return
    if not (np.isfinite(st[0]).all() and np.isfinite(st[1]).all()):
        viol('construct:non-finite', f'{_short(spec)} is accepted and leaves the Box with {_state_repr(box)}{tag}')
        return
    V, o = _fmat(box)
    det = _det3(V)
    # what a redefinition must leave alone / reset (needs the state before the call)
    if spec['kind'] == 'reset':
        if st[0].tolist() != [[1.0, 0.0, 0.0], [0.0, 1.0, 0.0], [0.0, 0.0, 1.0]] or st[1].tolist() != [0.0, 0.0, 0.0]:
            viol('construct:reset', f'set() without arguments ("square unit box with origin = [0,0,0]") leaves {_state_repr(box)}{tag}')
            return
    if prev is not None and spec['kind'] == 'attr_origin' and spec.get('via') != 'ctor' and not np.array_equal(prev[0], st[0]):
        viol('construct:attr_origin:vects', f'setting only the origin ({spec.get("via")}, {list(spec["kw"]["origin"])}) changed the vectors from '
             f'{prev[0].tolist()} to {st[0].tolist()}')
        return
    if prev is not None and spec['kind'] == 'attr_vects' and not np.array_equal(prev[1], st[1]):
        viol('construct:attr_vects:origin', f'assigning box.vects changed the origin from {prev[1].tolist()} to {st[1].tolist()}')
        return
    if det == 0:
        return      # property quantifies over non-degenerate cells
    left = det < 0  # left-handed: outside the quantifier for the rebuild and inside clauses (a rebuilt cell is right-handed,
    #                 the six half-spaces of a left-handed cell have no common point); every other clause is a statement
    #                 about "the vectors" and is evaluated as well
    cond = _impl_cond(box)
    vmax = max(abs(float(x)) for r in V for x in r)
    # the unit the cell is written in: every clause below is evaluated on the exactly rescaled cell Vn = V / 2^e (entries of
    # order one) — lengths scale with the unit, angles and relative coordinates do not depend on it (scale_* theorems of
    # Proofs/C01_Scale.lean) — so the oracle itself never leaves the double range however large or small the cell is
    e = math.frexp(vmax)[1]
    Vn = [[x / Fraction(2) ** e for x in r] for r in V]
    ctx.stats.case('oracle:cell' + (':left-handed' if left else ''), (repr(_short(spec)), after_mutation), sample={'spec': _short(spec)})

    # -- the defining values come back (construction clause) ------------------------------------------
    kw = spec['kw']
    if spec['kind'] in ('vects', 'vectors', 'abc', 'lengths') and spec.get('via') != 'family':
        wo = kw.get('origin', [0.0, 0.0, 0.0])      # documented default: (0,0,0)
        if any(o[i] != Fraction(float(wo[i])) for i in range(3)):
            viol(f"construct:{spec['kind']}:origin", f'{_short(spec)} ' + ('applied to an existing Box ' if after_mutation else '')
                 + f'gives origin {box.origin.tolist()}, expected {list(wo)}' + (' (the default)' if 'origin' not in kw else ''))
            return
    if spec['kind'] == 'attr_origin':
        if any(o[i] != Fraction(float(kw['origin'][i])) for i in range(3)):
            viol('construct:attr_origin', f'origin set to {list(kw["origin"])} ({spec.get("via")}) reads back as '
                 f'{box.origin.tolist()}{tag}')
            return

    def stored(got, x, big):
        """a stored number is the given double itself, or 0 if the setter's clean-up applies (|x| <= ~1e-9 max|v|)."""
        return got == x or (got == 0 and abs(x) <= Fraction(1e-9) * big * (1 + Fraction(1, 10 ** 6)))

    if spec['kind'] in ('vects', 'vectors', 'attr_vects'):
        Vin = kw['vects'] if 'vects' in kw else [kw['avect'], kw['bvect'], kw['cvect']]
        big = max(abs(Fraction(float(x))) for r in Vin for x in r)
        for i in range(3):
            for j in range(3):
                if not stored(V[i][j], Fraction(float(Vin[i][j])), big):
                    viol('construct:vects', f'Box given the vectors {[list(map(float, r)) for r in Vin]} ({spec["kind"]} via '
                         f'{spec.get("via")}' + (f', keywords {"written" if spec.get("literal") else "in a dictionary"} in the order {spec["order"]}'
                                                  if spec.get('order') and spec.get('via') != 'positional' else '')
                         + f') reports vects[{i}][{j}] = {float(V[i][j])!r}, not {float(Vin[i][j])!r}{tag}')
                    return
    if spec['kind'] in ('lengths', 'hilos'):
        if spec['kind'] == 'lengths':
            want = [[_F(kw['lx']), 0, 0], [_F(kw.get('xy', 0.0)), _F(kw['ly']), 0],
                    [_F(kw.get('xz', 0.0)), _F(kw.get('yz', 0.0)), _F(kw['lz'])]]
            wo = kw.get('origin', [0.0, 0.0, 0.0])
            slack = 0
        else:
            want = [[_F(kw['xhi']) - _F(kw['xlo']), 0, 0], [_F(kw.get('xy', 0.0)), _F(kw['yhi']) - _F(kw['ylo']), 0],
                    [_F(kw.get('xz', 0.0)), _F(kw.get('yz', 0.0)), _F(kw['zhi']) - _F(kw['zlo'])]]
            wo = [kw['xlo'], kw['ylo'], kw['zlo']]
            slack = Fraction(U)          # one subtraction hi - lo, faithfully rounded
        big = max(abs(x) for r in want for x in r)
        for i in range(3):
            if o[i] != _F(wo[i]):
                viol(f"construct:{spec['kind']}:origin", f'{_short(spec)} gives origin {box.origin.tolist()}, expected {wo}{tag}')
                return
            for j in range(3):
                w = want[i][j]
                if not (stored(V[i][j], w, big) or (i == j and abs(V[i][j] - w) <= slack * abs(w))):
                    viol(f"construct:{spec['kind']}", f'{_short(spec)} gives vects {box.vects.tolist()}, expected '
                         f'{[[float(x) for x in r] for r in want]}{tag}')
                    return
    if spec['kind'] == 'abc':
        al, be, ga = kw.get('alpha', 90.0), kw.get('beta', 90.0), kw.get('gamma', 90.0)
        G = [[_dot(Vn[i], Vn[j]) for j in range(3)] for i in range(3)]
        a, b, c = (math.ldexp(float(kw[k]), -e) for k in 'abc')          # in the unit 2^e
        wantG = [[a * a, a * b * math.cos(math.radians(ga)), a * c * math.cos(math.radians(be))],
                 [None, b * b, b * c * math.cos(math.radians(al))], [None, None, c * c]]
        tolG = 1e-9 * cond * max(a, b, c) ** 2
        for i in range(3):
            for j in range(i, 3):
                if abs(float(G[i][j]) - wantG[i][j]) > tolG:
                    viol('construct:abc', f'set_abc(a={kw["a"]}, b={kw["b"]}, c={kw["c"]}, alpha={al}, beta={be}, gamma={ga}): Gram matrix entry '
                         f'({i},{j}) of the resulting vectors is {float(G[i][j])!r}' + (f' * 2^{2 * e}' if abs(e) > 60 else '')
                         + f', lengths/angles ask for {wantG[i][j]!r}; vects = {box.vects.tolist()}{tag}')
                    return
        if not box.is_lammps_norm():
            viol('construct:abc:norm', f'set_abc result is not LAMMPS-normal: {box.vects.tolist()}')

    # -- reported lengths, angles, volume are those of the vectors --------------------------------------
    L = [math.sqrt(float(_dot(Vn[i], Vn[i]))) for i in range(3)]      # lengths of the rescaled cell
    for nm, got, want in zip('abc', (box.a, box.b, box.c), L):
        if not abs(math.ldexp(float(got), -e) - want) <= 1e-12 * want:
            viol(f'getter:{nm}', f'{nm} = {got!r} but |vects[{"abc".index(nm)}]| = {math.ldexp(want, e)!r} for vects {box.vects.tolist()}{tag}')
    V_, V = V, Vn             # angles do not depend on the unit: evaluated on the rescaled cell
    for nm, (i, j) in (('alpha', (1, 2)), ('beta', (0, 2)), ('gamma', (0, 1))):
        got = float(getattr(box, nm))
        want = float(_dot(V[i], V[j])) / (L[i] * L[j])
        if not abs(math.cos(math.radians(got)) - want) <= 1e-12 or not (0 <= got <= 180):
            viol(f'getter:{nm}', f'{nm} = {got!r} deg, but the cosine between vects[{i}] and vects[{j}] is {want!r} '
                 f'(cos({nm}) = {math.cos(math.radians(got))!r}) for vects {box.vects.tolist()}{tag}')
            continue
        # the angle itself (the cosine is blind near 0 and 180 degrees): atan2(|u x v|, u.v) from the exact products;
        # arccos of a cosine that carries ~6 roundings is off by at most ~6u / sin(angle)
        cr = [V[i][1] * V[j][2] - V[i][2] * V[j][1], V[i][2] * V[j][0] - V[i][0] * V[j][2], V[i][0] * V[j][1] - V[i][1] * V[j][0]]
        sn = math.sqrt(float(_dot(cr, cr)))
        ang = math.degrees(math.atan2(sn, float(_dot(V[i], V[j]))))
        tol = math.degrees(32 * U / max(sn / (L[i] * L[j]), 1e-7)) + 64 * U * 180
        if not abs(got - ang) <= tol:
            viol(f'getter:{nm}:angle', f'{nm} = {got!r} deg, but the angle between vects[{i}] and vects[{j}] is {ang!r} deg '
                 f'(difference {got - ang:.3g}, rounding bound {tol:.3g}) for vects {box.vects.tolist()}{tag}')
    V = V_
    if 3 * abs(e) + 12 < 1000:       # the volume itself is a double (third power of the unit)
        vol = float(box.volume)
        if not math.isfinite(vol) or abs(Fraction(vol) - abs(det)) > Fraction(1e-12) * abs(det) + Fraction(U * 64) * Fraction(vmax) ** 3:
            viol('getter:volume', f'volume = {vol!r} but |det vects| = {float(abs(det))!r} for vects {box.vects.tolist()}{tag}')
    else:
        ctx.stats.case('oracle:volume-not-a-double', (e, repr(_short(spec))))
    normal = V[0][1] == 0 and V[0][2] == 0 and V[1][2] == 0 and V[0][0] > 0 and V[1][1] > 0 and V[2][2] > 0
    if bool(box.is_lammps_norm()) != normal:
        viol('getter:is_lammps_norm', f'is_lammps_norm() = {box.is_lammps_norm()} for vects {box.vects.tolist()}')
    if not normal:
        # not in LAMMPS-compatible orientation: the cell is "the same up to a rigid rotation" only, and the LAMMPS
        # lengths / tilts / bounds must be refused, each one of them, rather than handed out for a cell they do not describe
        for nm in LAMMPS_NAMES:
            try:
                got = getattr(box, nm)
            except Exception:  # noqa
                ctx.stats.case('oracle:lammps-refused', (nm, repr(box.vects.tolist())))
                continue
            viol(f'getter:{nm}:not-refused', f'{nm} = {float(got)!r} is handed out for a cell that is not in LAMMPS-compatible orientation '
                 f'(needs vects[0][1] = vects[0][2] = vects[1][2] = 0 and vects[0][0], vects[1][1], vects[2][2] > 0): vects '
                 f'{box.vects.tolist()}, is_lammps_norm() = {bool(box.is_lammps_norm())}{tag}')
            break
    if normal:
        want = {'lx': V[0][0], 'ly': V[1][1], 'lz': V[2][2], 'xy': V[1][0], 'xz': V[2][0], 'yz': V[2][1],
                'xlo': o[0], 'ylo': o[1], 'zlo': o[2], 'xhi': o[0] + V[0][0], 'yhi': o[1] + V[1][1], 'zhi': o[2] + V[2][2]}
        for nm, w in want.items():
            try:
                got = float(getattr(box, nm))
            except Exception as e:  # noqa
                viol(f'getter:{nm}', f'{nm} raised {type(e).__name__} on a LAMMPS-normal box {box.vects.tolist()}{tag}')
                continue
            if abs(Fraction(got) - w) > Fraction(4 * U) * (abs(w) + max(abs(x) for x in o) + Fraction(vmax)):
                viol(f'getter:{nm}', f'{nm} = {got!r}, the vectors/origin give {float(w)!r} (vects {box.vects.tolist()}, origin '
                     f'{box.origin.tolist()}){tag}')

    if light == 'construct':      # only the construction and getter clauses were asked for (numeric-type matrix)
        return

    # -- rebuild through every other parameter set -----------------------------------------------------
    if not light:
        _oracle_rebuild(ctx, box, V, o, det, normal, cond, vmax, viol, tag, left)

    # -- the object is determined by its vectors and origin, not by its history --------------------------
    _oracle_twin(ctx, box, spec, pts, rels, viol, tag, after_mutation)

    # -- reciprocal vectors dual to the cell vectors (also catches a stale cache) -----------------------
    try:
        Rf = np.array(box.reciprocal_vects, dtype=float)
    except Exception as e:  # noqa
        viol('recip:raises', f'reciprocal_vects raised {type(e).__name__}: {e} for vects {box.vects.tolist()}{tag}')
        return
    if Rf.shape != (3, 3) or not np.isfinite(Rf).all():
        viol('recip:non-finite', f'reciprocal_vects = {Rf.tolist()} for the non-degenerate cell {box.vects.tolist()} (the entries of its inverse '
             f'are of order 2^{-e}){tag}')
        return
    R = [[_F(x) for x in row] for row in Rf]
    rmax = max(abs(float(x)) for r in R for x in r)
    dual_tol = SAFETY * U * cond * 3
    for i in range(3):
        for j in range(3):
            d = float(_dot(R[i], V[j]))
            if abs(d - (1.0 if i == j else 0.0)) > dual_tol * max(1.0, rmax * vmax):
                viol('recip:dual' + (':after-mutation' if after_mutation else ''),
                     f'reciprocal_vects[{i}] · vects[{j}] = {d!r} (expected {int(i == j)}) for vects {box.vects.tolist()}, '
                     f'reciprocal_vects {box.reciprocal_vects.tolist()}{tag}')
                return

    # -- conversions: mutual inverses, exact value, container independence ------------------------------
    Vinv = _inv3(V)
    # Plane.normal = n / sqrt(n.n) with n a cross product of two cell vectors: fourth power of the unit under the root
    no_inside = 4 * abs(e) + 24 > 1000
    if no_inside:
        ctx.stats.case('oracle:inside-not-representable', (e, repr(_short(spec))))
    for name in (VARIANTS_ALL if not light else ['array2', VARIANTS[len(pts) % len(VARIANTS)]]):
        _oracle_points(ctx, box, V, o, Vinv, cond, vmax, rmax, pts, rels, name, viol, tag, spec, left or no_inside)
    # integer-valued points handed over as python ints / integer arrays (no float dtype anywhere in the argument)
    ipts = [[float(round(x)) for x in p] for p in pts]
    irels = [[float(round(x)) for x in p] for p in rels]
    pick = int(math.fmod(abs(pts[0][0]) * 8 + abs(pts[0][1]) * 64, 1000.0)) if pts else 0       # a function of the input only (replayable)
    # the same for single precision: the float32 neighbours of the points, handed over as a float32 array
    f32 = lambda x: float(np.float32(x))                                  # noqa: E731
    if (not light or pick % 3 == 0) and all(abs(x) < 1e30 and (x == 0 or abs(x) > 1e-30) for p in pts + rels for x in p):
        fpts, frels = [[f32(x) for x in p] for p in pts], [[f32(x) for x in p] for p in rels]
        _oracle_points(ctx, box, V, o, Vinv, cond, vmax, rmax, fpts, frels, 'f32-array', viol, tag, spec, left or no_inside)
    if (not light and pick % 6 == 0) or pick % 60 == 0:
        _oracle_bulk(ctx, box, V, o, Vinv, cond, vmax, rmax, pts, rels, pick, viol, tag, left or no_inside)
    if any(abs(x) >= 2.0 ** 52 for p in ipts + irels for x in p):
        return          # no integer type holds such coordinates
    for name in ([INT_VARIANTS[pick % 5], INT_VARIANTS[(pick // 5 % 4 + 1 + pick) % 5]] if not light else [INT_VARIANTS[pick % 5]]):
        _oracle_points(ctx, box, V, o, Vinv, cond, vmax, rmax, ipts, irels, name, viol, tag, spec, left or no_inside)


BULK_SIZES = [1031, 4099, 10007, 20011, 65537, 100003, 131101]


def _oracle_bulk(ctx, box, V, o, Vinv, cond, vmax, rmax, pts, rels, pick, viol, tag, no_inside):
    """arrays of MANY points: the given points repeated cyclically to thousands .. 131101 rows (2-d and 3-d leading shape).
    Every row of the result must be what the same point gives in a small array — the conversions and inside/outside are
    row-wise maps, whatever an implementation does about memory for large inputs (chunks, a different code path beyond some
    size) — up to the rounding bound of the clause (numpy sums in another order for large arrays); for inside/outside a row
    may differ only if the point is within that bound of a face.  The small-array values are judged by the exact clauses."""
    np = _np()
    N = BULK_SIZES[pick % len(BULK_SIZES)]
    P, S = np.array(pts, dtype=float), np.array(rels, dtype=float)
    idx = (np.arange(N) * 7 + pick) % len(pts)
    omax = max([abs(float(x)) for x in o] + [0.0])
    exact = _exact_faces(V, o, pts)
    decided = []            # per point: is inside/outside decided beyond rounding?
    ctol = []
    for p in pts:
        sr = [sum((_F(p[i]) - o[i]) * Vinv[i][j] for i in range(3)) for j in range(3)]
        margins = [min(abs(x), abs(1 - x)) for x in sr]
        bound = SAFETY * U * cond * 3 * (max(abs(x) for x in p) + omax + vmax) * rmax
        decided.append(not any(not exact[i] and margins[i] <= bound for i in range(3)))
        ctol.append(bound)
    rtol_ = [8 * U * (3 * max(abs(x) for x in r) * vmax + omax) for r in rels]
    jobs = [('position_cartesian_to_relative', box.position_cartesian_to_relative, P, np.array(ctol)),
            ('position_relative_to_cartesian', box.position_relative_to_cartesian, S, np.array(rtol_))]
    if not no_inside:
        jobs += [('inside', box.inside, P, None), ('inside(inclusive=False)', lambda a: box.inside(a, inclusive=False), P, None),
                 ('outside', box.outside, P, None), ('outside(inclusive=True)', lambda a: box.outside(a, inclusive=True), P, None)]
    for what, f, A, tol in jobs:
        for shape3 in (False, True):
            big = A[idx]
            if shape3:
                if N % 7:
                    big = big[:N - N % 7]
                big = big.reshape(7, -1, 3)
            keep = big.copy()
            try:
                small = np.asarray(f(A))
                out = np.asarray(f(big))
            except Exception as e:  # noqa
                viol(f'bulk:{what.split("(")[0]}:raises', f'{what} of an array of shape {big.shape} raised {type(e).__name__}: {e} '
                     f'({_state_repr(box)}){tag}', bulk=N)
                break
            ctx.stats.case('oracle:bulk:' + what.split('(')[0], (N, shape3, repr(pts[:1])))
            if not np.array_equal(big, keep):
                viol(f'input:modified:{what.split("(")[0]}', f'{what} modified the {big.shape} array it was given ({_state_repr(box)}){tag}', bulk=N)
            rows = idx[:big.reshape(-1, 3).shape[0]]
            want = small[rows]
            if out.shape[:big.ndim - 1] != big.shape[:-1] or out.size != want.size:
                viol(f'bulk:{what.split("(")[0]}:shape', f'{what} of an array of shape {big.shape} has shape {out.shape} ({_state_repr(box)}){tag}', bulk=N)
                break
            got = out.reshape(want.shape)
            if tol is not None:
                wrong = ~(np.abs(got - want) <= 2 * tol[rows][:, None])
                wrong = wrong.any(axis=1)
            else:
                wrong = (got != want) & np.array(decided)[rows]
            if wrong.any():
                bad = int(np.argmax(wrong))
                viol(f'bulk:{what.split("(")[0]}', f'{what} of {big.shape[:-1]} points (the points {pts if A is P else rels} repeated) differs '
                     f'from the same points in a small array: row {bad} is the point {big.reshape(-1, 3)[bad].tolist()}, result '
                     f'{got[bad].tolist()!r} in the large array, {want[bad].tolist()!r} in the small one ({_state_repr(box)}){tag}', bulk=N)
                break


def _snapshot(box, P, S):
    """every observation of C01 on one object, as arrays (bitwise comparable)."""
    np = _np()
    out = {}

    def put(name, f):
        try:
            out[name] = np.array(f(), copy=True)
        except Exception as e:  # noqa
            out[name] = f'raised {type(e).__name__}'

    for nm in ('vects', 'origin', 'avect', 'bvect', 'cvect', 'reciprocal_vects', 'a', 'b', 'c', 'alpha', 'beta', 'gamma',
               'volume'):
        put(nm, lambda nm=nm: getattr(box, nm))
    try:
        normal = bool(box.is_lammps_norm())
    except Exception:  # noqa
        normal = False
    out['is_lammps_norm()'] = np.array(normal)
    if normal:
        for nm in ('lx', 'ly', 'lz', 'xy', 'xz', 'yz', 'xlo', 'xhi', 'ylo', 'yhi', 'zlo', 'zhi'):
            put(nm, lambda nm=nm: getattr(box, nm))
    put('position_cartesian_to_relative(P)', lambda: box.position_cartesian_to_relative(P))
    put('position_relative_to_cartesian(S)', lambda: box.position_relative_to_cartesian(S))
    put('inside(P)', lambda: box.inside(P))
    put('inside(P, inclusive=False)', lambda: box.inside(P, inclusive=False))
    put('outside(P)', lambda: box.outside(P))
    put('outside(P, inclusive=True)', lambda: box.outside(P, inclusive=True))
    put('planes (normal, point)', lambda: [[pl.normal, pl.point] for pl in box.planes])
    return out


def _snap_diff(s1, s2):
    np = _np()
    for k in s1:
        x, y = s1[k], s2.get(k)
        if isinstance(x, str) or isinstance(y, str) or y is None:
            if not (isinstance(x, str) and isinstance(y, str) and x == y):
                return k, x, y
        elif x.shape != y.shape or not np.array_equal(x, y, equal_nan=(x.dtype.kind == 'f')):
            return k, x, y
    return None


def _fmt(x):
    return x if isinstance(x, str) else repr(x.tolist())


def _oracle_twin(ctx, box, spec, pts, rels, viol, tag, after_mutation):
    """One cell = one parallelepiped: a Box that went through a history of setters and reads must be
    indistinguishable (bit for bit: the same float operations on the same numbers) from a Box built directly from
    its current vects and origin, and from a fresh Box given the same final definition.  No tolerance involved, so a
    stale or half-updated derived quantity shows however small the last change was.  Then the arrays the getters
    returned are overwritten in place: the object must not change (vects and origin are documented as copies)."""
    import atomman as am
    np = _np()
    P, S = np.array(pts, dtype=float), np.array(rels, dtype=float)
    try:
        twin = am.Box(vects=box.vects, origin=box.origin)
    except Exception as e:  # noqa
        viol('twin:raises', f'Box(vects=box.vects, origin=box.origin) raised {type(e).__name__}: {e} for {box.vects.tolist()}')
        return
    ctx.stats.case('oracle:twin', (repr(_short(spec)), after_mutation, repr(pts[:1])))
    # the invariant of Proofs/C01_Object.lean (CBox.Coherent) read off the real object: whatever is cached is the
    # inverse-transpose of the current vectors
    cache = getattr(box, '_Box__reciprocal_vects', 'absent')
    if isinstance(cache, str):
        if 'cache attribute' not in ' '.join(ctx.notes):
            ctx.notes.append('Box has no cache attribute _Box__reciprocal_vects any more (hidden-state check skipped)')
    elif cache is not None:
        ctx.stats.case('oracle:cache-coherent', (repr(box.vects.tolist()), after_mutation))
        want = np.linalg.inv(box.vects).T
        if not np.array_equal(np.asarray(cache), want):
            viol('state:cache-incoherent', f'the cached reciprocal vectors of the Box are {np.asarray(cache).tolist()} but its '
                 f'vects are {box.vects.tolist()}, whose inverse-transpose is {want.tolist()}{tag}')
    P0, S0 = P.copy(), S.copy()
    here, there = _snapshot(box, P, S), _snapshot(twin, P, S)
    if not (np.array_equal(P, P0) and np.array_equal(S, S0)):
        viol('input:modified', f'reading the Box (conversions / inside / outside) modified the position arrays it was given: '
             f'{P0.tolist()} -> {P.tolist()}, {S0.tolist()} -> {S.tolist()} ({_state_repr(box)}){tag}')
        P, S = P0.copy(), S0.copy()
    # reading is not writing: the same observations a second time
    d = _snap_diff(here, _snapshot(box, P, S))
    if d is not None:
        k, x, y = d
        viol('state:read-changes-object', f'reading every getter / conversion once changed the Box: {k} was {_fmt(x)}, is {_fmt(y)} on the second '
             f'reading; now {_state_repr(box)}{tag}')
        return
    d = _snap_diff(here, there)
    if d is not None:
        k, x, y = d
        viol('state:history-dependent' + (':' + k.split('(')[0].split(' ')[0]),
             f'{k} = {_fmt(x)} on a Box with vects {box.vects.tolist()}, origin {box.origin.tolist()}{tag}, but a fresh '
             f'Box(vects=…, origin=…) with exactly these vects and origin gives {_fmt(y)}'
             + (f' [P = {pts}]' if '(P' in k else '') + (f' [S = {rels}]' if '(S' in k else ''))
    # a fresh object given the same (final) definition
    if spec['kind'] in ('vects', 'vectors', 'lengths', 'hilos', 'abc') and spec.get('via') != 'family':
        try:
            sp = dict(spec, via='set')
            sp.pop('alias', None)
            fresh = apply_spec(am.Box(), sp)
            if not (np.array_equal(fresh.vects, box.vects) and np.array_equal(fresh.origin, box.origin)):
                viol('state:setter-depends-on-history', f'{_short(sp)} applied{tag or " through " + str(spec.get("via"))} '
                     f'gives vects {box.vects.tolist()}, origin {box.origin.tolist()}; the same definition on a new Box() gives '
                     f'{fresh.vects.tolist()}, {fresh.origin.tolist()}')
        except Exception as e:  # noqa
            viol(f"construct:{spec['kind']}", f'{_short(spec)} on a new Box() raised {type(e).__name__}: {e}')
    # another Box alive at the same time is another cell: defining, re-defining and reading it leaves this one alone
    try:
        other = am.Box()
        other.set(vects=[[9.5, 0.0, 0.0], [1.25, 7.75, 0.0], [-2.5, 0.75, 6.25]], origin=[11.5, -13.25, 17.75])
        other.reciprocal_vects
        other.origin = [-3.5, 2.25, 0.125]
        other.vects = [[0.0, 3.0, 0.0], [0.0, 0.0, 5.0], [7.0, 0.0, 0.0]]
        other.position_cartesian_to_relative(P)
        other.inside(P)
        other.set(a=3.0, b=4.0, c=5.0, gamma=100.0)
        other.set()
    except Exception as e:  # noqa
        viol('construct:raises', f'defining a second Box raised {type(e).__name__}: {e}')
    d = _snap_diff(here, _snapshot(box, P, S))
    if d is not None:
        k, x, y = d
        viol('state:objects-share-state', f'creating, re-defining and reading a second, independent Box changed this one: {k} was {_fmt(x)}, '
             f'is now {_fmt(y)} (this Box was defined by {_short(spec)}{tag})')
        return
    # overwrite what the getters handed out
    def scribble(obj, only=None):
        names = []
        for nm, f in (('vects', lambda: obj.vects), ('origin', lambda: obj.origin), ('avect', lambda: obj.avect),
                      ('bvect', lambda: obj.bvect), ('cvect', lambda: obj.cvect),
                      ('reciprocal_vects', lambda: obj.reciprocal_vects),
                      ('position_cartesian_to_relative(P)', lambda: obj.position_cartesian_to_relative(P)),
                      ('position_relative_to_cartesian(S)', lambda: obj.position_relative_to_cartesian(S)),
                      ('planes[0].point', lambda: obj.planes[0].point), ('planes[3].normal', lambda: obj.planes[3].normal)):
            if only is not None and nm != only:
                continue
            try:
                arr = f()
                if isinstance(arr, np.ndarray) and arr.flags.writeable:
                    arr[...] = arr * 2.5 + 1.0
                    names.append(nm)
            except Exception:  # noqa
                continue
        return names

    names = scribble(box)
    d = _snap_diff(here, _snapshot(box, P, S))
    if d is not None:
        k, x, y = d
        culprit = names
        for nm in names:          # which one: each alone on a further fresh object
            t = am.Box(vects=twin.vects, origin=twin.origin)
            t0 = _snapshot(t, P, S)
            scribble(t, only=nm)
            if _snap_diff(t0, _snapshot(t, P, S)) is not None:
                culprit = [nm]
                break
        viol('state:aliased-output:' + culprit[0].split('(')[0],
             f'modifying in place the array returned by box.{" / ".join(culprit)} changes the Box: {k} was {_fmt(x)}, is now '
             f'{_fmt(y)} (vects {twin.vects.tolist()}, origin {twin.origin.tolist()}){tag}')


def _oracle_rebuild(ctx, box, V, o, det, normal, cond, vmax, viol, tag, left=False):
    import atomman as am
    np = _np()
    G = [[_dot(V[i], V[j]) for j in range(3)] for i in range(3)]
    targets = ['vects', 'vectors'] + ([] if left else ['abc']) + (['lengths', 'hilos'] if normal else [])
    for t in targets:
        try:
            if t == 'vects':
                b2 = am.Box(vects=box.vects, origin=box.origin)
            elif t == 'vectors':
                b2 = am.Box(avect=box.avect, bvect=box.bvect, cvect=box.cvect, origin=box.origin)
            elif t == 'lengths':
                b2 = am.Box(lx=box.lx, ly=box.ly, lz=box.lz, xy=box.xy, xz=box.xz, yz=box.yz, origin=box.origin)
            elif t == 'hilos':
                b2 = am.Box(xlo=box.xlo, xhi=box.xhi, ylo=box.ylo, yhi=box.yhi, zlo=box.zlo, zhi=box.zhi,
                            xy=box.xy, xz=box.xz, yz=box.yz)
            else:
                if 1e-9 * cond * cond > 0.02:      # the rounding bound of this clause (u cond^2 with a generous constant, below) says nothing any more
                    continue
                b2 = am.Box(a=box.a, b=box.b, c=box.c, alpha=box.alpha, beta=box.beta, gamma=box.gamma, origin=box.origin)
        except Exception as e:  # noqa
            viol(f'rebuild:{t}:raises', f'rebuilding the cell {box.vects.tolist()} (origin {box.origin.tolist()}) through '
                 f'{t} raised {type(e).__name__}: {e}{tag}')
            continue
        ctx.stats.case('oracle:rebuild:' + t, (repr(box.vects.tolist()), t))
        V2, o2 = _fmat(b2)
        omax = max([abs(float(x)) for x in o] + [0.0])
        otol = 8 * U * (omax + vmax)
        if any(abs(float(x - y)) > otol for x, y in zip(o, o2)):
            viol(f'rebuild:{t}:origin', f'cell rebuilt through {t} has origin {b2.origin.tolist()}, original '
                 f'{box.origin.tolist()} (vects {box.vects.tolist()}){tag}')
            continue
        rt = 1e-9 * cond * cond if t == 'abc' else 8 * U * (1 + omax / vmax)
        if normal or t in ('vects', 'vectors'):
            # same vectors
            if any(abs(float(V[i][j] - V2[i][j])) > rt * vmax for i in range(3) for j in range(3)):
                viol(f'rebuild:{t}', f'LAMMPS-normal cell {box.vects.tolist()} read back as {t} parameters and rebuilt gives '
                     f'{b2.vects.tolist()}{tag}' if normal else
                     f'cell {box.vects.tolist()} rebuilt through {t} gives {b2.vects.tolist()}{tag}')
        else:
            # same cell up to a proper rotation: equal Gram matrix, positive determinant
            G2 = [[_dot(V2[i], V2[j]) for j in range(3)] for i in range(3)]
            if any(abs(float(G[i][j] - G2[i][j])) > rt * vmax * vmax for i in range(3) for j in range(3)) \
                    or _det3(V2) <= 0:
                viol(f'rebuild:{t}:rotation', f'cell {box.vects.tolist()} rebuilt through its lengths and angles gives '
                     f'{b2.vects.tolist()}: Gram matrices {[[float(x) for x in r] for r in G]} vs '
                     f'{[[float(x) for x in r] for r in G2]} differ / handedness lost{tag}')
            elif not b2.is_lammps_norm():
                viol(f'rebuild:{t}:norm', f'cell rebuilt through lengths and angles is not LAMMPS-normal: {b2.vects.tolist()}')


def _unchanged(arg, keep):
    """was an ndarray argument left as it was?"""
    np = _np()
    return not isinstance(arg, np.ndarray) or (arg.shape == keep.shape and arg.dtype == keep.dtype and np.array_equal(arg, keep))


def _oracle_points(ctx, box, V, o, Vinv, cond, vmax, rmax, pts, rels, vname, viol, tag, spec, left=False):
    np = _np()
    omax = max([abs(float(x)) for x in o] + [0.0])

    def call(what, f, arg):
        """f(arg) as an array; the caller's array must not be modified by the call.  None if it raised (reported)."""
        keep = arg.copy() if isinstance(arg, np.ndarray) else None
        try:
            out = np.asarray(f(arg))
        except Exception as e:  # noqa
            short = {'position_relative_to_cartesian': 'r2c', 'position_cartesian_to_relative': 'c2r', 'outside': 'inside'}.get(what, what)
            viol(f'{short}:{_container(vname)}-input', f'{what} raised {type(e).__name__}: {e} for {vname} input {_show(arg)} '
                 f'({_state_repr(box)}){tag}', variant=vname)
            return None
        if not _unchanged(arg, keep):
            viol(f'input:modified:{what}', f'{what}({vname}) modified the array it was given: it was {_show(keep)}, is now {_show(arg)} '
                 f'({_state_repr(box)}){tag}', variant=vname)
            arg[...] = keep
        return out

    def plain(n_used, src):
        return np.array(src[:n_used], dtype=float).reshape(-1, 3)

    r2c, c2r = box.position_relative_to_cartesian, box.position_cartesian_to_relative
    # relative -> Cartesian -> relative, and values
    _, arg, used = shape_variant(None, rels, vname)
    cart = call('position_relative_to_cartesian', r2c, arg)
    ref = call('position_relative_to_cartesian', r2c, plain(used, rels)) if cart is not None else None
    if cart is not None and ref is not None:
        ctx.stats.case('oracle:r2c:' + vname, (repr(rels), vname))
        if cart.shape != np.asarray(arg, dtype=float).shape:
            viol('r2c:shape', f'position_relative_to_cartesian: input shape {np.asarray(arg, dtype=float).shape}, output {cart.shape}',
                 variant=vname)
        elif cart.dtype.kind != 'f':
            viol('r2c:dtype', f'position_relative_to_cartesian({vname}) returns dtype {cart.dtype}', variant=vname)
        elif not np.array_equal(cart.reshape(-1, 3), ref.reshape(-1, 3)):
            viol('r2c:container', f'position_relative_to_cartesian gives different values for {vname} input and (n,3) array '
                 f'input: {cart.reshape(-1, 3).tolist()} vs {ref.tolist()}', variant=vname)
        else:
            for s, c in zip(rels[:used], cart.reshape(-1, 3).tolist()):
                want = [sum(_F(s[i]) * V[i][j] for i in range(3)) + o[j] for j in range(3)]
                sm = max(abs(x) for x in s)
                tol = 8 * U * (3 * sm * vmax + omax)
                if any(abs(float(_F(c[j]) - want[j])) > tol for j in range(3)):
                    viol('r2c:value', f'position_relative_to_cartesian({s}) = {c}, exact value {[float(w) for w in want]} for vects '
                         f'{box.vects.tolist()}, origin {box.origin.tolist()}{tag}', variant=vname)
                    break
            back = call('position_cartesian_to_relative', c2r, cart)
            if back is not None and back.shape == cart.shape:
                for s, bk in zip(rels[:used], back.reshape(-1, 3).tolist()):
                    sm = max(abs(x) for x in s)
                    tol = SAFETY * U * cond * 3 * (3 * sm * vmax + 2 * omax + vmax) * rmax
                    if any(not abs(bk[j] - s[j]) <= tol for j in range(3)):
                        viol('roundtrip:rel-cart-rel' + (':after-mutation' if tag else ''),
                             f'cartesian_to_relative(relative_to_cartesian({s})) = {bk} for vects '
                             f'{box.vects.tolist()}, origin {box.origin.tolist()}{tag}', variant=vname)
                        break
    # Cartesian -> relative -> Cartesian, values, inside/outside
    _, arg, used = shape_variant(None, pts, vname)
    rel = call('position_cartesian_to_relative', c2r, arg)
    ref = call('position_cartesian_to_relative', c2r, plain(used, pts)) if rel is not None else None
    if rel is not None and ref is not None:
        ctx.stats.case('oracle:c2r:' + vname, (repr(pts), vname))
        if rel.shape != np.asarray(arg, dtype=float).shape:
            viol('c2r:shape', f'position_cartesian_to_relative: input shape {np.asarray(arg, dtype=float).shape}, output {rel.shape}',
                 variant=vname)
        elif rel.dtype.kind != 'f':
            viol('c2r:dtype', f'position_cartesian_to_relative({vname}) returns dtype {rel.dtype}', variant=vname)
        elif not np.array_equal(rel.reshape(-1, 3), ref.reshape(-1, 3)):
            viol('c2r:container', f'position_cartesian_to_relative gives different values for {vname} input and (n,3) array '
                 f'input: {rel.reshape(-1, 3).tolist()} vs {ref.tolist()}', variant=vname)
        else:
            for p, s in zip(pts[:used], rel.reshape(-1, 3).tolist()):
                want = [sum((_F(p[i]) - o[i]) * Vinv[i][j] for i in range(3)) for j in range(3)]
                pm = max(abs(x) for x in p) + omax + vmax
                tol = SAFETY * U * cond * 3 * pm * rmax
                if any(not abs(s[j] - float(want[j])) <= tol for j in range(3)):
                    viol('c2r:value' + (':after-mutation' if tag else ''),
                         f'position_cartesian_to_relative({p}) = {s}, exact value {[float(w) for w in want]} for vects '
                         f'{box.vects.tolist()}, origin {box.origin.tolist()}{tag}', variant=vname)
                    break
            back = call('position_relative_to_cartesian', r2c, rel)
            if back is not None and back.shape == rel.shape:
                for p, bk in zip(pts[:used], back.reshape(-1, 3).tolist()):
                    pm = max(abs(x) for x in p) + omax + vmax
                    tol = SAFETY * U * cond * 9 * pm * rmax * vmax
                    if any(not abs(bk[j] - p[j]) <= tol for j in range(3)):
                        viol('roundtrip:cart-rel-cart', f'relative_to_cartesian(cartesian_to_relative({p})) = {bk} for vects '
                             f'{box.vects.tolist()}, origin {box.origin.tolist()}{tag}', variant=vname)
                        break
    # inside / outside against exact relative coordinates
    exact = _exact_faces(V, o, pts)
    want_shape = np.asarray(arg, dtype=float).shape[:-1]
    for incl in (True, False):
        ins = call('inside', lambda a: box.inside(a, inclusive=incl), arg)
        outs = call('outside', lambda a: box.outside(a, inclusive=not incl), arg)
        dflt = incl and vname in ('array2', 'list', 'single-list', 'single-array', 'int-array', 'int-single', 'empty')
        ins_default = call('inside', box.inside, arg) if dflt else ins
        outs_default = call('outside', box.outside, arg) if dflt else outs
        # the flag as second positional argument, and as 0 / 1 / numpy bool instead of a python bool
        flagged = vname in ('array2', 'tuple', 'single-tuple', 'array3', 'int-list', 'f32-array')
        ins_flag = call('inside', lambda a: box.inside(a, np.bool_(incl) if vname in ('array2', 'int-list') else int(incl)), arg) if flagged else ins
        outs_flag = call('outside', lambda a: box.outside(a, int(not incl) if vname in ('array2', 'array3') else np.bool_(not incl)), arg) if flagged else outs
        if ins is None or outs is None or ins_default is None or outs_default is None or ins_flag is None or outs_flag is None:
            break
        if flagged and not (np.array_equal(ins_flag, ins) and np.array_equal(outs_flag, outs)):
            viol('inside:positional-flag', f'inside(pos, flag) / outside(pos, flag) with the inclusivity as second positional argument given as '
                 f'0 / 1 / numpy.bool_ differ from inside(pos, inclusive={incl}) / outside(pos, inclusive={not incl}): '
                 f'{ins_flag.tolist()!r} vs {ins.tolist()!r}, {outs_flag.tolist()!r} vs {outs.tolist()!r} for {_show(arg)} ({_state_repr(box)}){tag}',
                 variant=vname)
        if ins.shape != want_shape or outs.shape != want_shape:
            viol('inside:shape', f'inside/outside: points of leading shape {want_shape} give result shapes {ins.shape}/{outs.shape}',
                 variant=vname)
            break
        if ins.dtype != bool or outs.dtype != bool:
            viol('inside:dtype', f'inside / outside of {vname} input {_show(arg)} return {ins.dtype} / {outs.dtype} values '
                 f'({ins.tolist()!r} / {outs.tolist()!r}), not booleans{tag}', variant=vname)
            break
        if not np.array_equal(outs, ~ins):
            viol('outside:complement', f'outside(pos, inclusive={not incl}) is not the complement of inside(pos, inclusive={incl}) '
                 f'for {pts[:used]}', variant=vname)
        if dflt and not np.array_equal(ins_default, ins):
            viol('inside:default', 'inside(pos) differs from inside(pos, inclusive=True)', variant=vname)
        if dflt and not np.array_equal(outs_default, outs):
            viol('outside:default', 'outside(pos) differs from outside(pos, inclusive=False)', variant=vname)
        if left:
            continue
        for p, got in zip(pts[:used], ins.reshape(-1).tolist()):
            s = [sum((_F(p[i]) - o[i]) * Vinv[i][j] for i in range(3)) for j in range(3)]
            margins = [min(abs(x), abs(1 - x)) for x in s]
            margin = min(margins)
            pm = max(abs(x) for x in p) + omax + vmax
            bound = SAFETY * U * cond * 3 * pm * rmax
            ctx.stats.case('oracle:inside', (repr(p), incl, vname), nontrivial=True)
            # exempt: within the rounding bound of a face whose half-space test involves rounding at all
            if any(not exact[i] and margins[i] <= bound for i in range(3)):
                continue
            if margin == 0:
                ctx.stats.case('oracle:inside:on-face-exact', (repr(p), incl, vname, all(exact)))
            want = all((0 <= x <= 1) if incl else (0 < x < 1) for x in s)
            if bool(got) != want:
                viol(f'inside:{"inclusive" if incl else "exclusive"}',
                     f'inside({p}, inclusive={incl}) = {bool(got)} but the exact relative coordinates are '
                     f'{[float(x) for x in s]} (distance to the nearest face {float(margin):.3g}) for vects {box.vects.tolist()}, '
                     f'origin {box.origin.tolist()}{tag}', variant=vname)
                break


def _exact_faces(V, o, pts):
    """which of the three pairs of faces `inside` decides without rounding: cell, origin and points on the dyadic grid
    (every product / sum of Plane.below is exact) and the un-normalised plane normal n = v_j x v_k parallel to a Cartesian
    axis, so that n / |n| is exactly a signed unit vector and both inner products are single coordinates.  True for all faces
    of an orthogonal cell, and e.g. for the two c-faces (z = zlo, z = zhi) of every sheared LAMMPS-oriented cell."""
    if not (all(_dyadic(x, 3, 64) for r in V for x in r) and all(_dyadic(x, 3, 64) for x in o)
            and all(_dyadic(x) for p in pts for x in p)):
        return [False, False, False]
    out = []
    for i in range(3):
        u, v = V[(i + 1) % 3], V[(i + 2) % 3]
        n = [u[1] * v[2] - u[2] * v[1], u[2] * v[0] - u[0] * v[2], u[0] * v[1] - u[1] * v[0]]
        out.append(sum(1 for x in n if x != 0) == 1)
    return out


def _container(vname):
    return 'list' if 'list' in vname else 'tuple' if 'tuple' in vname else 'array'


def _show(arg):
    s = repr(arg.tolist() if hasattr(arg, 'tolist') else arg)
    return s if len(s) < 200 else s[:200] + '…'


def _search_disagreements(ctx):
    """first the inputs on which model and implementation disagreed: the same op histories, judged by the
    independent clause oracle."""
    seen = set()
    for d in list(ctx.disagreements):
        r = d.replay or {}
        hist = [dict(h) for h in r.get('history', []) if h.get('_ok', True)]
        if not hist or hist[0]['kind'] in ('attr_vects',):
            continue
        first, muts = hist[0], hist[1:][-6:]
        key = repr((first, muts, r.get('point')))
        if key in seen or len(seen) >= 40:
            continue
        seen.add(key)
        if first.get('via') in ('family',) and 'family' not in first:
            continue
        line = (r.get('line') or '').split()
        pt = r.get('point') if r.get('point') and len(r['point']) == 3 else [0.25, 0.5, 0.75]
        pts = [pt] if line and line[0] in ('c2r', 'inside', 'outside') else [[0.25, 0.5, 0.75]]
        rels = [pt] if line and line[0] == 'r2c' else [[0.25, 0.5, 0.75]]
        for m in [first] + muts:
            m.setdefault('regime', 'float')
            if m.get('via') in ('ctor', 'family') and m is not first:
                m['via'] = 'set'
        _run_cell(ctx, first, pts, rels, muts)


INVALID_DEFS = [
    {'kind': 'lengths', 'via': 'method', 'kw': {'lx': 0.0, 'ly': 1.0, 'lz': 1.0}},
    {'kind': 'lengths', 'via': 'set', 'kw': {'lx': 1.0, 'ly': -2.0, 'lz': 1.0, 'xy': 0.5}},
    {'kind': 'lengths', 'via': 'method', 'kw': {'lx': 1.0, 'ly': 2.0, 'lz': 0.0, 'origin': [1.0, 1.0, 1.0]}},
    {'kind': 'hilos', 'via': 'method', 'kw': {'xlo': 1.0, 'xhi': 1.0, 'ylo': 0.0, 'yhi': 1.0, 'zlo': 0.0, 'zhi': 1.0}},
    {'kind': 'hilos', 'via': 'set', 'kw': {'xlo': 0.0, 'xhi': 1.0, 'ylo': 2.0, 'yhi': 1.0, 'zlo': 0.0, 'zhi': 1.0, 'yz': 0.25}},
    {'kind': 'abc', 'via': 'method', 'kw': {'a': 1.0, 'b': 2.0, 'c': 3.0, 'alpha': 0.0, 'beta': 90.0, 'gamma': 90.0}},
    {'kind': 'abc', 'via': 'set', 'kw': {'a': 1.0, 'b': 2.0, 'c': 3.0, 'alpha': 90.0, 'beta': 180.0, 'gamma': 90.0}},
    {'kind': 'abc', 'via': 'method', 'kw': {'a': 1.0, 'b': 2.0, 'c': 3.0, 'alpha': 90.0, 'beta': 90.0, 'gamma': 190.0}},
    {'kind': 'abc', 'via': 'method', 'kw': {'a': 1.0, 'b': 2.0, 'c': 3.0, 'alpha': 60.0, 'beta': 60.0, 'gamma': 150.0}},
    {'kind': 'abc', 'via': 'set', 'kw': {'a': 1.0, 'b': 2.0, 'c': 3.0, 'alpha': 20.0, 'beta': 140.0, 'gamma': 100.0, 'origin': [0.5, 0.25, 1.0]}},
    {'kind': 'abc', 'via': 'method', 'kw': {'a': 2.5, 'b': 1.5, 'c': 3.0, 'alpha': 100.0, 'beta': 120.0, 'gamma': 140.5}},
]

# every way of re-defining an existing Box: (kind, via, with the optional origin?)
REDEFINITIONS = [(k, v, o) for k in ('vectors', 'lengths', 'abc') for v in ('set', 'method', 'positional') for o in (True, False)] \
    + [('vects', 'set', True), ('vects', 'set', False), ('vects', 'method', True), ('vects', 'method', False),
       ('hilos', 'set', None), ('hilos', 'method', None), ('hilos', 'positional', None), ('reset', 'set', None),
       ('attr_origin', 'set', True), ('attr_origin', 'attr', True), ('attr_vects', 'attr', None)]


def gen_redefinition(rng, regime, kind, via, with_origin):
    """one re-definition of an existing Box through the given keyword family / method, with or without `origin`."""
    if kind == 'reset':
        return {'kind': 'reset', 'via': 'set', 'kw': {}, 'regime': regime}
    if kind == 'attr_origin':
        o = [(_dy(rng, -8, 8) if regime == 'grid' else rng.uniform(-8, 8)) for _ in range(3)]
        return {'kind': 'attr_origin', 'via': via, 'kw': {'origin': o}, 'regime': regime}
    if kind == 'attr_vects':
        v = gen_spec(rng, regime, kinds=['vects'], ints=False, tiny=True)['kw']['vects']
        return {'kind': 'attr_vects', 'via': 'attr', 'kw': {'vects': v}, 'regime': regime, 'container': rng.choice(['list', 'array'])}
    m = gen_spec(rng, regime, kinds=[kind], origin=bool(with_origin), nonzero_origin=True, tiny=True)
    if m.get('via') == 'family':
        m.pop('family', None)
        m.pop('fargs', None)
    m['via'] = via
    return m


def _place(rng, spec, regime, n):
    """points for a cell definition: built once on a throw-away Box (only to place the points)."""
    import atomman as am
    tmp = apply_spec(am.Box() if spec.get('via') not in ('ctor', 'family') else None, spec)
    V, o = _fmat(tmp)
    if _det3(V) == 0:
        raise ValueError(f'the Box built from it has a singular cell: vects {tmp.vects.tolist()}')
    pts = gen_points(rng, V, o, regime, n)
    rels = [[(_dy(rng, -2, 2) if regime == 'grid' else rng.uniform(-2, 2)) for _ in range(3)] for _ in range(n)]
    return pts, rels


def _run_cell(ctx, spec, pts, rels, muts, light=False, check_base=True):
    """oracle_cell with a last line of defence: nothing that happens while the clauses are evaluated may abort the
    search (the guards inside report what the implementation did; this reports what they did not foresee)."""
    try:
        oracle_cell(ctx, spec, pts, rels, muts, light=light, check_base=check_base)
    except Exception as e:  # noqa
        import traceback
        tb = traceback.extract_tb(e.__traceback__)
        where = '; '.join(f'{fr.name}:{fr.lineno}' for fr in tb[-3:])
        ctx.violate('oracle:exception', f'evaluating the clauses of C01 on {_short(spec)} followed by '
                    f'{[_short(m) if "perturb" not in m else m for m in muts]} ended in {type(e).__name__}: {e} ({where})',
                    {'op': 'cell', 'spec': _short(spec), 'points': pts, 'rels': rels,
                     'mutations': [_short(m) for m in muts if 'perturb' not in m], 'light': light})


def _search_redefinitions(ctx, rng, nbase):
    """An EXISTING Box (non-zero origin, non-unit cell, every lazily computed quantity warm) re-defined through every
    set_* method / Box.set keyword family / attribute setter, WITH and WITHOUT the optional origin: the result must be
    the cell just asked for — origin as given or the documented default (0,0,0), vectors as a new Box() given the same
    definition has them — whatever the object was before; set() is the unit cell at the origin; origin alone leaves
    the vectors, vects alone leaves the origin.  Then definitions outside the supported range: if refused, nothing
    may have changed; if accepted, the state must still consist of numbers."""
    for it in range(nbase):
        regime = 'grid' if it % 2 == 0 else 'float'
        base = gen_spec(rng, regime, origin=(it % 5 != 4), nonzero_origin=True,
                        kinds=[['vects', 'vectors', 'lengths', 'hilos', 'abc'][it % 5]])
        try:
            pts, rels = _place(rng, base, regime, 3)
        except Exception as e:  # noqa
            ctx.violate(f"construct:{base['kind']}", f'valid cell definition {_short(base)} raised {type(e).__name__}: {e}',
                        {'op': 'cell', 'spec': _short(base), 'points': [], 'rels': [], 'mutations': []})
            continue
        order = list(REDEFINITIONS)
        rng.shuffle(order)
        first = True
        for (kind, via, with_origin) in order:
            m = gen_redefinition(rng, regime, kind, via, with_origin)
            if kind != 'reset' and rng.random() < (0.6 if kind in ('vects', 'attr_vects') else 0.25):
                m['alias'] = True
            ctx.stats.case('oracle:redefine', (kind, via, with_origin, base['kind'], it))
            _run_cell(ctx, base, pts, rels, [m], light=True, check_base=first)
            first = False
        bad = [dict(b, regime=regime, invalid=True) for b in rng.sample(INVALID_DEFS, 4)]
        _run_cell(ctx, base, pts, rels, bad, light=True, check_base=False)


def _tri_cell(rng, regime):
    """a lower-triangular cell with positive diagonal (LAMMPS orientation), all three tilts non-zero."""
    if regime == 'grid':
        d = [_pos_dy(rng, 8.0) for _ in range(3)]
        t = [rng.choice([-1, 1]) * _pos_dy(rng, 4.0) for _ in range(3)]
    else:
        d = [rng.uniform(0.5, 8) for _ in range(3)]
        t = [rng.choice([-1, 1]) * rng.uniform(0.1, 4) for _ in range(3)]
    return [[d[0], 0.0, 0.0], [t[0], d[1], 0.0], [t[1], t[2], d[2]]]


def _search_sign_patterns(ctx, rng, n):
    """lower-triangular cells with EVERY sign pattern of the diagonal (the cell of a LAMMPS-oriented box with one, two
    or three Cartesian axes reversed): upper triangle zero throughout, right-handed for an even number of reversed axes
    (a 180 degree turn about x, y or z) — LAMMPS-compatible only for (+,+,+): is_lammps_norm, refusal of every LAMMPS
    getter, rebuild through lengths and angles (same cell up to a rotation), as first definition and as re-definition."""
    for it in range(n):
        regime = 'grid' if it % 2 == 0 else 'float'
        T = _tri_cell(rng, regime)
        o = [(_dy(rng, -8, 8) if regime == 'grid' else rng.uniform(-8, 8)) for _ in range(3)]
        for sg in SIGN_PATTERNS:
            V = [[x * sg[j] if x != 0 else 0.0 for j, x in enumerate(r)] for r in T]
            kind = rng.choice(['vects', 'vectors'])
            kw = {'vects': V} if kind == 'vects' else {'avect': V[0], 'bvect': V[1], 'cvect': V[2]}
            if rng.random() < 0.7:
                kw['origin'] = o
            spec = {'kind': kind, 'via': rng.choice(['ctor', 'set', 'method', 'positional']), 'regime': regime, 'kw': kw}
            ctx.stats.case('oracle:sign-pattern', (sg, it))
            try:
                pts, rels = _place(rng, spec, regime, 3)
            except Exception as e:  # noqa
                ctx.violate(f"construct:{kind}", f'valid cell definition {_short(spec)} raised {type(e).__name__}: {e}',
                            {'op': 'cell', 'spec': _short(spec), 'points': [], 'rels': [], 'mutations': []})
                continue
            if rng.random() < 0.5:
                _run_cell(ctx, spec, pts, rels, [], light=(it % 3 != 0))
            else:           # on an object that was a LAMMPS-oriented cell before
                base = {'kind': 'vects', 'via': 'set', 'regime': regime, 'kw': {'vects': T, 'origin': o}}
                _run_cell(ctx, base, pts, rels, [dict(spec, via='set' if spec['via'] == 'ctor' else spec['via'])],
                          light=(it % 3 != 0), check_base=False)


def _search_scales(ctx, rng, n):
    """the same cell in other units of length, up to the ends of the double range: every definition (grid and generic, all
    parameter sets, left-handed now and then) times 2^k, k swept over +-40 .. +-500 — lengths and their squares are doubles
    throughout, third powers (volume) up to 2^+-330, fourth powers (plane normals) up to 2^+-235; a clause is evaluated
    wherever its own quantities are doubles.  Multiplying by a power of two is exact, so a grid cell stays exact.  Lengths
    scale with the unit; angles, relative coordinates, inside/outside and is_lammps_norm do not depend on it
    (Proofs/C01_Scale.lean), which is how the oracle decides what they must be."""
    sweep = [40, 100, 200, 235, 250, 256, 260, 270, 300, 330, 341, 342, 400, 450, 480, 495, 500]
    for it in range(n):
        regime = 'grid' if it % 2 == 0 else 'float'
        unit = gen_spec(rng, regime, allow_left=(it % 7 == 3), typed=False, ints=False)
        k = rng.choice([-1, 1]) * (sweep[(it // 2) % len(sweep)] if it % 3 else rng.randint(40, SCALE_SQUARE))
        spec = scale_spec(unit, 2.0 ** k)
        spec['scale2'] = k
        muts = []
        if rng.random() < 0.4:           # then the object is given another cell in quite another unit, or a slightly changed one
            if rng.random() < 0.5:
                m = scale_spec(gen_spec(rng, regime, typed=False, ints=False), 2.0 ** gen_scale_exp(rng, SCALE_SQUARE))
                if m['via'] in ('ctor', 'family'):
                    m['via'] = 'set'
                muts.append(m)
            else:
                muts.append(gen_perturb(rng))
        ctx.stats.case('oracle:scale', (k, it), sample={'spec': _short(spec)})
        try:
            pts, rels = _place(rng, spec, regime, 4)
        except Exception as e:  # noqa
            ctx.violate(f"construct:{spec['kind']}", f'valid cell definition {_short(spec)} raised {type(e).__name__}: {e}',
                        {'op': 'cell', 'spec': _short(spec), 'points': [], 'rels': [], 'mutations': []})
            continue
        _run_cell(ctx, spec, pts, rels, muts, light=(it % 4 != 0))


def _search_types(ctx, rng, n):
    """one cell, the numeric TYPE of its arguments varied: for every integer / single-precision scalar class T and every
    subset of the length-like arguments, those arguments are handed over as T (python int, numpy int64 / int32 / int16,
    0-d integer array, numpy float32, 0-d float32 array) and the rest as python floats with NON-integer tilts / angles /
    components; likewise the rows of vects / avect, bvect, cvect / origin as int lists, int arrays, float32 arrays, tuples,
    mixed lists.  The cell is the one the values describe whatever their types (construction clause, exact)."""
    for it in range(n):
        for kind in ('lengths', 'hilos', 'abc', 'vectors', 'vects'):
            base = None
            for _ in range(50):
                base = gen_spec(rng, 'grid', kinds=[kind], ints=False, typed=False)
                if base.get('via') != 'family':
                    break
            base.pop('container', None)
            integerise(rng, base, p=1.0)
            if kind == 'abc':
                kw = base['kw']
                al, be, ga = kw.get('alpha', 90.0), kw.get('beta', 90.0), kw.get('gamma', 90.0)
                if rng.random() < 0.5 and al == be == ga == 90.0:
                    kw['gamma'] = 75.5
            if kind in ('vects', 'vectors'):
                groups = [[f'vects.{i}'] for i in range(3)] if kind == 'vects' else [['avect'], ['bvect'], ['cvect']]
                classes = [(None, v) for v in INT_VECTORS + ['float32-array', 'mixed', 'tuple']]
            else:
                groups = {'lengths': [['lx'], ['ly'], ['lz']], 'hilos': [['xlo', 'xhi'], ['ylo', 'yhi'], ['zlo', 'zhi']],
                          'abc': [['a'], ['b'], ['c']]}[kind]
                classes = [(c, None) for c in INT_SCALARS + ['np.float32', 'arr0-float32']]
            for (c, vc) in classes:
                masks = list(range(1, 8)) if it == 0 else [7, rng.randint(1, 6)]
                for mask in masks:
                    only = [k for g, grp in enumerate(groups) if mask >> g & 1 for k in grp]
                    if kind == 'hilos' and rng.random() < 0.3:      # one bound of an axis only
                        only = [k for k in only if rng.random() < 0.6] or only
                    spec = {k: (dict(v) if isinstance(v, dict) else v) for k, v in base.items()}
                    spec['via'] = rng.choice(['ctor', 'set', 'method', 'positional'])
                    if 'origin' in spec['kw'] and rng.random() < 0.5:
                        only = only + ['origin']
                    assign_types(rng, spec, cls=c, vcls=vc or rng.choice(INT_VECTORS + ['floats']), only=only)
                    ctx.stats.case('oracle:types', (kind, c or vc, mask, it), sample={'spec': _short(spec)})
                    _run_cell(ctx, spec, [[0.25, 0.5, 0.75]], [[0.25, 0.5, 0.75]], [], light=('construct' if mask != 7 else True))


# ----------------------------------------------------------------------------------------
# keyword ORDER: every keyword family of Box(...) / Box.set(...) / set_*(...) called with its keywords in every order
# ----------------------------------------------------------------------------------------
ORDER_FAMILIES = {
    'vects': (['vects'], ['origin']),
    'vectors': (['avect', 'bvect', 'cvect'], ['origin']),
    'lengths': (['lx', 'ly', 'lz'], ['xy', 'xz', 'yz', 'origin']),
    'hilos': (['xlo', 'xhi', 'ylo', 'yhi', 'zlo', 'zhi'], ['xy', 'xz', 'yz']),
    'abc': (['a', 'b', 'c'], ['alpha', 'beta', 'gamma', 'origin']),
}


def _full_definition(rng, regime, kind):
    """a cell definition of the given family with ALL optional keywords present and pairwise different values (so that any
    exchange of two keywords gives another cell)."""
    g = regime == 'grid'
    num = (lambda lo, hi: _dy(rng, lo, hi)) if g else (lambda lo, hi: rng.uniform(lo, hi))
    for _ in range(200):
        spec = gen_spec(rng, regime, kinds=[kind], origin=(kind != 'hilos'), nonzero_origin=True, ints=False, typed=False)
        if spec.get('via') == 'family':
            continue
        kw = spec['kw']
        for t in ('xy', 'xz', 'yz'):
            if kind in ('lengths', 'hilos') and not kw.get(t):
                kw[t] = rng.choice([-1, 1]) * (_pos_dy(rng, 4.0) if g else rng.uniform(0.1, 4))
        if kind == 'abc':
            al, be, ga = _angles(rng)
            kw.update(alpha=al, beta=be, gamma=ga)
        flat = [float(x) for v in kw.values() for x in (v if isinstance(v, (list, tuple)) and not isinstance(v[0], (list, tuple))
                                                         else [y for r in v for y in r] if isinstance(v, (list, tuple)) else [v])]
        scal = [float(v) for v in kw.values() if not isinstance(v, (list, tuple))]
        if len(set(scal)) != len(scal):
            continue
        if kind == 'vectors' and len({tuple(kw[k]) for k in ('avect', 'bvect', 'cvect', 'origin')}) != 4:
            continue
        if not flat:
            continue
        spec.pop('container', None)
        spec.pop('order', None)
        spec.pop('literal', None)
        return spec
    raise RuntimeError('no full definition for ' + kind)


def _search_keyword_orders(ctx, rng, n):
    """One cell definition, the ORDER of its keywords varied: every keyword family (mandatory keywords + every subset of the
    optional ones, `origin` in any position) through Box(...), Box.set(...) and the set_* method, with the keywords written
    literally in the call and handed over as a dictionary built in that order — all permutations for up to 4 keywords, random
    permutations beyond.  The cell is the one the NAMES say, whatever the order (construction clause, exact)."""
    import itertools
    for it in range(n):
        regime = 'grid' if it % 2 == 0 else 'float'
        for kind, (req, opt) in ORDER_FAMILIES.items():
            full = _full_definition(rng, regime, kind)
            masks = list(range(1 << len(opt)))
            if len(masks) > 4 and it > 0:
                masks = [0, len(masks) - 1] + rng.sample(masks[1:-1], 3)
            k = rng.randrange(6)
            for mask in masks:
                names = req + [o for i, o in enumerate(opt) if mask >> i & 1]
                if len(names) <= 4:
                    perms = [list(q) for q in itertools.permutations(names)]
                else:
                    perms = [list(reversed(names)), names[1:] + names[:1]] + [rng.sample(names, len(names)) for _ in range(6 if kind != 'vectors' else 10)]
                cross = kind == 'vectors' or len(names) <= 3       # every (entry point, form) for every order
                for perm in perms:
                    combos = [(v, lit) for v in ('ctor', 'set', 'method') for lit in (False, True)]
                    if not cross:
                        k += 1
                        combos = [combos[k % 6], combos[(k * 5 + 3) % 6]]
                    for via, lit in combos:
                        if kind == 'vects' and via == 'method':
                            continue
                        spec = dict(full, kw={key: full['kw'][key] for key in names}, via=via, order=list(perm))
                        if lit:
                            spec['literal'] = True
                        if rng.random() < 0.2:
                            spec['container'] = 'array'
                        ctx.stats.case('oracle:keyword-order', (kind, tuple(perm), via, lit, it), sample={'spec': _short(spec)})
                        _run_cell(ctx, spec, [[0.25, 0.5, 0.75]], [[0.25, 0.5, 0.75]], [], light='construct')


# ----------------------------------------------------------------------------------------
# extreme cell angles: 0.004 .. 2 degrees off 0 or 180, each of alpha, beta, gamma, acute and obtuse side
# ----------------------------------------------------------------------------------------
EXTREME_KINDS = ['abc', 'lengths', 'hilos', 'vects', 'vectors', 'abc', 'lengths', 'vects']


def gen_extreme(rng, regime, which, obtuse, kind):
    """a non-degenerate right-handed cell whose angle `which` (alpha = b^c, beta = a^c, gamma = a^b) is delta or 180 - delta,
    delta log-uniform over 0.004 .. 2 degrees (tan delta = 1 / ratio): through set_abc (the other two angles 90 / 90 or the
    pair theta, 180 - theta resp. theta, theta that keeps the triple realisable), or a LAMMPS cell with one huge tilt
    (lx = 200, ly = 1, xy = -100 is gamma = 179.43), given as lengths / bounds / vectors, the vectors also turned
    (axes permuted, 180 degree turns, a generic rotation)."""
    g = regime == 'grid'
    s = -1.0 if obtuse else 1.0
    via = rng.choice(['ctor', 'set', 'method', 'positional'])
    if kind == 'abc':
        delta = 10 ** rng.uniform(math.log10(0.004), math.log10(2.0))
        if rng.random() < 0.25:
            delta = rng.choice([0.5, 0.6, 0.25, 0.125, 0.01, 0.05, 1.0, 0.75])
        x = 180.0 - delta if obtuse else delta
        ang = {'alpha': 90.0, 'beta': 90.0, 'gamma': 90.0}
        if rng.random() < 0.4:
            theta = rng.choice([60.0, 75.0, 120.0, rng.uniform(30, 150)])
            others = [k for k in ang if k != which]
            ang[others[0]] = theta
            ang[others[1]] = 180.0 - theta if obtuse else theta
        ang[which] = x
        L = (lambda: _pos_dy(rng, 8.0)) if g else (lambda: rng.uniform(1.0, 8.0))
        kw = dict(a=L(), b=L(), c=L())
        for k in ang:
            if ang[k] != 90.0 or rng.random() < 0.6:
                kw[k] = ang[k]
        if rng.random() < 0.5:
            kw['origin'] = [(_dy(rng, -8, 8) if g else rng.uniform(-8, 8)) for _ in range(3)]
        spec = {'kind': 'abc', 'via': via, 'regime': 'float', 'kw': kw}
    else:
        if g:
            ratio = float(rng.choice([32, 40, 64, 100, 128, 200, 256, 500, 512, 1000]))
            h = _pos_dy(rng, 1.0)
            P = lambda hi=8.0: _pos_dy(rng, hi)                             # noqa: E731
            T = lambda: _dy(rng, -2, 2)                                     # noqa: E731
        else:
            ratio = 10 ** rng.uniform(math.log10(28.7), math.log10(14300.0))
            h = rng.uniform(0.05, 2.0)
            P = lambda hi=8.0: rng.uniform(0.5, hi)                         # noqa: E731
            T = lambda: rng.uniform(-2, 2)                                  # noqa: E731
        if which == 'gamma':
            V = [[P(), 0.0, 0.0], [s * ratio * h, h, 0.0], [T(), T(), P()]]
        elif which == 'beta':
            yz = rng.choice([0.0, h / 2, -h / 2, h, -h])
            V = [[P(), 0.0, 0.0], [T(), P(), 0.0], [s * ratio * h, yz, h]]
        else:
            b = [T(), P(4.0)]
            nb = math.hypot(*b)
            m = max(1.0, float(round(ratio * h / nb)))
            pq = [rng.choice([0.0, h / 2, -h / 2]), rng.choice([0.0, h / 4, -h / 4])]
            V = [[P(), 0.0, 0.0], [b[0], b[1], 0.0], [s * m * b[0] + pq[0], s * m * b[1] + pq[1], h]]
        o = [(_dy(rng, -8, 8) if g else rng.uniform(-8, 8)) for _ in range(3)]
        if kind == 'lengths':
            kw = {'lx': V[0][0], 'ly': V[1][1], 'lz': V[2][2]}
            for t, x in (('xy', V[1][0]), ('xz', V[2][0]), ('yz', V[2][1])):
                if x != 0 or rng.random() < 0.5:
                    kw[t] = x
            if rng.random() < 0.6:
                kw['origin'] = o
        elif kind == 'hilos':
            kw = {'xlo': o[0], 'xhi': o[0] + V[0][0], 'ylo': o[1], 'yhi': o[1] + V[1][1], 'zlo': o[2], 'zhi': o[2] + V[2][2]}
            for t, x in (('xy', V[1][0]), ('xz', V[2][0]), ('yz', V[2][1])):
                if x != 0 or rng.random() < 0.5:
                    kw[t] = x
        else:
            r = rng.random()
            if r < 0.3:
                cols = rng.choice([[1, 2, 0], [2, 0, 1]])
                V = [[row[c] for c in cols] for row in V]
            elif r < 0.5:
                sg = rng.choice([q for q in SIGN_PATTERNS[1:] if q[0] * q[1] * q[2] > 0])
                V = [[x * sg[j] if x != 0 else x for j, x in enumerate(row)] for row in V]
            elif r < 0.7 and not g:
                np = _np()
                Q, _ = np.linalg.qr(np.array([[rng.gauss(0, 1) for _ in range(3)] for _ in range(3)]))
                if np.linalg.det(Q) < 0:
                    Q[:, 0] = -Q[:, 0]
                V = (np.array(V) @ Q).tolist()
            kw = {'vects': V} if kind == 'vects' else {'avect': V[0], 'bvect': V[1], 'cvect': V[2]}
            if rng.random() < 0.6:
                kw['origin'] = o
        spec = {'kind': kind, 'via': via, 'regime': regime, 'kw': kw}
    order, literal = gen_order(rng, spec['kw'])
    if order:
        spec['order'] = order
    if literal:
        spec['literal'] = True
    return spec


def _search_extreme_angles(ctx, rng, n):
    """cells with one angle 0.004 .. 2 degrees off 0 or 180 degrees — each of alpha, beta, gamma, acute and obtuse, through every
    parameter set, as first definition and as re-definition of an ordinary cell: the reported angle is the angle of the
    vectors (exact atan2 clause: a cosine cannot tell 179.99 from 180, nor an arcsin the obtuse from the acute side), the
    length / angle read-back rebuilds the cell (tilt signs included) wherever the rounding bound u cond^2 still resolves it."""
    for it in range(n):
        which = ('alpha', 'beta', 'gamma')[it % 3]
        obtuse = (it // 3) % 2 == 0
        kind = EXTREME_KINDS[(it // 6) % len(EXTREME_KINDS)]
        regime = 'grid' if (it // 6) % 3 == 0 and kind != 'abc' else 'float'
        spec = gen_extreme(rng, regime, which, obtuse, kind)
        ctx.stats.case('oracle:extreme-angle', (which, obtuse, kind, it), sample={'spec': _short(spec)})
        first, muts = spec, []
        if rng.random() < 0.3:      # on an object that was an ordinary cell before (everything lazily computed warm)
            first = gen_spec(rng, regime)
            muts = [dict(spec, via='set' if spec['via'] == 'ctor' else spec['via'])]
        try:
            pts, rels = _place(rng, spec, regime, 3)
        except Exception as e:  # noqa
            ctx.violate(f"construct:{spec['kind']}", f'valid cell definition {_short(spec)} raised {type(e).__name__}: {e}',
                        {'op': 'cell', 'spec': _short(spec), 'points': [], 'rels': [], 'mutations': []})
            continue
        _run_cell(ctx, first, pts, rels, muts, light=(it % 2 == 1), check_base=not muts)


# documented behaviour of the seven family constructors (docstrings / error messages), independent of the Lean model:
# name -> (parameter letters, refusal predicate, keywords handed to Box(**kwargs))
DOC_CTORS = {
    'cubic': ('a', lambda a: False, lambda a: dict(a=a, b=a, c=a, alpha=90, beta=90, gamma=90)),
    'hexagonal': ('ac', lambda a, c: a == c, lambda a, c: dict(a=a, b=a, c=c, alpha=90, beta=90, gamma=120)),
    'tetragonal': ('ac', lambda a, c: a == c, lambda a, c: dict(a=a, b=a, c=c, alpha=90, beta=90, gamma=90)),
    'trigonal': ('aA', lambda a, al: al >= 120, lambda a, al: dict(a=a, b=a, c=a, alpha=al, beta=al, gamma=al)),
    'orthorhombic': ('abc', lambda a, b, c: a == b or a == c, lambda a, b, c: dict(a=a, b=b, c=c, alpha=90, beta=90, gamma=90)),
    'monoclinic': ('abcB', lambda a, b, c, be: a == b or a == c or be <= 90,
                   lambda a, b, c, be: dict(a=a, b=b, c=c, alpha=90, beta=be, gamma=90)),
    'triclinic': ('abcABG', lambda a, b, c, al, be, ga: a == b or a == c or al == be or al == ga,
                  lambda a, b, c, al, be, ga: dict(a=a, b=b, c=c, alpha=al, beta=be, gamma=ga)),
}


def _search_ctors(ctx, rng, n):
    """Box.cubic .. Box.triclinic: refused exactly where documented; otherwise the cell of Box(a=.., .., gamma=..) with the documented
    lengths and angles (bitwise), origin (0,0,0); that cell then goes through the getter clause (lengths and angles asked for)."""
    import warnings
    np = _np()
    import atomman as am
    for it in range(n):
        name = rng.choice(sorted(DOC_CTORS))
        letters, refuses, kws = DOC_CTORS[name]
        g = rng.random() < 0.5
        L = (lambda: _pos_dy(rng)) if g else (lambda: rng.uniform(0.5, 8.0))
        lens = [L(), L(), L()]
        r = rng.random()
        if r < 0.25:
            lens[rng.choice([1, 2])] = lens[0]
        elif r < 0.4:
            lens[2] = lens[1]
        al = rng.choice([rng.uniform(50.0, 119.99), 119.5, 119.0 + rng.random(), 120.0, 120.5, 90.0, 60.0, rng.uniform(91.0, 119.0)])
        be = rng.choice([rng.uniform(90.01, 119.0), 90.0, 89.5, 90.5, 100.25])
        ga = rng.choice([rng.uniform(70.0, 110.0), al, 90.0, 80.0])
        if name == 'triclinic':
            al, be = rng.uniform(70.0, 110.0), rng.choice([rng.uniform(70.0, 110.0), al])
        take = {'a': lens[0], 'b': lens[1], 'c': lens[2], 'A': al, 'B': be, 'G': ga}
        args = [take[ch] for ch in letters]
        call = f'Box.{name}({", ".join(repr(x) for x in args)})'
        ctx.stats.case('ctor:' + name, (it, call), nontrivial=True, sample={'call': call})
        rp = {'op': 'ctor', 'name': name, 'args': args}
        try:
            with warnings.catch_warnings():
                warnings.simplefilter('ignore')
                got = getattr(am.Box, name)(*args)
        except Exception as e:  # noqa
            got = e
        kw = kws(*args)
        try:
            with warnings.catch_warnings():
                warnings.simplefilter('ignore')
                ref = am.Box(**kw)
        except Exception as e:  # noqa
            ref = e
        if refuses(*args):
            if not isinstance(got, ValueError):
                ctx.violate(f'ctor:{name}:not-refused', f'{call} is documented to be refused (ValueError) but returned '
                            f'{got.vects.tolist() if hasattr(got, "vects") else repr(got)}', rp)
            continue
        if isinstance(ref, Exception):
            if not isinstance(got, Exception):
                ctx.violate(f'ctor:{name}:accepted', f'{call} accepted although Box(**{kw}) raises {type(ref).__name__}: {ref}', rp)
            continue
        if isinstance(got, Exception):
            ctx.violate(f'ctor:{name}:spurious-refusal', f'{call} raised {type(got).__name__}: {got} — not among the documented refusals, and '
                        f'Box(**{kw}) is the cell {ref.vects.tolist()}', rp)
            continue
        if got.vects.tobytes() != ref.vects.tobytes() or got.origin.tobytes() != np.zeros(3).tobytes():
            ctx.violate(f'ctor:{name}:cell', f'{call} has vects {got.vects.tolist()}, origin {got.origin.tolist()}; the documented definition '
                        f'Box(**{kw}) has vects {ref.vects.tolist()}, origin [0, 0, 0]', rp)


def search(ctx, broken):
    if ctx.disagreements:
        try:
            _search_disagreements(ctx)
        except Exception as e:  # noqa
            ctx.notes.append(f'replaying the correspondence disagreements through the clause oracle failed: {type(e).__name__}: {e}')
    rng = random.Random(ctx.seed * 7919 + 17)
    _search_redefinitions(ctx, rng, ctx.n(8, 160) * (2 if broken else 1))
    _search_wrappers(ctx, random.Random(ctx.seed * 7919 + 23), ctx.n(40, 800))
    _search_ctors(ctx, random.Random(ctx.seed * 7919 + 24), ctx.n(150, 3000) * (2 if broken else 1))
    _search_types(ctx, random.Random(ctx.seed * 7919 + 18), ctx.n(1, 12))
    _search_keyword_orders(ctx, random.Random(ctx.seed * 7919 + 21), ctx.n(1, 12))
    _search_extreme_angles(ctx, random.Random(ctx.seed * 7919 + 22), ctx.n(96, 2400) * (2 if broken else 1))
    _search_scales(ctx, random.Random(ctx.seed * 7919 + 20), ctx.n(70, 1500) * (2 if broken else 1))
    _search_sign_patterns(ctx, random.Random(ctx.seed * 7919 + 19), ctx.n(4, 60) * (2 if broken else 1))
    N = ctx.n(60, 1200) * (3 if broken else 1)
    for it in range(N):
        regime = 'grid' if it % 2 == 0 else 'float'
        kinds = ['lengths', 'hilos'] if it % 7 == 0 else None
        spec = gen_spec(rng, regime, kinds=kinds, allow_left=(it % 9 == 4))
        if kinds:
            for t in ('xy', 'xz', 'yz'):
                spec['kw'].pop(t, None)
        try:
            pts, rels = _place(rng, spec, regime, 6)
        except Exception as e:  # noqa
            ctx.violate(f"construct:{spec['kind']}", f'valid cell definition {_short(spec)} raised {type(e).__name__}: {e}',
                        {'op': 'cell', 'spec': _short(spec), 'points': [], 'rels': [], 'mutations': []})
            continue
        muts = []
        for _ in range(rng.randint(0, 2)):
            r = rng.random()
            if r < 0.3:
                v = gen_spec(rng, regime, kinds=['vects'], allow_left=rng.random() < 0.1)['kw']['vects']
                muts.append({'kind': 'attr_vects', 'via': 'attr', 'kw': {'vects': v}, 'regime': regime})
            elif r < 0.6:
                muts.append(gen_perturb(rng))
            else:
                m = gen_spec(rng, regime)
                if m['via'] in ('ctor', 'family'):
                    m['via'] = 'set'
                muts.append(m)
        for m in [spec] + muts:
            if 'perturb' not in m and m.get('via') != 'family' and rng.random() < 0.3:
                m['alias'] = True
        _run_cell(ctx, spec, pts, rels, muts)
    # left-handed cells (negative determinant): a row negated or two rows exchanged; first definition and re-definition
    for it in range(ctx.n(12, 300) * (2 if broken else 1)):
        regime = 'grid' if it % 2 == 0 else 'float'
        spec = gen_spec(rng, regime, kinds=[rng.choice(['vects', 'vectors'])], ints=False, typed=False)
        V = spec['kw']['vects'] if spec['kind'] == 'vects' else [spec['kw']['avect'], spec['kw']['bvect'], spec['kw']['cvect']]
        V = [list(r) for r in V]
        if rng.random() < 0.5:
            i = rng.randrange(3)
            V[i] = [-x for x in V[i]]
        else:
            i, j = rng.sample(range(3), 2)
            V[i], V[j] = V[j], V[i]
        lkw = {'vects': V} if spec['kind'] == 'vects' else {'avect': V[0], 'bvect': V[1], 'cvect': V[2]}
        if 'origin' in spec['kw']:
            lkw['origin'] = spec['kw']['origin']
        left = dict(spec, kw=lkw)
        base = gen_spec(rng, regime) if rng.random() < 0.5 else None
        if base is not None and base['via'] in ('ctor', 'family') and rng.random() < 0.5:
            base['via'] = 'set'
        first, muts = (left, []) if base is None else (base, [dict(left, via=rng.choice(['set', 'method', 'positional']))])
        try:
            pts, rels = _place(rng, left, regime, 4)
        except Exception as e:  # noqa
            ctx.violate(f"construct:{left['kind']}", f'valid cell definition {_short(left)} raised {type(e).__name__}: {e}',
                        {'op': 'cell', 'spec': _short(left), 'points': [], 'rels': [], 'mutations': []})
            continue
        _run_cell(ctx, first, pts, rels, muts, light=(it % 3 != 0), check_base=base is None)
    # near-degenerate (still realisable) cells: one angle within a few degrees of 0 or 180
    for it in range(ctx.n(12, 300) * (2 if broken else 1)):
        ang = {'alpha': 90.0, 'beta': 90.0, 'gamma': 90.0}
        k = rng.choice(list(ang))
        ang[k] = rng.choice([1.0, 2.0, 5.0, 175.0, 178.0, 179.0, rng.uniform(0.5, 12), rng.uniform(168, 179.5)])
        if rng.random() < 0.5:
            k2 = rng.choice([x for x in ang if x != k])
            ang[k2] = rng.uniform(80, 100)
            ca, cb, cg = (math.cos(math.radians(ang[x])) for x in ('alpha', 'beta', 'gamma'))
            if 1 - ca * ca - cb * cb - cg * cg + 2 * ca * cb * cg < 2e-4:      # not realisable any more
                ang[k2] = 90.0
        spec = {'kind': 'abc', 'via': rng.choice(['ctor', 'set', 'method', 'positional']), 'regime': 'float',
                'kw': dict(a=rng.uniform(1, 8), b=rng.uniform(1, 8), c=rng.uniform(1, 8), **ang)}
        try:
            pts, rels = _place(rng, spec, 'float', 3)
        except Exception as e:  # noqa
            ctx.violate('construct:abc', f'valid cell definition {_short(spec)} raised {type(e).__name__}: {e}',
                        {'op': 'cell', 'spec': _short(spec), 'points': [], 'rels': [], 'mutations': []})
            continue
        ctx.stats.case('oracle:near-degenerate', repr(spec['kw']))
        _run_cell(ctx, spec, pts, rels, [], light=True)
    # chains of small changes on one object whose lazily computed quantities are all warm
    for it in range(ctx.n(60, 1500) * (3 if broken else 1)):
        spec = gen_spec(rng, 'float')
        if rng.random() < 0.5:
            spec = scale_spec(spec, 2.0 ** gen_scale_exp(rng, SCALE_SQUARE))
        try:
            pts, rels = _place(rng, spec, 'float', 5)
        except Exception as e:  # noqa
            ctx.violate(f"construct:{spec['kind']}", f'valid cell definition {_short(spec)} raised {type(e).__name__}: {e}',
                        {'op': 'cell', 'spec': _short(spec), 'points': [], 'rels': [], 'mutations': []})
            continue
        eps0 = 10 ** rng.uniform(-15, -4)
        muts = [gen_perturb(rng, eps=(rng.choice([-1, 1]) * eps0 if rng.random() < 0.6 else None))
                for _ in range(rng.randint(2, 4))]
        _run_cell(ctx, spec, pts, rels, muts, light=True)


def replay(ctx, payload):
    r = payload.get('replay', {})
    if r.get('op') == 'cell':
        spec = dict(r['spec'])
        spec.setdefault('regime', 'float')
        muts = [dict(m, regime=m.get('regime', 'float')) for m in r.get('mutations', [])]
        print('replay cell', spec)
        _run_cell(ctx, spec, r['points'] or [[0.25, 0.5, 0.75]], r['rels'] or [[0.25, 0.5, 0.75]], muts,
                  light=r.get('light') or False, check_base=bool(r.get('check_base', True)))
        for v in ctx.violations:
            print('  still fails:', v.what[:300])
        if not ctx.violations:
            print('  no clause fails on the current tree')
    else:
        if ctx.driver is not None:
            correspond(ctx)
        search(ctx, True)


MANIFEST = {
    'text': 'Box model over any ordered field (Atomman/Box.lean + Atomman/C01.lean): LAMMPS-normal cells rebuilt from their '
            'lengths/tilts or lo/hi bounds are the same box (both directions), set_abc gives the requested Gram matrix and a '
            'normal box fed back through it is unchanged, any right-handed cell rebuilt through lengths+angles is the same cell '
            'up to a proper rotation (equal Gram matrix <=> R = V1^-1 V2 orthogonal, det 1), the two position conversions are '
            'mutual inverses for det != 0, reciprocal vectors are dual, inside <=> relative coordinates in the closed/open unit '
            'cube for every positive normalisation of the six plane normals, outside = complement, volume = |det| = lx ly lz '
            '= sqrt(det Gram), setter clean-up idempotent; the Box object with its cached reciprocal vectors (filled on first '
            'read, emptied by every call that assigns vects) keeps "cached = inverse-transpose of the current vectors" and '
            'reports for every call sequence what the cache-free cell reports; every cell-defining call gives the cell (vectors and '
            'origin, default (0,0,0)) a new Box() given the same definition has, whatever the object was before, a refused call '
            'changes nothing, origin alone keeps the vectors, set() is the unit cell; Box.set(**kw) accepts exactly the documented '
            'keyword sets (sound and complete), set_* parameter order as documented; the same cell in another unit of length: squares x s^2, '
            'volume x |s|^3, reciprocal vectors / s, cosines of the angles, relative coordinates, is_lammps_norm (s>0) and inside/outside '
            'unchanged; LAMMPS getters handed out iff upper triangle zero and all three diagonal entries positive, two LAMMPS-normal cells '
            'with equal Gram matrix are equal, a LAMMPS cell turned by 180 degrees is right-handed with the same Gram matrix but not normal. Extension round: lengths, angles in degrees and the '
            'square roots inside the model (record Trig = sqrt, cos, arccos, pi; Trig.Spec proved for the real functions): every ordered pair '
            '(X, Y) of the four parameter sets - a non-degenerate cell defined through X is read back through Y and rebuilt through Y as the '
            'same vectors and origin (rebuild_any_pair, also on the object with its cache: obj_rebuild_any_pair); set_abc(a,b,c,alpha,beta,gamma) '
            'reads back exactly a, b, c and the three angles in degrees (abc_readback_degrees); a right-handed cell not in LAMMPS orientation: '
            'vectors rebuild it, LAMMPS getters refuse, lengths+angles give a properly rotated LAMMPS-oriented copy (rebuild_turned_cell); which '
            'definitions / read-backs are refused (define_refuses_iff, readAs_refuses_iff, ctor_refuses_iff); arrays of points are converted / '
            'tested row by row, shapes kept, trailing dimension 3 required (conv_rows, conv_rows_inverse, insideAll_iff_rel, convShape_ok_iff); the '
            'setter clean-up statement, vect_angle down to degrees, set_abc with cos/pi/roots, the trailing-dimension checks, the seven family '
            'constructors and System.scale/unscale are regenerated from the source and proved equal to the model. Only float rounding stays partial.',
    'note': 'Trusted: Lean kernel + propext/Classical.choice/Quot.sound; the hand-written model is tied to atomman.Box by a '
            'state-machine correspondence on exact rational inputs (incl. chains of one-ulp..1e-4 changes on warm objects; exact on the dyadic grid, 1e3*2^-52*cond*scale elsewhere, '
            'points within that bound of a face exempt); numpy cos/sqrt/arccos/norm assumed to be the real functions up to rounding (their specification Trig.Spec is proved for the real functions); '
            'shapes of point arrays modelled (convShape / insideShape, op shape), numpy broadcasting inside a row exercised, not modelled.',
    'technique': 'Lean 4 theorems over a hand-written polymorphic model + translator (class state/write protocol, the '
                 'one-line formulas, the set() keyword chain, set_* signatures/defaults, __init__ and the family constructors of '
                 'Box.py, the setter clean-up statement, vect_angle to degrees, set_abc with its library calls, shape checks, family-constructor guards, '
                 'System.scale/unscale regenerated as Lean and proved equal to the model on every run) + differential '
                 'state-machine correspondence + exact-rational clause oracle on the real code',
}
